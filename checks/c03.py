"""C03 - exactly the annotated, non-skipped items, fields and variants are generated.
Proof: Props/C03.v (front end: C03_items*, C03_members_*; back ends: C03_item_<L>, C03_back_<L>).

Correspondence (all on the REAL code, through harness/libdrive and the real binary):
 (a) front end: seeded programs (lib/progs.py, profile below) mixing annotated and un-annotated items of
     every kind at module depth 0-4 and inside fn / impl bodies, annotated unions / fns as decoys, skip
     markers in both spellings on random subsets and - for small items - on EVERY subset of the fields,
     of the variants and of the fields of a struct variant, attribute order / splitting permuted.
     parser::parse's ParsedData (names per kind, error count; fields and variants of every item) is
     compared with the extracted model and judged by the extracted good_C03_front and by the spec's
     expected_field_names / expected_variant_names computed from the syn AST of the same text, and
     cross-checked with the generator's own ground truth.
 (b) back ends: Language::generate_types for all six languages on the same programs; the text is turned
     into (kind, name, ordered member keys, ordered variants with payload form and inline members) by
     lib/extract.py, compared with the extracted model's declarations (c03_model) and judged by the
     extracted good_C03_src_file (expectation computed from the source AST by Spec/C03Spec.v) and by
     good_C03_sigs against the IR the back end was given.
 (c) the real binary on a sample: exit status, diagnostic naming the file and no output for a program with
     a failing annotated item; exit 0 and an output file that passes the same verdict otherwise."""
import concurrent.futures, copy, itertools, json, subprocess
import vf, progs, back, extract, ir as IR
from vf import S, Lst, parse_sx, dump_sx, unS, sx_opt

LANGS = [('typescript', 'ts', [], {}), ('kotlin', 'kt', ['--java-package', 'com.example'], {'package': 'com.example'}),
         ('swift', 'swift', [], {}), ('scala', 'scala', ['--scala-package', 'com.example'], {'package': 'com.example'}),
         ('go', 'go', ['--go-package', 'p'], {'package': 'p'}), ('python', 'py', [], {})]
WRAPPERS = ['mod a', 'mod b', 'mod deep', 'fn body', 'fn g', 'impl Holder',
            # blocks reached only through an expression of a function body (closure, match arm, let initialiser, if, loop, unsafe, bare block, call argument)
            'fn-let h', 'fn-closure k', 'fn-match m', 'fn-if q', 'fn-loop l', 'fn-unsafe u', 'fn-block b', 'fn-arg r']
DECOYS = ['#[typeshare]\npub union AnnotatedUnion { a: u32, b: f32 }\n',
          '#[typeshare]\nfn annotated_fn() {}\n',
          '#[typeshare]\npub static ANNOTATED_STATIC: u32 = 1;\n',
          'pub union PlainUnion { a: u32, b: f32 }\n',
          '#[typeshare]\npub trait AnnotatedTrait { fn f(&self); }\n']


_OS = ('#[typeshare]\n#[cfg(target_os = "ios")]\npub struct OnlyIos { pub a: u8 }\n'
       '#[typeshare]\npub struct Both { pub a: u8, #[cfg(not(target_os = "android"))] pub b: u8, #[cfg(target_os = "android")] pub c: u8 }\n'
       '#[typeshare]\npub enum En { A, #[cfg(any(target_os = "ios", target_os = "macos"))] B, C }\n'
       'pub mod m { #[cfg(target_os = "android")] #[typeshare] pub type OnlyAndroid = u8; }\n')
# witnesses of the finding classes and hand-written corner cases (source, --target-os); always run first
FIXED = [
    ('#[typeshare]\n#[serde(tag = "t", content = "c")]\npub enum E {\n    #[serde(rename = "fooBar")]\n    A(u8),\n    #[serde(rename = "foo_bar")]\n    B(u8),\n}\n', []),
    ('#[typeshare]\npub const X: u32 = 5;\n#[typeshare]\npub struct S { pub a: u8 }\n', []),
    (_OS, []), (_OS, ['android']), (_OS, ['ios']), (_OS, ['ios', 'android']), (_OS, ['linux']),
    ('pub mod a { pub mod b { pub mod c { pub mod d { pub mod e { fn f() { #[typeshare]\npub struct Deep { pub x: u8 } } } } } } }\n'
     'struct Foo;\nimpl Foo { fn m() { #[typeshare] pub type InImpl = u8; } }\ntrait Tr { fn d() { #[typeshare] pub enum InTrait { A } } }\n'
     '#[typeshare]\nunion U { a: u8 }\n#[typeshare]\nfn g() { #[typeshare] pub struct InAnnotatedFn { pub y: u8 } }\n', []),
    ('#[typeshare]\npub struct P {\n    #[doc = "x"] #[serde(rename = "q", skip)] pub a: u8,\n    #[serde(default)] #[typeshare(skip)] #[serde(rename = "z")] pub b: u8,\n'
     '    #[serde(skip_serializing)] pub c: u8,\n    #[serde(skip_serializing_if = "Option::is_none")] pub d: Option<u8>,\n    #[serde(default, skip)] pub e: u8,\n    pub f: u8,\n}\n', []),
    ('#[typeshare]\n#[serde(tag = "t", content = "c")]\npub enum AllSkipped { #[serde(skip)] A(u8), #[typeshare(skip)] B { x: u8 } }\n#[typeshare]\npub struct Kept { pub a: u8 }\n', []),
    ('#[typeshare]\npub struct Bad { pub a: u64 }\n#[typeshare]\npub struct Good { pub a: u8, #[serde(skip)] pub b: u64 }\n', []),
]


def plant_error(rng, prog):
    """make one annotated item fail to parse (unsupported type in a member that may itself be skipped)"""
    cands = [it for it in prog.items if it.annotated and it.kind in ('struct', 'alias', 'newtype') and (it.kind != 'struct' or it.fields)]
    if not cands:
        return
    it = rng.choice(cands)
    if it.kind == 'struct':
        rng.choice(it.fields).ty = ('raw', rng.choice(['u64', 'i64', 'usize', 'Vec<u64>', '(u8, u8)']))
    else:
        it.ty = ('raw', rng.choice(['u64', 'isize', 'Option<i64>']))


def profile():
    return progs.Profile(n_items=(1, 6), p_unannotated=0.3, p_nested=0.0, p_skip=0.3, p_rename=0.2, p_rename_all=0.25, p_raw=0.08,
                         p_doc=0.15, p_generic=0.1, allow_const=True, allow_unit_type=False, dash_in_rename=0.3,
                         kinds=['struct', 'struct', 'struct', 'unit_enum', 'alg_enum', 'alg_enum', 'alias', 'newtype', 'unit_struct'])


def nest(rng, prog):
    for it in prog.items:
        depth = rng.choice([0, 0, 1, 1, 2, 3, 4])
        it.nest = [rng.choice(WRAPPERS) for _ in range(depth)]
        if it.annotated and it.kind != 'const' and rng.random() < 0.12:     # the annotation with arguments: #[typeshare(...)]
            it.typeshare_args = rng.choice(['swift = "Equatable"', 'redacted', 'swift = "Hashable, Equatable"', 'kotlin = "JvmInline"'])
    if rng.random() < 0.3:
        prog.prelude = ''.join(rng.sample(DECOYS, rng.randint(1, 3)))
    if rng.random() < 0.15:
        # a second, different annotated item with the SAME Rust name in another module (v1::Settings / v2::Settings): both must be generated
        cands = [it for it in prog.items if it.annotated and it.kind in ('struct', 'unit_enum', 'alg_enum', 'alias', 'newtype', 'unit_struct') and not it.generics]
        if cands:
            src = rng.choice(cands)
            tw = progs.ProgGen(rng, profile()).item(src.ident, [])
            tw.annotated = True
            tw.nest = [rng.choice(['mod v2', 'mod legacy', 'fn scope2'])]
            prog.items.append(tw)


def members_of(it):
    """the skippable member lists of an item: list of (description, list of objects with .skip)"""
    out = []
    if it.kind == 'struct':
        out.append(('fields', it.fields))
    if it.kind in ('unit_enum', 'alg_enum'):
        out.append(('variants', it.variants))
        for v in it.variants:
            if v.kind == 'struct':
                out.append((f'fields of {v.ident}', v.fields))
    return out


def subset_family(rng, gen):
    """one small program and ALL skip subsets of one of its member lists (either spelling, chosen per member)"""
    for _ in range(50):
        prog = gen.program()
        nest(rng, prog)
        cands = [(it, d, ms) for it in prog.items if it.annotated for d, ms in members_of(it) if 1 <= len(ms) <= 4]
        if cands:
            break
    else:
        return []
    it, d, ms = rng.choice(cands)
    out = []
    for mask in itertools.product([False, True], repeat=len(ms)):
        for m, sk in zip(ms, mask):
            m.skip = rng.choice(['serde', 'typeshare']) if sk else None
        p = copy.deepcopy(prog)
        p.seed = rng.getrandbits(32)        # attribute order / splitting differs per copy
        out.append(p)
    return out


def truth(prog):
    """the generator's ground truth: (kind, ident as typeshare names it, members) per annotated item, in source order"""
    out = []
    for it in prog.items:
        if not it.annotated:
            continue
        name = it.ident.upper() if it.kind == 'const' else it.ident
        if it.kind == 'struct':
            mem = [f.name for f in it.fields if f.skip is None]
        elif it.kind in ('unit_enum', 'alg_enum'):
            mem = [(v.ident, [f.name for f in v.fields if f.skip is None] if v.kind == 'struct' else None) for v in it.variants if v.skip is None]
        else:
            mem = None
        out.append((it.kind, name, mem))
    return out


# ---------------------------------------------------------------- observations
def front_obs(r):
    """impl `parse` answer -> ('ok', (structs, enums, aliases, consts, nerr), pd) | ('err'|'panic'|'abort', ..)"""
    if 'panic' in r:
        return ('panic', r['panic'], None)
    if 'abort' in r:
        return ('abort', r['abort'], None)
    if 'hang' in r:
        return ('hang', r['hang'], None)
    if 'err' in r:
        return ('err', r['err'], None)
    pd = r['ok']
    if pd is None:
        return ('ok', ([], [], [], [], 0), None)
    names = lambda k: [x['id']['original'] for x in pd[k]]
    return ('ok', (names('structs'), names('enums'), names('aliases'), names('consts'), len(pd['errors'])), pd)


def obs_sx(o):
    ss, es, als, cs, n = o
    return f'({Lst(ss, S)} {Lst(es, S)} {Lst(als, S)} {Lst(cs, S)} n{n})'


def model_front(m):
    """(dom expected model good_model good_impl) -> dict"""
    dom, exp, mo, gm, gi = m
    if mo[0] == 'ok':
        ss, es, als, cs, n = mo[1]
        obs = ('ok', ([unS(x) for x in ss], [unS(x) for x in es], [unS(x) for x in als], [unS(x) for x in cs], int(n[1:])))
    else:
        obs = (mo[0], mo[1] if isinstance(mo[1], str) else mo[1][0])
    return {'dom': dom == 'true', 'expected': [(k, unS(i)) for k, i in exp], 'obs': obs, 'good_model': gm, 'good_impl': gi}


def impl_members(pd):
    """ParsedData JSON -> {original name: members}: struct -> [field originals]; enum -> [(variant original, [fields]|None)]"""
    out = {}      # several items may share a name (v1::Settings, v2::Settings): one entry per item, in collection order
    for s in pd['structs']:
        out.setdefault(('struct', s['id']['original']), []).append([f['id']['original'] for f in s['fields']])
    for e in pd['enums']:
        out.setdefault(('enum', e['id']['original']), []).append(
            [(v['id']['original'], [f['id']['original'] for f in v['fields']] if v['k'] == 'struct' else None) for v in e['variants']])
    return out


def extract_defs(lang, text):
    o = extract.extract(lang, text)
    defs = []
    for d in o['definitions']:
        variants = []
        for v in d['variants']:
            form = v.get('payload') or 'unit'
            inl = [m['wire_key'] for m in v.get('members', [])] if form == 'struct' and lang == 'typescript' else None
            variants.append((v.get('wire_name'), form, inl))
        defs.append((d['kind'], d['name'], [m['wire_key'] for m in d['members']], variants))
    return defs, o['unparsed'], o['anomalies']


def model_defs(x):
    out = []
    for kind, name, ms, vs in x:
        out.append((kind, unS(name), [unS(m) for m in ms], [(unS(w), form, None if inl == 'none' else [unS(k) for k in inl]) for w, form, inl in vs]))
    return out


def defs_sx(defs):
    def var(v):
        w, form, inl = v
        return f'({S(w or "")} {form} {"none" if inl is None else Lst(inl, S)})'
    return Lst(defs, lambda d: f'(def {d[0]} {Lst([m or "" for m in d[2]], S)} {Lst(d[3], var)})')


def non_helper(defs):
    return [d for d in defs if d[0] != 'helper']


def items_sx(irj):
    return back.items_sx(irj)


# ---------------------------------------------------------------- the real binary
def run_binary(args):
    src, lang, ext, extra = args
    d = vf.tmpdir()
    (d / 'src').mkdir()
    (d / 'src' / 'lib.rs').write_text(src)
    out = d / f'out.{ext}'
    try:
        p = subprocess.run(['timeout', '20', str(vf.TYPESHARE), '--lang', lang, '-o', str(out)] + extra + [str(d / 'src')],
                           capture_output=True, text=True, timeout=30, cwd=d)
        rc, err = p.returncode, p.stderr
    except subprocess.TimeoutExpired:
        rc, err = 124, ''
    text = out.read_text() if out.exists() else None
    return {'rc': rc, 'stderr_names_file': 'lib.rs' in err, 'panicked': 'panicked at' in err, 'output': text, 'stderr_tail': err[-300:]}



# ---------------------------------------------------------------- several source files merged into one output unit
DEF_TS = __import__('re').compile(r'^export (?:interface|type|enum|const) ([A-Za-z_][A-Za-z0-9_]*)', __import__('re').M)


def run_unit(args):
    """files: {relative path: text} of ONE crate (a path containing /src/ is taken relative to the workspace instead: crates whose
    directory names normalise to `unit`); runs the real binary (TypeScript) in single-file and in folder mode"""
    files, = args
    d = vf.tmpdir()
    for rel, txt in files.items():
        q = d / 'ws' / rel if '/src/' in rel else d / 'ws' / 'unit' / 'src' / rel
        q.parent.mkdir(parents=True, exist_ok=True)
        q.write_text(txt)
    (d / 'multi').mkdir()
    out = {}
    for mode, dest, f in (('single', ['-o', str(d / 'single.ts')], d / 'single.ts'), ('multi', ['--output-folder', str(d / 'multi')], d / 'multi' / 'unit.ts')):
        try:
            p = subprocess.run(['timeout', '20', str(vf.TYPESHARE), '--lang', 'typescript'] + dest + [str(d / 'ws')], capture_output=True, text=True, timeout=30)
            rc, err = p.returncode, p.stderr
        except subprocess.TimeoutExpired:
            rc, err = 124, ''
        out[mode] = {'rc': rc, 'names': sorted(DEF_TS.findall(f.read_text())) if f.exists() else None, 'stderr_tail': err[-300:]}
    return out


def phase_units(chk, good_sources, rng, n):
    """The collector merges the per-file results of one output unit (`+=`): every annotated item of every file must arrive in the
    output, whatever the files contain and in whatever order they reach the collector - files holding ONLY constants, files whose
    only annotated item fails to parse (then the run must fail) next to ordinary ones (seeded C03_e: an accumulator that so far
    holds only constants or errors was taken for empty and replaced by the next file).  Expected names = the union of what each
    file yields when it is the only file (the single-file facet is judged by parts (a)-(c))."""
    if not good_sources:
        return
    units = []
    for k in range(n):
        files = {}
        nconst = rng.choice([1, 2, 2, 3])
        for j in range(nconst):
            files[f'consts{j}.rs'] = ''.join(f'#[typeshare]\npub const K{k}_{j}_{i}: u32 = {i};\n' for i in range(rng.randint(1, 2)))
        for j in range(rng.choice([0, 1, 1, 2])):
            files[f'types{j}.rs'] = rng.choice(good_sources)
        bad = rng.random() < 0.25
        if bad:
            files['broken.rs'] = '#[typeshare]\npub struct Broken { pub a: u64 }\n'
        if k % 4 == 3:
            # the same crate name reached through several directories (a vendored copy, a workspace member spelled with a dash)
            # with files at the SAME path below src: all of them belong to the unit (seeded C03_f: files de-duplicated by
            # (normalised crate name, path below src))
            files = {('vendor/unit/src/' if j % 2 else 'members/unit/src/') + rel if rel.startswith('consts') else rel: t for j, (rel, t) in enumerate(files.items())}
            files['vendor/unit/src/lib.rs'] = f'#[typeshare]\npub struct VendoredLib{k} {{ pub a: u8 }}\n'
            files['members/unit/src/lib.rs'] = f'#[typeshare]\npub struct MemberLib{k} {{ pub a: u8 }}\n'
        units.append((files, bad))
    singles = {}
    uniq = sorted({t for files, _ in units for t in files.values()})
    with concurrent.futures.ThreadPoolExecutor(max_workers=vf.NPROC) as ex:
        for t, o in zip(uniq, ex.map(run_unit, [({'only.rs': t},) for t in uniq])):
            singles[t] = o
        outs = list(ex.map(run_unit, [(files,) for files, _ in units]))
    for k, ((files, bad), o) in enumerate(zip(units, outs)):
        chk.evaluations += 1
        chk.count('merged_units')
        want = sorted(n_ for rel, t in files.items() if not rel.endswith('broken.rs') for n_ in (singles[t]['single']['names'] or []))
        for mode in ('single', 'multi'):
            r = o[mode]
            payload = {'part': 'units', 'mode': mode, 'files': files, 'expected_names': want, 'observed': r}
            if bad:
                if r['rc'] == 0:
                    chk.violation(f'unit-{k}-{mode}', payload, f'{mode}-file mode: broken.rs holds an annotated item that cannot be generated, yet the run exits 0: the item is silently omitted')
                    break
                continue
            if r['rc'] != 0 or r['names'] is None:
                chk.violation(f'unit-{k}-{mode}', payload, f'{mode}-file mode: the real binary fails (rc {r["rc"]}) on a unit of supported files')
                break
            if r['names'] != want:
                missing = [x for x in want if x not in r['names']]
                chk.violation(f'unit-{k}-{mode}', payload, f'{mode}-file mode: the merged unit defines {len(r["names"])} names where its files define {len(want)} one by one; missing: {missing[:6]}')
                break
        else:
            chk.nontrivial.add(('unit', json.dumps(files, sort_keys=True)))


# ---------------------------------------------------------------- the check
def run(chk):
    chk.rule = ('first the fixed witnesses / corner cases (both finding classes, --target-os lists over cfg-guarded items and members, depth-5 nesting, impl / trait '
                'method bodies, skip next to other serde arguments, all variants skipped, unparsable item next to a parsable one); then seeded programs of 1-6 '
                'items (struct, unit struct, newtype, unit enum, data-carrying enum, alias; a const in every 4th program), 30% un-annotated, each wrapped in '
                '0-4 nested mod / fn / impl bodies, annotated union / fn / static / trait decoys, #[typeshare(args)] on 12% of the items, serde(skip) / '
                'typeshare(skip) on 30% of the fields, variants and struct-variant fields, an unsupported type planted in 8% of the programs (possibly in a '
                'skipped member), plus families enumerating EVERY skip subset of one member list (<= 4 members), attribute order and splitting permuted; '
                'all six languages; the real binary on a sample with and without failing items. non-trivial = distinct (program, language | front) inside '
                'the theorem domain with at least one annotated item and at least one of: skipped member, nesting, un-annotated item')
    chk.notes.append('annotated union / fn / static / trait items are ignored by typeshare without a diagnostic: outside the item kinds of the property '
                     '(struct, enum, type alias, const); they are planted as decoys and must contribute nothing')
    chk.assumptions = ['syn is not modelled: the model receives the AST produced by harness/libdrive/src/ast.rs (syn) from the same source text',
                       'generated text is read back by lib/extract.py (validated by tools/extract_selftest.py); definitions are identified by their signature '
                       '(kind, member keys, variant wire names), not by their name (naming is C02/C09)',
                       'an annotated const makes Kotlin / Swift generation fail (write_const returns Err: exit 1, "constants are not supported for ..: cannot generate `NAME`" - the /repo fix of the '
                       'todo!() panics C07-kotlin.rs:183 / C07-swift.rs:268): reported as an error, not silently omitted; model and implementation must both answer err; a panic of a back end is C07\'s subject and only counted here']
    chk.prepare(need_cli=True)
    if not chk.harness_ok:
        return
    rng = chk.rng
    quick = chk.tier == 'quick'
    gen = progs.ProgGen(rng, profile())
    gen_noconst = progs.ProgGen(rng, progs.Profile(**dict(vars(profile()), allow_const=False)))
    programs, targets = [], []
    nrand = 3000 if quick else 24000
    for i in range(nrand):
        p = (gen if i % 4 == 0 else gen_noconst).program()
        nest(rng, p)
        if rng.random() < 0.08:
            plant_error(rng, p)
        programs.append(p)
    for _ in range(24 if quick else 400):
        programs += subset_family(rng, gen_noconst)
    srcs = [src for src, _ in FIXED] + [progs.source(p) for p in programs]
    targets = [t for _, t in FIXED] + [[] for _ in programs]
    programs = [None] * len(FIXED) + programs
    nrand += len(FIXED)
    chk.count('programs', len(programs))

    # ---------- (a) front end
    asts = vf.impl([{'cmd': 'ast', 'src': s} for s in srcs])
    ipar = vf.impl([{'cmd': 'parse', 'src': s, 'target_os': t} for s, t in zip(srcs, targets)])
    fobs = [front_obs(r) for r in ipar]
    usable = [k for k, a in enumerate(asts) if 'ok' in a]
    chk.count('syn_rejected', len(srcs) - len(usable))
    T = lambda k: Lst(targets[k], S)
    mfront = dict(zip(usable, vf.model([f'(c03_front {asts[k]["ok"]} {asts[k]["tstrs"]} {T(k)} {obs_sx(fobs[k][1]) if fobs[k][0] == "ok" else "na"})' for k in usable])))
    mmem = dict(zip(usable, vf.model([f'(c03_members {asts[k]["ok"]} {T(k)})' for k in usable])))
    corr = []
    for k in usable:
        prog, src = programs[k], srcs[k]
        chk.evaluations += 1
        m = model_front(mfront[k])
        tr = truth(prog) if prog is not None else None
        payload = {'part': 'front', 'source': src, 'target_os': targets[k], 'impl': fobs[k][:2], 'model': m['obs'], 'expected_items': m['expected'],
                   'generator_truth': [(a, b) for a, b, _ in tr] if tr is not None else None}
        # the spec's expected leaves against the generator's ground truth (validates AST conversion + spec)
        if tr is not None and [n for _, n in m['expected']] != [n for _, n, _ in tr]:
            chk.violation(f'front-truth-{k}', payload, 'Spec.C03Spec.expected_leaves on the syn AST differs from the generator\'s list of annotated items', no_input=True)
            continue
        if not m['dom']:
            chk.count('front_outside_domain')
        if tr is None:
            tr = []
            interesting = True
        else:
            interesting = bool(tr) and (any(it.nest for it in prog.items) or any(not it.annotated for it in prog.items) or
                                        any(x.skip for it in prog.items for _, ms in members_of(it) for x in ms))
        if fobs[k][0] != 'ok':
            chk.count('front_impl_' + fobs[k][0])
            if m['obs'][0] != fobs[k][0]:
                corr.append(payload)
            continue
        equal = m['obs'] == fobs[k][:2]
        good = m['good_impl'] == 'true'
        if m['dom'] and interesting:
            chk.nontrivial.add(('front', src))
        if fobs[k][1][4]:
            chk.count('front_programs_with_errors')
        if not good:
            if m['dom']:
                chk.violation(f'front-{k}', payload, 'parser::parse does not account for exactly the annotated items: an item was dropped, duplicated, invented or reordered')
            else:
                chk.count('front_bad_outside_domain')
                corr.append(payload)
            continue
        if not equal:
            corr.append(payload)
            continue
        # members of every collected item: impl vs spec expectation vs generator truth
        pd = fobs[k][2]
        if pd is None:
            continue
        im = impl_members(pd)
        tmap = {}
        for kd, n, mem in tr:
            if mem is not None:
                tmap.setdefault((('struct' if kd == 'struct' else 'enum'), n), []).append(mem)
        seen_n = {}
        dup_names = {key for key, v in im.items() if len(v) > 1} | {key for key, v in tmap.items() if len(v) > 1}
        # ... and every name the source program gives to two annotated items, even when one of them is a unit struct, becomes an
        # alias, or fails to parse (then only one is collected and the positional comparison below would pair the wrong twins)
        idents = [n for _, n, _ in tr]
        for n in set(idents):
            if idents.count(n) > 1:
                dup_names |= {('struct', n), ('enum', n)}
        seen_model = {}
        for kind, ident, dom, members in mmem[k]:
            seen_model[unS(ident)] = seen_model.get(unS(ident), 0) + 1
        for n, c in seen_model.items():
            if c > 1:
                dup_names |= {('struct', n), ('enum', n)}
        for kind, ident, dom, members in mmem[k]:
            name = unS(ident)
            if members == 'none':
                continue
            key = ('struct' if members[0] == 'fields' else 'enum', name)
            if key not in im:
                continue            # the item failed to parse (counted as an error above) or became an alias
            if key in dup_names:
                # same-named items: every expected member list must occur among the collected items of that name (as a multiset, below)
                continue
            if members[0] == 'fields':
                exp = [unS(x) for x in members[1]]
            else:
                exp = [(unS(v[0]), None if v[2] == 'none' else [unS(x) for x in v[2]]) for v in members[1]]
            chk.evaluations += 1
            mp = dict(payload, part='members', item=name, impl_members=im[key][0], expected_members=exp, generator_members=(tmap.get(key) or [None])[0])
            if key in tmap and tmap[key][0] != exp:
                chk.violation(f'members-truth-{k}-{name}', mp, 'Spec expected member names differ from the generator\'s non-skipped members', no_input=True)
            elif im[key][0] != exp:
                if dom == 'true':
                    chk.violation(f'members-{k}-{name}', mp, f'{key[0]} {name}: the parsed members are not exactly the non-skipped source members in source order')
                else:
                    corr.append(mp)
            else:
                chk.count('members_checked')
        for key in sorted(dup_names):
            exps = []
            for kind, ident, dom, members in mmem[k]:
                if members != 'none' and ('struct' if members[0] == 'fields' else 'enum', unS(ident)) == key:
                    exps.append([unS(x) for x in members[1]] if members[0] == 'fields' else
                                [(unS(v[0]), None if v[2] == 'none' else [unS(x) for x in v[2]]) for v in members[1]])
            got = im.get(key, [])
            chk.evaluations += 1
            chk.count('same_named_items_checked')
            # a unit struct of that name is collected as a struct without members (the spec lists no members for it), and a twin that
            # fails to parse is not collected at all (it is counted as an error above): the collected lists must be a SUB-multiset of
            # the lists the source items of that name expect (thorough-tier false alarm: struct Node { .. u64 .. } next to struct Node;)
            if key[0] == 'struct':
                exps = exps + [[] for kd, n, _ in tr if kd == 'unit_struct' and n == key[1]]
            import collections
            want_c, got_c = collections.Counter(map(json.dumps, exps)), collections.Counter(map(json.dumps, got))
            if got_c - want_c:
                chk.violation(f'members-dup-{k}-{key[1]}', dict(payload, part='members', item=key[1], impl_members=got, expected_members=exps),
                              f'{key[0]} {key[1]} occurs {len(exps)} times: the collected member lists are not those of the source items')
        if k % 97 == 0:
            chk.sample({'source_head': src[:400], 'front_obs': fobs[k][1], 'expected_items': m['expected']})

    # ---------- (b) back ends
    nb = 900 if quick else 6000
    sel = [k for k in usable if k < nrand and fobs[k][0] == 'ok'][:nb] + [k for k in usable if k >= nrand and fobs[k][0] == 'ok'][:(200 if quick else 3000)]
    cases = [(k, L) for k in sel for L in LANGS]
    ires = vf.impl([{'cmd': 'generate', 'lang': L[0], 'cfg': L[3], 'src': srcs[k], 'target_os': targets[k]} for k, L in cases])
    mres = vf.model([f'(c03_model {L[0]} {back.cfg_sx(L[3])} {asts[k]["ok"]} {asts[k]["tstrs"]} {T(k)})' for k, L in cases])
    judge_req, judge_idx, iobs = [], [], {}
    for n, ((k, L), r) in enumerate(zip(cases, ires)):
        if 'ok' in r:
            defs, unparsed, anomalies = extract_defs(L[0], r['ok'])
            iobs[n] = (defs, unparsed, anomalies)
            judge_req.append(f'(c03_back {L[0]} {asts[k]["ok"]} {T(k)} {defs_sx(defs)})')
            judge_req.append(f'(c03_back_ir {L[0]} {items_sx(r["ir"])} {defs_sx(defs)})')
            judge_idx.append(n)
    jres = vf.model(judge_req)
    judged = {n: (jres[2 * i], jres[2 * i + 1]) for i, n in enumerate(judge_idx)}
    for n, ((k, L), r, m) in enumerate(zip(cases, ires, mres)):
        chk.evaluations += 1
        lang = L[0]
        src = srcs[k]
        ic = back.impl_canon(r)
        payload = {'part': 'back', 'lang': lang, 'cfg': L[3], 'source': src, 'target_os': targets[k]}
        if ic[0] != 'ok':
            chk.count(f'back_{lang}_{ic[0]}')
            mk = m[0]
            if ic[0] == 'panic':
                chk.count('back_panic_reported_not_silent (C07)')
            if ic[0] == 'err':
                chk.count('back_generation_error_reported_not_silent')      # e.g. a const for Kotlin / Swift: Err(Unsupported) naming the constant
            if mk != ic[0]:
                corr.append(dict(payload, impl=ic[:1], model=mk))
            continue
        defs, unparsed, anomalies = iobs[n]
        (dom, known, good, expected), (idom, iknown, igood, iexpected) = judged[n]
        known, iknown = sx_opt(known), sx_opt(iknown)
        mdefs = model_defs(m[1]) if m[0] == 'ok' else None
        equal = mdefs is not None and non_helper(mdefs) == non_helper(defs)
        if unparsed and not equal and chk.unreadable(lang, dict(payload, text=ic[1][:3000] if isinstance(ic[1], str) else None), unparsed):
            continue
        payload.update(impl_defs=non_helper(defs), model_defs=non_helper(mdefs) if mdefs is not None else m[0], expected_sigs=dump_sx(expected), in_domain=dom == 'true',
                       unparsed=unparsed[:5])
        if dom == 'true':
            chk.nontrivial.add((lang, src))
        else:
            chk.count('back_outside_src_domain')
        # verdict 1: against the expectation computed from the SOURCE (inside its domain); verdict 2: against the IR
        bad_src = dom == 'true' and good != 'true'
        bad_ir = idom == 'true' and igood != 'true'
        if not bad_src and not bad_ir:
            if not equal:
                corr.append(payload)
            else:
                chk.count('back_ok')
            continue
        kn = known if bad_src else iknown
        if bad_ir and iknown is None or bad_src and known is None:
            chk.violation(f'back-{lang}-{k}', payload, f'{lang}: the generated definitions are not exactly one per annotated item with exactly its non-skipped members '
                          f'(source verdict {good}, IR verdict {igood})')
        elif not equal:
            chk.violation(f'back-{lang}-{k}', payload, f'{lang}: fails differently from what finding {kn} predicts (model and implementation disagree)')
        elif not chk.known(kn, payload):
            chk.violation(f'back-{lang}-{k}', payload, f'{lang}: finding class {kn} is not an open finding')

    # ---------- (c) the real binary on a sample
    if chk.cli_ok:
        with_err = [k for k in usable if not targets[k] and fobs[k][0] == 'ok' and fobs[k][1][4] > 0]
        without = [k for k in usable if not targets[k] and fobs[k][0] == 'ok' and fobs[k][1][4] == 0 and sum(len(x) for x in fobs[k][1][:4]) > 0]
        ncli = 48 if quick else 600

        def has_twins(k):          # several collected items of one kind share a name (v1::Settings / v2::Settings)
            names = [tuple(x) for part in fobs[k][1][:4] for x in part] if isinstance(fobs[k][1][0], list) else []
            flat = [n if isinstance(n, str) else json.dumps(n) for n in names]
            return len(flat) != len(set(flat))
        twins = [k for k in without if has_twins(k)]
        chk.count('cli_same_named_programs', len(twins[:ncli // 2]))
        pick = with_err[:ncli] + twins[:ncli // 2] + [k for k in without if k not in set(twins[:ncli // 2])][:ncli]
        jobs = [(srcs[k], LANGS[i % 6][0], LANGS[i % 6][1], LANGS[i % 6][2]) for i, k in enumerate(pick)]
        with concurrent.futures.ThreadPoolExecutor(max_workers=vf.NPROC) as ex:
            outs = list(ex.map(run_binary, jobs))
        jreq, jidx = [], []
        for i, (k, job, o) in enumerate(zip(pick, jobs, outs)):
            if o['output'] is not None and o['rc'] == 0:
                defs, unread, _ = extract_defs(job[1], o['output'])
                if unread:
                    chk.unreadable(job[1], {'part': 'cli', 'lang': job[1], 'source': srcs[k], 'text': o['output'][:3000]}, unread)
                    o['unreadable'] = True
                jreq.append(f'(c03_back {job[1]} {asts[k]["ok"]} () {defs_sx(defs)})')
                jidx.append(i)
        jr = dict(zip(jidx, vf.model(jreq)))
        for i, (k, job, o) in enumerate(zip(pick, jobs, outs)):
            chk.evaluations += 1
            chk.count('cli_runs')
            nerr = fobs[k][1][4]
            payload = {'part': 'cli', 'lang': job[1], 'source': srcs[k], 'rc': o['rc'], 'stderr_tail': o['stderr_tail'], 'parse_errors': nerr}
            if o['rc'] in (124, 101, 134) or o['panicked']:
                chk.count('cli_crash_or_hang (C07: reported, not silent)')
                if o['output'] is not None:
                    chk.violation(f'cli-{i}', payload, 'the tool crashed and still left an output file')
                continue
            if nerr:
                if o['rc'] == 0:
                    chk.violation(f'cli-{i}', payload, 'an annotated item failed to parse but the CLI exits 0: the item is silently omitted')
                elif o['output'] is not None:
                    chk.violation(f'cli-{i}', payload, 'the run failed but an output file was written')
                elif not o['stderr_names_file']:
                    chk.violation(f'cli-{i}', payload, 'the diagnostic does not name the offending file')
                else:
                    chk.count('cli_error_reported')
            else:
                if o['rc'] != 0:
                    mk = [mm for (kk, LL), mm in zip(cases, mres) if kk == k and LL[0] == job[1]]
                    if mk and mk[0][0] in ('err', 'panic'):
                        chk.count('cli_generation_error_reported')
                    else:
                        corr.append(payload)
                    continue
                dom, known, good, expected = jr[i]
                known = sx_opt(known)
                if o.get('unreadable') and good != 'true':
                    continue
                if dom == 'true' and good != 'true':
                    if known is None or not chk.known(known, payload):
                        chk.violation(f'cli-{i}', payload, 'the file written by the real binary does not define exactly the annotated items')
                else:
                    chk.count('cli_output_ok')
    # ---------- (d) several files merged into one output unit, through the real binary
    if chk.cli_ok:
        goods = [srcs[k] for k in without if k not in set(twins)][:80]
        phase_units(chk, goods, chk.rng, 40 if quick else 500)
    chk.count('correspondence_mismatches', len(corr))
    if corr and not [v for v in chk.violations if not v[2]]:
        chk.violation('correspondence', {'correspondence': 'Model.Parse.parse_file / <L>_file_decls (c03_front, c03_model) vs parser::parse / generate_types', 'cases': corr[:6]},
                      'model and implementation disagree on the observation of C03, yet the implementation passes the verdict on every generated input', no_input=True)


def replay(chk, path):
    chk.prepare(need_cli=False)
    d = json.load(open(path))
    if 'source' not in d:
        print(json.dumps(d, indent=1)[:3000])
        return 0
    src, t = d['source'], d.get('target_os') or []
    a = vf.impl([{'cmd': 'ast', 'src': src}])[0]
    r = vf.impl([{'cmd': 'parse', 'src': src, 'target_os': t}])[0]
    fo = front_obs(r)
    print('impl front :', fo[:2])
    if 'ok' in a:
        m = vf.model([f'(c03_front {a["ok"]} {a["tstrs"]} {Lst(t, S)} {obs_sx(fo[1]) if fo[0] == "ok" else "na"})'])[0]
        print('model front:', model_front(m))
        if fo[2] is not None:
            print('impl members:', impl_members(fo[2]))
            print('spec members:', dump_sx(vf.model([f'(c03_members {a["ok"]} {Lst(t, S)})'])[0]))
    for L in LANGS:
        if d.get('lang') not in (None, L[0]):
            continue
        g = vf.impl([{'cmd': 'generate', 'lang': L[0], 'cfg': L[3], 'src': src, 'target_os': t}])[0]
        if 'ok' in g and 'ok' in a:
            defs, unparsed, _ = extract_defs(L[0], g['ok'])
            j = vf.model([f'(c03_back {L[0]} {a["ok"]} {Lst(t, S)} {defs_sx(defs)})'])[0]
            mm = vf.model([f'(c03_model {L[0]} {back.cfg_sx(L[3])} {a["ok"]} {a["tstrs"]} {Lst(t, S)})'])[0]
            print(L[0], 'impl defs :', non_helper(defs))
            print(L[0], 'model defs:', non_helper(model_defs(mm[1])) if mm[0] == 'ok' else mm)
            print(L[0], 'verdict (in domain, known class, good):', j[0], j[1], j[2])
        else:
            print(L[0], 'impl:', {x: g[x] for x in g if x != 'ir'})
    return 0
