"""C05 - type expressions translate structurally, losslessly and honour type mappings.
Proof: Props/C05.v (parse_ty = structural denotation; the six format_type models = render of the
language-independent skeleton, by induction on the type tree; 14 x 6 primitive table by computation).
Correspondence, every run, real code through harness/libdrive (c05_format_type = Language::format_type,
c05_parse_type = RustType::try_from(&syn::Type), generate_ir / generate = the whole back end):
  prims   the 19 x 6 primitive table, exhaustively (Scala's unsigned aliases read from the real header)
  trees   random RustType trees to depth 5 over the property's leaves x random prefix / type_mappings /
          generics tables -> the real text, parsed back into a tree (lib/c05types.py), compared with the
          extracted model's text and tree and judged by the extracted good_C05 against c05_erase
  front   the same trees spelled as Rust source with references, smart pointers, qualification, lifetimes
          -> the real TryFrom<&syn::Type>, compared with the extracted c05_denote of the same syn AST
  sites   the same trees placed in struct fields, alias targets, tuple-variant payloads, struct-variant
          fields and const types: IR items through generate_ir, Rust source through generate; the type text
          of every use site recovered from the REAL output by lib/extract.py, compared with the model's
          declarations (decls_ir / decls_src) and judged by good_C05 with the generics of the enclosing item."""
import json
import vf, ir, back, c05types as T
from vf import S, Lst

LANGS = ['typescript', 'kotlin', 'swift', 'scala', 'go', 'python']
BASE = {'typescript': {}, 'kotlin': {'package': 'com.p'}, 'swift': {}, 'scala': {'package': 'com.p'}, 'go': {'package': 'p'}, 'python': {}}


def impl_fmt(cases):
    return vf.impl([{'cmd': 'c05_format_type', 'lang': l, 'cfg': c, 'generics': g, 'ty': t} for l, c, g, t in cases])


def model_fmt(cases):
    return vf.model([f'(c05_fmt {l} {back.cfg_sx(c)} {Lst(g, S)} {ir.sx_ty(t)})' for l, c, g, t in cases])


def judge(cases):
    """cases: (lang, cfg, generics, type, observed tree or None) -> (dom, known, good, erase tree)"""
    res = vf.model([f'(c05_judge {l} {back.cfg_sx(c)} {Lst(g, S)} {ir.sx_ty(t)} {"none" if o is None else "(some " + T.tree_sx(o) + ")"})'
                    for l, c, g, t, o in cases])
    return [(r[0] == 'true', vf.sx_opt(r[1]), r[2] == 'true', T.sx_tree(r[3])) for r in res]


def canon_impl(r):
    if 'ok' in r:
        return ('ok', r['ok'])
    if 'panic' in r:
        return ('panic', r['panic'])
    if 'abort' in r:
        return ('abort', r['abort'])
    return ('err', r.get('err'))


def canon_model(m):
    if m[0] == 'ok':
        return ('ok', vf.unS(m[1][0]))
    return (m[0], None)


def same(a, b):
    return a[0] == b[0] and (a[0] != 'ok' or a[1] == b[1])


def atoms_of(cfg):
    return list((cfg.get('type_mappings') or {}).values())


def observe(lang, cfg, text):
    """real text -> (tree | None, error message | None)"""
    try:
        return T.parse(lang, text, atoms_of(cfg)), None
    except ValueError as e:
        return None, str(e)


class Verdicts:
    """the verdict table of DESIGN.md section 7, shared by all phases"""

    def __init__(self, chk):
        self.chk = chk
        self.corr = []

    def case(self, name, payload, good, equal, known, nontrivial_key=None, what=None):
        chk = self.chk
        chk.evaluations += 1
        if good and equal:
            if known is None and nontrivial_key is not None:
                chk.nontrivial.add(nontrivial_key)
            if known is not None:
                chk.count('known_class_but_good:' + known)
            return
        if not good and known is None:
            chk.violation(name, payload, what or 'the observed target type differs from the structural translation (c05_erase) on an input outside every recorded class')
        elif not good and not equal:
            chk.violation(name, payload, f'fails differently from what finding {known} predicts (model and implementation disagree)')
        elif not good:
            if not chk.known(known, payload):
                chk.violation(name, payload, f'class {known} is not an open finding')
            chk.count('known:' + known)
        else:
            self.corr.append(payload)

    def finish(self, what):
        chk = self.chk
        chk.count('correspondence_mismatches', len(self.corr))
        if self.corr and not [v for v in chk.violations if not v[2]]:
            chk.violation('correspondence', {'correspondence': what, 'cases': self.corr[:6]},
                          'model and implementation disagree, yet every observed type satisfies the specification', no_input=True)


# ---------------------------------------------------------------------------------------------- prims
def scala_aliases():
    """the unsigned aliases as the REAL Scala header defines them"""
    import re
    fields = [{'id': ir.mk_id(f'f{k}'), 'ty': ir.special(p), 'comments': [], 'has_default': False, 'decorators': []}
              for k, p in enumerate(['U8', 'U16', 'U32', 'U53'])]
    items = {'structs': [{'kind': 'struct', 'id': ir.mk_id('S'), 'generics': [], 'fields': fields, 'comments': [], 'decorators': [], 'is_redacted': False}],
             'enums': [], 'aliases': [], 'consts': []}
    r = vf.impl([{'cmd': 'generate_ir', 'lang': 'scala', 'cfg': BASE['scala'], 'items': items, 'reconcile': False}])[0]
    return dict(re.findall(r'^\s*type (\w+) = (\w+)\s*$', r.get('ok', ''), re.M)), r.get('ok', '')


def phase_prims(chk, V):
    cases = [(l, BASE[l], [], ir.special(p)) for l in LANGS for p in T.ALL_PRIMS]
    ires, mres = impl_fmt(cases), model_fmt(cases)
    aliases, header = scala_aliases()
    chk.notes.append(f'scala aliases read from the real output: {aliases}')
    names = []
    for (l, c, g, t), i in zip(cases, ires):
        n = i.get('ok', '')
        names.append(aliases.get(n, n) if l == 'scala' else n)
    jres = vf.model([f'(c05_prim {l} {t["name"]} {S(n)})' for (l, c, g, t), n in zip(cases, names)])
    for (l, c, g, t), i, m, n, j in zip(cases, ires, mres, names, jres):
        leaf_ok, known, good, table = j[0] == 'true', vf.sx_opt(j[1]), j[2] == 'true', vf.unS(j[3])
        ci, cm = canon_impl(i), canon_model(m)
        payload = {'phase': 'prims', 'lang': l, 'prim': t['name'], 'impl': ci, 'model': cm, 'resolved_name': n, 'spec_table': table}
        chk.count('prim_cells')
        if not leaf_ok:
            chk.count('prims_outside_quantifier')
            if not same(ci, cm):
                V.corr.append(payload)
            continue
        V.case(f'prim-{l}-{t["name"]}', payload, good and ci[0] == 'ok', same(ci, cm), known, ('prim', l, t['name']),
               what=f'{T.PRIM_RUST[t["name"]]} is translated to {n!r}, which is not a {l} type of the same JSON category that holds every value of the Rust type')


# ---------------------------------------------------------------------------------------------- trees
def phase_trees(chk, V, n):
    rng = chk.rng
    cases = []
    for k in range(n):
        for l in LANGS:
            g = rng.sample(T.PARAMS, rng.choice([0, 0, 1, 2]))
            t = T.rand_type(rng, rng.choice([1, 2, 3, 3, 4, 4]), g)
            cases.append((l, T.rand_cfg(rng, l, [t], g), g, t))
    ires, mres = impl_fmt(cases), model_fmt(cases)
    obs, errs = [], []
    for (l, c, g, t), i in zip(cases, ires):
        o, e = observe(l, c, i['ok']) if 'ok' in i else (None, None)
        obs.append(o)
        errs.append(e)
    jres = judge([(l, c, g, t, o) for (l, c, g, t), o in zip(cases, obs)])
    if chk.tier == 'thorough':
        step = max(1, len(cases) // 600)
        crosscheck(chk, [(l, c, g, t, j[3]) for (l, c, g, t), j in list(zip(cases, jres))[::step]])
    for k, ((l, c, g, t), i, m, o, e, (dom, known, good, erase)) in enumerate(zip(cases, ires, mres, obs, errs, jres)):
        ci, cm = canon_impl(i), canon_model(m)
        payload = {'phase': 'trees', 'lang': l, 'cfg': c, 'generics': g, 'type': t, 'rust': T.rust_name(t), 'impl': ci, 'model': cm,
                   'observed': T.show_tree(o) if o else e, 'expected': T.show_tree(erase), 'known': known}
        chk.count(f'trees_depth_{T.depth(t)}')
        if c.get('type_mappings'):
            chk.count('trees_with_mappings')
        if not dom:
            chk.count('trees_outside_dom')
            continue
        if e is not None:
            chk.violation(f'trees-{k}', payload, 'the real type text is not a type expression of the target language template: ' + e)
            continue
        # extractor self-check: the model's own text parses to the model's own tree
        if cm[0] == 'ok':
            mo, me = observe(l, c, cm[1])
            if mo != T.sx_tree(m[1][1]):
                chk.violation(f'selfcheck-{k}', dict(payload, parsed_model_text=T.show_tree(mo) if mo else me, model_tree=T.show_tree(T.sx_tree(m[1][1]))),
                              'extractor self-check: the type parser and the model disagree on the model\'s own text', no_input=True)
        if k % 997 == 0:
            chk.sample({'lang': l, 'rust': T.rust_name(t), 'generics': g, 'cfg': c, 'real_text': ci[1], 'tree': T.show_tree(o) if o else None})
        V.case(f'trees-{k}', payload, good, same(ci, cm), known, (l, T.rust_name(t), json.dumps(c, sort_keys=True), tuple(g)) if T.depth(t) >= 2 else None)



# ---------------------------------------------------------------------------------------------- seq
def leaf_ids(t):
    return [x['id'] for x in T.subtrees(t) if x['k'] == 'simple']


def relative_of(rng, t):
    """a type that differs from t only in details a careless memo key may drop: array lengths, one primitive leaf, the order of the
    arguments of a generic (seeded C05_d: TypeScript tuples cached under the Display text of [T; N], which has no length)"""
    import copy
    u = copy.deepcopy(t)
    nodes = list(T.subtrees(u))
    arrays = [x for x in nodes if x['k'] == 'special' and x['name'] == 'Array']
    prims = [x for x in nodes if T.is_prim(x)]
    gens = [x for x in nodes if x['k'] == 'generic' and len(x['params']) >= 2]
    c = rng.random()
    if arrays and c < 0.6:
        for a in arrays:
            a['len'] = rng.choice([k for k in (0, 1, 2, 3, 4, 5) if k != a.get('len')])
    elif gens and c < 0.8:
        g = rng.choice(gens)
        g['params'] = g['params'][1:] + g['params'][:1]
    elif prims:
        x = rng.choice(prims)
        x['name'] = rng.choice([q for q in T.LEAF_PRIMS if q != x['name']])
    return u


def phase_seq(chk, V, n):
    """format_type is a function of (configuration, generics, type): the SAME Language value is asked call after call - the same
    non-trivial type under generics lists that differ in whether one of its leaf names is a generic parameter of the enclosing item
    (a struct Item next to a struct Page<Item>), interleaved with unrelated types - and every answer is judged like a fresh call
    (seeded C05_c: a per-run memo keyed by the type alone)."""
    rng = chk.rng
    seqs = []
    for k in range(n):
        for l in LANGS:
            while True:
                t = T.rand_type(rng, rng.choice([1, 2, 2, 3]), [])
                ids = leaf_ids(t)
                if ids and t['k'] != 'simple':
                    break
            x = rng.choice(ids)
            other = T.rand_type(rng, rng.choice([1, 2]), ['T'])
            if rng.random() < 0.4:
                # relatives of one type, formatted one after the other: each must get ITS translation
                arr = T.rand_type(rng, rng.choice([0, 1]), [])
                t2 = rng.choice([t, ir.special('Array', arr, n=rng.choice([2, 3])), ir.special('Vec', ir.special('Array', arr, n=rng.choice([1, 4])))])
                r1 = relative_of(rng, t2)
                calls = [([], t2), ([], r1), ([], relative_of(rng, r1)), ([], t2)]
            else:
                calls = rng.choice([[([], t), ([x], t), ([], t)], [([x], t), ([], t), ([x], t)], [([], other), ([x], t), (['T'], other), ([], t)],
                                    [([x, 'T'], t), (['T'], t), (['T'], other)]])
            seqs.append((l, T.rand_cfg(rng, l, [t], []), calls))
    sres = vf.impl([{'cmd': 'c05_format_seq', 'lang': l, 'cfg': c, 'calls': [{'generics': g, 'ty': t} for g, t in calls]} for l, c, calls in seqs])
    cases, ires = [], []
    for (l, c, calls), r in zip(seqs, sres):
        answers = r.get('seq') if isinstance(r.get('seq'), list) and len(r['seq']) == len(calls) else [r] * len(calls)
        for pos, ((g, t), a) in enumerate(zip(calls, answers)):
            cases.append((l, c, g, t, pos, calls))
            ires.append(a)
    fresh = impl_fmt([(l, c, g, t) for l, c, g, t, _, _ in cases])
    mres = model_fmt([(l, c, g, t) for l, c, g, t, _, _ in cases])
    obs = [observe(l, c, i['ok']) if 'ok' in i else (None, None) for (l, c, g, t, _, _), i in zip(cases, ires)]
    jres = judge([(l, c, g, t, o[0]) for (l, c, g, t, _, _), o in zip(cases, obs)])
    for k, ((l, c, g, t, pos, calls), i, f, m, (o, e), (dom, known, good, erase)) in enumerate(zip(cases, ires, fresh, mres, obs, jres)):
        ci, cf, cm = canon_impl(i), canon_impl(f), canon_model(m)
        payload = {'phase': 'seq', 'lang': l, 'cfg': c, 'calls': [{'generics': gg, 'rust': T.rust_name(tt), 'type': tt} for gg, tt in calls], 'position': pos,
                   'generics': g, 'type': t, 'rust': T.rust_name(t), 'impl_in_sequence': ci, 'impl_fresh': cf, 'model': cm,
                   'observed': T.show_tree(o) if o else e, 'expected': T.show_tree(erase), 'known': known}
        chk.count('seq_calls')
        if not dom:
            chk.count('seq_outside_dom')
            continue
        if not same(ci, cf):
            chk.count('seq_history_dependent')
        if e is not None:
            chk.violation(f'seq-{k}', payload, 'the real type text (asked in a sequence of calls on one Language value) is not a type expression of the target language template: ' + e)
            continue
        V.case(f'seq-{k}', payload, good, same(ci, cm), known, (l, 'seq', T.rust_name(t), tuple(g), pos) if pos > 0 else None,
               what='the same Language value, asked for the same type under a different generics list after an earlier call, answers with a text that is '
                    'not the structural translation (the translation depends on the call history)')

# ---------------------------------------------------------------------------------------------- front
BAD_LEAVES = ['u64', 'i64', 'usize', 'isize', '(u8, String)', 'fn(u8) -> u8', '[u8; N]']


def phase_front(chk, V, n):
    rng = chk.rng
    cases = []
    for k in range(n):
        g = rng.sample(T.PARAMS, rng.choice([0, 1, 2]))
        t = T.rand_type(rng, rng.choice([0, 1, 2, 3, 4, 4]), g, generic_keys=0.1)
        src = T.rust_source(rng, t, noise=rng.choice([0.0, 0.2, 0.4]))
        bad = rng.random() < 0.05
        if bad:
            src = src.replace('String', rng.choice(BAD_LEAVES), 1) if 'String' in src else f'Vec<{rng.choice(BAD_LEAVES)}>'
        cases.append((src, t, bad))
    ires = vf.impl([{'cmd': 'c05_parse_type', 'src': s} for s, _, _ in cases])
    asts = vf.impl([{'cmd': 'ast_type', 'src': s} for s, _, _ in cases])
    mreq, midx = [], []
    for k, a in enumerate(asts):
        if 'ok' in a:
            mreq.append(f'(c05_denote {a["ok"]})')
            midx.append(k)
    mres = dict(zip(midx, vf.model(mreq)))
    for k, ((src, t, bad), i) in enumerate(zip(cases, ires)):
        chk.count('front_cases')
        if k not in mres:
            chk.count('front_not_a_type')
            continue
        src_ok, den, mo = mres[k][0] == 'true', vf.dump_sx(mres[k][1]), mres[k][2]
        isx = vf.dump_sx(vf.parse_sx(ir.sx_ty(i['ok']))) if 'ok' in i else None
        ci = ('ok', isx) if 'ok' in i else (('panic', None) if 'panic' in i else ('err', None))
        cm = ('ok', vf.dump_sx(mo[1])) if mo[0] == 'ok' else (mo[0], None)
        payload = {'phase': 'front', 'source_type': src, 'expected_ir': T.rust_name(t), 'impl': i, 'spec_denotation': den, 'model': vf.dump_sx(mo)}
        if not src_ok:
            chk.count('front_outside_dom')
            if not same(ci, cm):
                V.corr.append(payload)
            continue
        if not bad and den != vf.dump_sx(vf.parse_sx(ir.sx_ty(t))):
            chk.violation(f'front-gen-{k}', payload, 'generator ground truth and c05_denote disagree on the meaning of the source type', no_input=True)
        V.case(f'front-{k}', payload, ci == ('ok', den), same(ci, cm), None, ('front', src) if T.depth(t) >= 2 else None,
               what='RustType::try_from does not yield the structural denotation of the source type (containers, vanishing wrappers / references / qualification, argument order)')
        if k % 499 == 0:
            chk.sample({'source_type': src, 'ir': T.rust_name(t)})



# ---------------------------------------------------------------------------------------------- thorough: extraction cross-check
LANG_COQ = {'typescript': 'TypeScript', 'kotlin': 'Kotlin', 'swift': 'Swift', 'scala': 'Scala', 'go': 'Go', 'python': 'Python'}


def coq_str(s):
    return vf.coq_lit_str(s) if s else '(@nil N)'


def coq_rtype(t):
    k = t['k']
    if k == 'simple':
        return f'(RSimple {coq_str(t["id"])})'
    if k == 'generic':
        return f'(RGeneric {coq_str(t["id"])} [{"; ".join(coq_rtype(p) for p in t["params"])}])'
    n, ps = t['name'], t['params']
    if n == 'Vec':
        return f'(RVec {coq_rtype(ps[0])})'
    if n == 'Array':
        return f'(RArray {coq_rtype(ps[0])} {t["len"]}%N)'
    if n == 'Slice':
        return f'(RSlice {coq_rtype(ps[0])})'
    if n == 'HashMap':
        return f'(RHashMap {coq_rtype(ps[0])} {coq_rtype(ps[1])})'
    if n == 'Option':
        return f'(ROption {coq_rtype(ps[0])})'
    return f'(RPrim P{n})'


def coq_tree(x):
    k = x[0]
    if k == 'name':
        return f'(XName {coq_str(x[1])} [{"; ".join(coq_tree(a) for a in x[2])}])'
    if k == 'seq':
        return f'(XSeq {coq_tree(x[1])})'
    if k == 'fixed':
        return f'(XFixed [{"; ".join(coq_tree(a) for a in x[1])}])'
    if k == 'map':
        return f'(XMap {coq_tree(x[1])} {coq_tree(x[2])})'
    return f'(XOpt {coq_tree(x[1])})'


def coq_cfg(c):
    m = '; '.join(f'({coq_str(k)}, {coq_str(v)})' for k, v in sorted((c.get('type_mappings') or {}).items()))
    return f'{{| c05_m := [{m}]; c05_pre := {coq_str(c.get("prefix", ""))}; c05_nps := {"true" if c.get("no_pointer_slice") else "false"} |}}'


def crosscheck(chk, samples):
    """re-evaluate the spec inside Coq (vm_compute) on a sample of the cases the EXTRACTED spec judged"""
    eqs = [f'c05_norm (c05_erase {LANG_COQ[l]} {coq_cfg(c)} [{"; ".join(coq_str(x) for x in g)}] {coq_rtype(t)}) = {coq_tree(e)}' for l, c, g, t, e in samples]
    bad = vf.coq_check_equalities('From Coq Require Import List NArith.\nFrom TS Require Import Model.Str Model.Types Model.Lang.Decl Spec.C05Spec.\nImport ListNotations.', eqs, shard=100)
    chk.count('coq_crosscheck_equalities', len(eqs))
    for b in bad:
        chk.violation('extraction-crosscheck', {'failure': b}, 'the extracted c05_erase and its evaluation inside Coq disagree (extraction / driver defect)', no_input=True)


def run(chk):
    chk.rule = ('random RustType trees, depth 1-5, leaves = the 14 primitives of the quantifier, 11 user type names, generic parameters of a random '
                'generics list; containers Vec / [T;N] / &[T] / Option / HashMap (4% generic-parameter keys) / user generics with 1-3 arguments; '
                'configuration = random prefix (Kotlin, Swift), no_pointer_slice (Go), 0-3 type_mappings keyed by user types, generic parameters, '
                'primitives, container instances (Rust spelling and the tool\'s Display spelling) and unrelated keys; in the use-site phases 7 of 9 Go configurations carry an '
                'uppercase_acronyms list (id / ID, url / uuid / api / foo / go / Time / xy, yZw: user types, mapped names, a non-idempotent pair; no / it / con / ba / po: occurrences followed by a lower-case letter, which must stay); non-trivial = distinct '
                '(language, type of depth >= 2, configuration, generics) inside dom and outside every known class whose real text parsed to the expected tree')
    chk.assumptions = ['syn is not modelled: the front-end model receives the AST produced by harness/libdrive/src/ast.rs from the same text',
                       'what a target type name MEANS (JSON category, value range) is the reviewed table c05_target_info in Spec/C05Spec.v; no target-language compiler is installed',
                       'Swift Unicode.Scalar is taken to have no Codable conformance (standard library)',
                       'the natural Rust spelling (c05_rust_name) is taken as the key under which a user maps a container instance']
    chk.prepare(need_cli=True)
    if not chk.harness_ok:
        return
    quick = chk.tier == 'quick'
    V = Verdicts(chk)
    if chk.cli_ok:
        # folder-output mode against the same crates generated alone (lib/multi.py): the type text of every use site must not
        # depend on what another crate of the run contains (per-run memo of rendered types, prefix decisions, generics of helpers)
        import multi, c05_sites as _sites
        nw = 10 if quick else 120
        wss = [[_sites.rust_items(chk.rng, _sites.plan(chk.rng, 'typescript')) for _ in range(chk.rng.choice([2, 3]))] for _ in range(nw)]
        multi.independent_crates(chk, wss, multi.facet_types, 'type expressions at their use sites (C05)', swift_prefix='OP')
    phase_prims(chk, V)
    phase_trees(chk, V, 2000 if quick else 30000)
    phase_front(chk, V, 3000 if quick else 60000)
    phase_seq(chk, V, 150 if quick else 2500)
    import c05_sites
    c05_sites.phase_sites_ir(chk, V, 200 if quick else 3000)
    c05_sites.phase_sites_src(chk, V, 100 if quick else 1500)
    V.finish('Model.Lang.*.{ts,kt,sc,sw,go,py}_texp vs Language::format_type; Model.Types.parse_ty vs RustType::try_from; '
             'Model decls_ir/decls_src vs generate_ir/generate')


def replay(chk, path):
    chk.prepare(need_cli=False)
    d = json.load(open(path))
    print('what :', d.get('what'))
    ph = d.get('phase')
    if ph == 'trees':
        case = (d['lang'], d['cfg'], d['generics'], d['type'])
        i, m = impl_fmt([case])[0], model_fmt([case])[0]
        o, e = observe(d['lang'], d['cfg'], i['ok']) if 'ok' in i else (None, None)
        dom, known, good, erase = judge([case + (o,)])[0]
        print('rust :', T.rust_name(d['type']), 'generics', d['generics'], 'cfg', d['cfg'])
        print('impl :', canon_impl(i))
        print('model:', canon_model(m))
        print('observed tree:', T.show_tree(o) if o else e)
        print('expected tree:', T.show_tree(erase), ' dom', dom, 'known', known, 'good', good)
        return 0 if good else 1
    if ph == 'seq':
        calls = [(c['generics'], c['type']) for c in d['calls']]
        r = vf.impl([{'cmd': 'c05_format_seq', 'lang': d['lang'], 'cfg': d['cfg'], 'calls': [{'generics': g, 'ty': t} for g, t in calls]}])[0]
        rc = 0
        for pos, ((g, t), a) in enumerate(zip(calls, r.get('seq') or [r] * len(calls))):
            case = (d['lang'], d['cfg'], g, t)
            f, m = impl_fmt([case])[0], model_fmt([case])[0]
            o, e = observe(d['lang'], d['cfg'], a['ok']) if 'ok' in a else (None, None)
            dom, known, good, erase = judge([case + (o,)])[0]
            print(f'call {pos}: {T.rust_name(t)} generics {g}: in sequence {canon_impl(a)}  fresh {canon_impl(f)}  model {canon_model(m)}  good {good}')
            if dom and not good:
                rc = 1
        return rc
    if ph == 'prims':
        case = (d['lang'], BASE[d['lang']], [], ir.special(d['prim']))
        print('impl :', canon_impl(impl_fmt([case])[0]), ' model:', canon_model(model_fmt([case])[0]), ' spec table:', d.get('spec_table'))
        return 0
    if ph == 'front':
        i = vf.impl([{'cmd': 'c05_parse_type', 'src': d['source_type']}])[0]
        a = vf.impl([{'cmd': 'ast_type', 'src': d['source_type']}])[0]
        print('impl :', i)
        if 'ok' in a:
            print('spec/model:', vf.dump_sx(vf.model([f'(c05_denote {a["ok"]})'])[0]))
        return 0
    if ph in ('sites_ir', 'sites_src'):
        import c05_sites
        return c05_sites.replay(chk, d)
    print(json.dumps(d, indent=1)[:3000])
    return 0
