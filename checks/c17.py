"""C17 - re-running is idempotent and the output depends only on the latest inputs.
Proof: Props/C17.v over Model/Writer.v (check_write_file, write_single_file, write_multiple_files,
Swift's write_codable_file, parse errors before the writer) for run histories of any length.
Correspondence: the REAL BINARY.  Every case is a small source tree in 2-4 versions (types added,
removed, renamed, moved between crates, edited; a `()` field coming and going so that Swift's
CodableVoid / Codable.swift appears and disappears; transient parse errors and generation
failures), a history of up to 6 runs alternating between the versions into one output location
(-o file / -d folder; sometimes pre-seeded with stale files), for all six languages.  Before every
run all files in the location get a fixed old modification time, so "written by this run" is
exactly "mtime differs afterwards".  Reference = each version run into a fresh empty location; that
observation is also the `gen` the model abstracts.  After every run the real location (bytes and
last-writer run index of every file) is compared with the model's file system, and the Spec's
verdict predicates (Spec/C17Spec.v good_rerun, good_fresh, evaluated by the extracted code on the
OBSERVED file systems) decide `good`."""
import concurrent.futures, copy, hashlib, json, os, pathlib, shutil, subprocess
import vf

LANGS = {
    'typescript': dict(ext='ts', flags=[]),
    'kotlin': dict(ext='kt', flags=['--java-package', 'p']),
    'swift': dict(ext='swift', flags=[]),
    'scala': dict(ext='scala', flags=['--scala-package', 'p']),
    'go': dict(ext='go', flags=['--go-package', 'p']),
    'python': dict(ext='py', flags=[]),
}
CRATE_DIRS = ['alpha_core', 'net', 'ui-kit', 'z9']
PASCAL = {'alpha_core': 'AlphaCore', 'net': 'Net', 'ui-kit': 'UiKit', 'z9': 'Z9'}
FILES = ['lib.rs', 'model.rs']
PRIMS = ['u8', 'u32', 'i32', 'bool', 'String', 'f64', 'Vec<u32>', 'Option<String>', 'Vec<String>', 'Option<bool>']
WORDS = ['Account', 'Item', 'Vault', 'User', 'Session', 'Token', 'Field', 'Note', 'Login', 'Card', 'Group', 'Policy', 'Device', 'Event', 'Report', 'Shape']
OLD_NS = 1_000_000_000 * 10 ** 9        # 2001-09-09: the mtime every file gets before a run
GEN_FAIL = {'typescript': 'genkey', 'python': 'genkey', 'kotlin': 'const', 'swift': 'const'}   # scala, go: none known


# ------------------------------------------------------------------ source trees
def crate_name(cdir):
    return cdir.replace('-', '_')


def out_name(lang, cdir):
    ext = LANGS[lang]['ext']
    return (PASCAL[cdir] if lang == 'swift' else crate_name(cdir)) + '.' + ext


def tree_items(tree):
    return [(c, f, i) for c, files in tree.items() for f, its in files.items() for i in range(len(its))]


def fresh_name(rng, tree, counter):
    used = {it['name'] for c, files in tree.items() for its in files.values() for it in its}
    for _ in range(50):
        n = rng.choice(WORDS)
        if n not in used:
            return n
    counter[0] += 1
    return f'Gen{counter[0]}'


def new_item(rng, tree, counter):
    kind = rng.choice(['struct', 'struct', 'struct', 'enum', 'tagged', 'alias'])
    name = fresh_name(rng, tree, counter)
    others = [it['name'] for c, files in tree.items() for its in files.values() for it in its if it['kind'] in ('struct', 'enum', 'tagged', 'alias')]
    fields = []
    for k in range(rng.randint(1, 3)):
        if others and rng.random() < 0.3:
            fields.append((f'f{k}', rng.choice(others)))
        else:
            fields.append((f'f{k}', rng.choice(PRIMS)))
    return dict(kind=kind, name=name, fields=fields, unit=rng.random() < 0.2, doc=rng.random() < 0.3)


def render_item(it):
    doc = f'/// {it["name"]} docs\n' if it.get('doc') else ''
    k = it['kind']
    if k == 'struct':
        fs = ''.join(f'    pub {n}: {t},\n' for n, t in it['fields']) + ('    pub nothing: (),\n' if it['unit'] else '')
        return f'{doc}#[typeshare]\npub struct {it["name"]} {{\n{fs}}}\n'
    if k == 'enum':
        return f'{doc}#[typeshare]\npub enum {it["name"]} {{\n    First,\n    Second,\n' + ('    Third,\n' if it['unit'] else '') + '}\n'
    if k == 'tagged':
        t = it['fields'][0][1]
        return (f'{doc}#[typeshare]\n#[serde(tag = "type", content = "content")]\npub enum {it["name"]} {{\n    One({t}),\n    Two {{ x: u32 }},\n'
                + ('    Unit(()),\n' if it['unit'] else '') + '    Three,\n}\n')
    if k == 'alias':
        t = it['fields'][0][1]
        return f'{doc}#[typeshare]\npub type {it["name"]} = {"()" if it["unit"] else t};\n'
    if k == 'flatten':     # ParseError::SerdeFlattenNotAllowed -> check_parse_errors fails
        return f'#[typeshare]\npub struct {it["name"]} {{\n    #[serde(flatten)]\n    pub inner: u8,\n}}\n'
    if k == 'genkey':      # RustTypeFormatError::GenericKeyForbiddenInTS while generating (typescript, python)
        return f'#[typeshare]\npub struct {it["name"]}<K> {{\n    pub m: HashMap<K, u8>,\n}}\n'
    if k == 'const':       # kotlin / swift write_const: Err(Unsupported) while generating, exit 1 (was todo!(): C07-kotlin.rs:183 / C07-swift.rs:268, fixed)
        return f'#[typeshare]\npub const {it["name"].upper()}: u32 = 5;\n'
    raise ValueError(k)


def item_refs(it):
    return [t for _, t in it.get('fields', []) if t not in PRIMS]


def render_tree(tree):
    """{relative path: text} of the source tree"""
    loc = {it['name']: c for c, files in tree.items() for its in files.values() for it in its}
    out = {}
    for c, files in tree.items():
        for f, its in files.items():
            uses = sorted({(crate_name(loc[t]), t) for it in its for t in item_refs(it) if t in loc and loc[t] != c})
            txt = ''.join(f'use {cn}::{t};\n' for cn, t in uses)
            if any(it['kind'] == 'genkey' for it in its):
                txt += 'use std::collections::HashMap;\n'
            txt += f'\npub struct Plain{f[0].upper()} {{ pub x: u8 }}\n\n'
            txt += '\n'.join(render_item(it) for it in its)
            out[f'{c}/src/{f}'] = txt
    return out


def expected_files(tree, lang):
    """output file names (multi-file mode) of the crates that have at least one annotated item"""
    return sorted(out_name(lang, c) for c, files in tree.items() if any(its for its in files.values()))


def has_bad(tree):
    return any(it['kind'] in ('flatten', 'genkey', 'const') for c, files in tree.items() for its in files.values() for it in its)


def initial_tree(rng, counter):
    tree = {}
    for c in rng.sample(CRATE_DIRS, rng.randint(1, 3)):
        tree[c] = {f: [] for f in rng.sample(FILES, rng.randint(1, 2))}
    for _ in range(rng.randint(1, 5)):
        c = rng.choice(sorted(tree))
        f = rng.choice(sorted(tree[c]))
        tree[c][f].append(new_item(rng, tree, counter))
    return tree


def mutate(rng, tree, lang, counter):
    t = copy.deepcopy(tree)
    if has_bad(t) and rng.random() < 0.7:
        for c, files in t.items():
            for f in files:
                files[f] = [it for it in files[f] if it['kind'] not in ('flatten', 'genkey', 'const')]
    for _ in range(rng.choice([1, 1, 2, 3])):
        items = tree_items(t)
        op = rng.choice(['add', 'add', 'remove', 'rename', 'move', 'move', 'edit', 'unit', 'unit', 'newcrate', 'dropcrate', 'bad'])
        if op == 'add' or not items:
            c = rng.choice(sorted(t))
            t[c][rng.choice(sorted(t[c]))].append(new_item(rng, t, counter))
        elif op == 'remove':
            c, f, i = rng.choice(items)
            del t[c][f][i]
        elif op == 'rename':
            c, f, i = rng.choice(items)
            t[c][f][i]['name'] = fresh_name(rng, t, counter)
        elif op == 'move':
            c, f, i = rng.choice(items)
            it = t[c][f].pop(i)
            c2 = rng.choice(CRATE_DIRS)
            t.setdefault(c2, {}).setdefault(rng.choice(FILES), []).append(it)
        elif op == 'edit':
            c, f, i = rng.choice(items)
            it = t[c][f][i]
            if it.get('fields'):
                k = rng.randrange(len(it['fields']))
                it['fields'][k] = (it['fields'][k][0], rng.choice(PRIMS))
            it['doc'] = not it.get('doc')
        elif op == 'unit':
            c, f, i = rng.choice(items)
            t[c][f][i]['unit'] = not t[c][f][i].get('unit')
        elif op == 'newcrate':
            c2 = rng.choice(CRATE_DIRS)
            t.setdefault(c2, {}).setdefault(rng.choice(FILES), []).append(new_item(rng, t, counter))
        elif op == 'dropcrate' and len(t) > 1:
            del t[rng.choice(sorted(t))]
        elif op == 'bad' and rng.random() < 0.5:
            kind = rng.choice(['flatten', GEN_FAIL.get(lang, 'flatten')])
            c = rng.choice(sorted(t))
            t[c][rng.choice(sorted(t[c]))].append(dict(kind=kind, name=fresh_name(rng, t, counter), fields=[], unit=False))
    return t


def make_history(rng, nversions, maxlen):
    n = rng.randint(2, maxlen)
    h = [0]
    while len(h) < n:
        if rng.random() < 0.4:
            h.append(h[-1])
        else:
            h.append(rng.choice([v for v in range(nversions) if v != h[-1]] or [h[-1]]))
    if n >= 3 and all(a != b for a, b in zip(h, h[1:])):
        h[-1] = h[-2]
    return h


def random_case(rng, lang, mode, maxlen, counter):
    trees = [initial_tree(rng, counter)]
    for _ in range(rng.randint(1, 3)):
        trees.append(mutate(rng, trees[-1], lang, counter))
    flags = list(LANGS[lang]['flags'])
    if lang == 'kotlin' and rng.random() < 0.25:
        flags = []                   # no package: Kotlin's begin_file writes no header at all
    seed = []
    r = rng.random()
    ext = LANGS[lang]['ext']
    if r < 0.35:
        names = sorted({n for t in trees for n in expected_files(t, lang)})
        if mode == 'single':
            seed.append([f'out.{ext}', rng.choice(['junk', 'empty', ['fresh', rng.randrange(len(trees))], ['symlink', rng.randrange(len(trees))]])])
        else:
            for n in rng.sample(names, min(len(names), rng.randint(1, 2))):
                seed.append([f'out/{n}', rng.choice(['junk', 'empty', ['fresh', rng.randrange(len(trees))], ['symlink', rng.randrange(len(trees))]])])
            if lang == 'swift' and rng.random() < 0.5:
                seed.append(['out/Codable.swift', rng.choice(['junk', 'codable_nonl', ['fresh', rng.randrange(len(trees))]])])
        seed.append([rng.choice(['keep.txt', 'out.bak'] if mode == 'single' else ['out/unrelated.txt', 'out/sub/deep.txt']), 'junk'])
    elif r < 0.6 and mode == 'multi':
        seed.append(['out/', 'dir'])   # the folder exists and is empty
    configs = None
    if lang == 'swift' and rng.random() < 0.35:
        # the configuration changes between versions too: Swift's CodableVoid constraints / default decorators grow and SHRINK
        # (seeded C17_c: Codable.swift overwritten in place without truncation keeps the tail of the longer earlier contents)
        configs = [swift_config(rng) for _ in trees]
    return dict(lang=lang, flags=flags, mode=mode, versions=[render_tree(t) for t in trees], configs=configs,
                expected=[expected_files(t, lang) for t in trees], history=make_history(rng, len(trees), maxlen), seed=seed)


SWIFT_CONSTRAINTS = [[], ['Equatable'], ['Equatable', 'Hashable'], ['Sendable', 'Equatable', 'Hashable'], ['Sendable']]


def swift_config(rng):
    if rng.random() < 0.2:
        return None
    lines = ['[swift]']
    lines.append('codablevoid_constraints = ' + json.dumps(rng.choice(SWIFT_CONSTRAINTS)))
    if rng.random() < 0.5:
        lines.append('default_decorators = ' + json.dumps(rng.choice(SWIFT_CONSTRAINTS)))
    if rng.random() < 0.3:
        lines.append('prefix = ' + json.dumps(rng.choice(['', 'OP'])))
    return '\n'.join(lines) + '\n'


def S_(name, fields, unit=False, kind='struct'):
    return dict(kind=kind, name=name, fields=fields, unit=unit, doc=False)


def directed_cases():
    """hand-written histories that run before the generated ones"""
    A = S_('Account', [('id', 'u32'), ('name', 'String')])
    B = S_('Item', [('owner', 'Account'), ('tags', 'Vec<String>')])
    Bu = S_('Item', [('owner', 'Account'), ('tags', 'Vec<String>')], unit=True)
    C = S_('Vault', [('items', 'u32')])
    E = S_('Kind', [('x', 'u8')], kind='enum')
    v_base = {'alpha_core': {'lib.rs': [A]}, 'net': {'lib.rs': [B], 'model.rs': [E]}}
    v_moved = {'net': {'lib.rs': [B, A], 'model.rs': [E]}}
    # Profile has the length of Account on purpose: the outputs differ in bytes but not in size
    v_renamed = {'alpha_core': {'lib.rs': [dict(A, name='Profile')]}, 'net': {'lib.rs': [B], 'model.rs': [E]}}
    v_added = {'alpha_core': {'lib.rs': [A, C]}, 'net': {'lib.rs': [B], 'model.rs': [E]}, 'ui-kit': {'lib.rs': [S_('Shape', [('w', 'f64')])]}}
    v_unit = {'alpha_core': {'lib.rs': [A]}, 'net': {'lib.rs': [Bu], 'model.rs': [E]}}
    v_none = {'alpha_core': {'lib.rs': []}}
    v_flat = {'alpha_core': {'lib.rs': [A]}, 'net': {'lib.rs': [B, dict(kind='flatten', name='Broken', fields=[], unit=False)], 'model.rs': [E]}, 'z9': {'lib.rs': [C]}}
    out = []
    for lang in LANGS:
        ext = LANGS[lang]['ext']
        for mode in ('single', 'multi'):
            def case(trees, history, seed=(), flags=None, what='', configs=None):
                out.append(dict(lang=lang, flags=list(LANGS[lang]['flags'] if flags is None else flags), mode=mode, versions=[render_tree(t) for t in trees], configs=configs,
                                expected=[expected_files(t, lang) for t in trees], history=list(history), seed=[list(s) for s in seed], directed=what))
            case([v_base, v_moved, v_renamed, v_added], [0, 0, 1, 1, 2, 3], what='moved / renamed / added')
            case([v_base, v_added], [1, 0, 0, 1, 1, 0], what='crate appears and disappears')
            case([v_base, v_unit], [1, 1, 0, 0, 1, 1], what='unit type comes and goes (Swift: CodableVoid / Codable.swift)')
            case([v_base, v_flat], [0, 1, 1, 0], what='transient parse error')
            case([v_base, v_none], [0, 1, 1, 0], what='all annotated items removed')
            case([v_base, v_moved], [0, 1], seed=[[f'out.{ext}', ['fresh', 0]], ['keep.txt', 'junk']] if mode == 'single' else
                 [[f'out/{out_name(lang, "net")}', ['fresh', 0]], [f'out/{out_name(lang, "alpha_core")}', 'junk'], ['out/unrelated.txt', 'junk']],
                 what='location pre-seeded with an up-to-date file, a stale file and an unrelated file')
            case([v_base, v_renamed], [0, 0, 0, 1, 1], seed=[[f'out.{ext}', ['symlink', 0]]] if mode == 'single' else [[f'out/{out_name(lang, "net")}', ['symlink', 0]], [f'out/{out_name(lang, "alpha_core")}', ['fresh', 0]]],
                 what='an up-to-date output file that is a symbolic link: untouched by unchanged re-runs, rewritten (through the link) when the sources change')
            if lang in GEN_FAIL:
                v_gen = {'alpha_core': {'lib.rs': [A]}, 'net': {'lib.rs': [B, dict(kind=GEN_FAIL[lang], name='Broken', fields=[], unit=False)], 'model.rs': [E]}, 'z9': {'lib.rs': [C]}}
                case([v_added, v_gen], [0, 1, 1, 0, 0], what='generation fails at the second of three crates')
            if lang == 'kotlin':
                case([v_base, v_renamed], [0, 0, 1, 1], flags=[], what='kotlin without a package: no file header')
            if lang == 'swift':
                long_, short_ = '[swift]\ncodablevoid_constraints = ["Equatable", "Hashable"]\n', '[swift]\ncodablevoid_constraints = ["Equatable"]\n'
                case([v_unit, v_unit], [0, 1, 1, 0, 0, 1], configs=[long_, short_], what='same sources, CodableVoid constraints shrink and grow again (Codable.swift gets shorter)')
                case([v_unit, v_unit, v_base], [0, 0, 1, 2, 1, 1], configs=[long_, None, short_], what='CodableVoid constraints come and go with the configuration file')
            if lang == 'swift' and mode == 'multi':
                case([v_unit, v_base], [0, 0, 1, 0], seed=[['out/Codable.swift', 'codable_nonl']], what='Codable.swift pre-seeded with the contents minus the newline (stale: rewritten once)')
                case([v_unit, v_base], [0, 0, 1, 0, 0], seed=[['out/Codable.swift', ['fresh', 0]]], what='Codable.swift pre-seeded with the contents and the newline (up to date: never touched)')
                case([v_unit, v_base], [0, 0, 1, 0], seed=[['out/Codable.swift', 'junk']], what='Codable.swift pre-seeded with other bytes (rewritten once)')
    return out


# ------------------------------------------------------------------ running the real binary
def snapshot(root):
    out = {}
    for dp, dn, fns in os.walk(root):
        for f in fns:
            q = pathlib.Path(dp) / f
            out[str(q.relative_to(root))] = (q.read_bytes(), os.stat(q).st_mtime_ns)
    return out


def run_cli(case, src, loc, cwd, cfg=None):
    ext = LANGS[case['lang']]['ext']
    dest = ['-o', str(loc / f'out.{ext}')] if case['mode'] == 'single' else ['-d', str(loc / 'out')]
    if cfg is not None:      # the version's own typeshare.toml (the configuration is one of the run's inputs)
        dest = ['-c', str(cfg)] + dest
    env = {k: v for k, v in os.environ.items() if not k.startswith('TYPESHARE_VERIF')}
    p = subprocess.run(['timeout', '30', str(vf.TYPESHARE), '--lang', case['lang']] + case['flags'] + dest + [str(src)],
                       capture_output=True, text=True, cwd=cwd, env=env)
    err = p.stderr
    kind = 'ok' if p.returncode == 0 else ('parse_errors' if 'Errors encountered during parsing' in err else
                                           ('no_data' if 'Could not get parsed data for single file output' in err else
                                            ('hang' if p.returncode == 124 else ('panic' if p.returncode == 101 else 'error'))))
    return p.returncode, kind, [l for l in err.splitlines() if ' INFO ' not in l][:4]


CODABLE_NONL = b"\n/// () isn't codable, so we use this instead to represent Rust's unit type\npublic struct CodableVoid: Codable {}"


def execute(case, root):
    """runs the real binary: every version into a fresh location, then the history into one location"""
    root = pathlib.Path(root)
    for v, files in enumerate(case['versions']):
        for rel, txt in files.items():
            p = root / f'v{v}' / rel
            p.parent.mkdir(parents=True, exist_ok=True)
            p.write_text(txt)
        (root / f'v{v}').mkdir(exist_ok=True)
    cfgs = {}
    for v, txt in enumerate(case.get('configs') or []):
        if txt is not None:
            cfgs[v] = root / f'cfg{v}.toml'
            cfgs[v].write_text(txt)
    fresh = []
    for v in range(len(case['versions'])):
        loc = root / f'fresh{v}'
        loc.mkdir()
        rc, kind, err = run_cli(case, root / f'v{v}', loc, root, cfgs.get(v))
        fresh.append(dict(rc=rc, kind=kind, err=err, files={k: b for k, (b, _) in snapshot(loc).items()}))
    loc = root / 'loc'
    loc.mkdir()
    state = {}
    for rel, what in case['seed']:
        if what == 'dir':
            (loc / rel).mkdir(parents=True, exist_ok=True)
            continue
        if what == 'junk':
            data = b'// stale: ' + rel.encode() + b'\n'
        elif what == 'empty':
            data = b''
        elif what == 'codable_nonl':
            data = CODABLE_NONL
        else:
            data = fresh[what[1]]['files'].get(rel)
            if data is None:
                data = b'// nothing fresh under this name\n'
        (loc / rel).parent.mkdir(parents=True, exist_ok=True)
        if isinstance(what, list) and what[0] == 'symlink':
            # the output path is a symbolic link to a file elsewhere that holds the up-to-date contents: an unchanged re-run must
            # leave it alone like any other up-to-date file (seeded C17_f: a size pre-check through DirEntry::metadata, which does
            # not follow links, rewrote it on every run)
            tgt = root / 'linked' / rel.replace('/', '_')
            tgt.parent.mkdir(parents=True, exist_ok=True)
            tgt.write_bytes(data)
            os.symlink(tgt, loc / rel)
            state[rel] = (data, 0)
            continue
        (loc / rel).write_bytes(data)
        state[rel] = (data, 0)
    init = dict(state)
    runs = []
    for i, v in enumerate(case['history'], 1):
        for rel in snapshot(loc):
            os.utime(loc / rel, ns=(OLD_NS, OLD_NS))
        rc, kind, err = run_cli(case, root / f'v{v}', loc, root, cfgs.get(v))
        snap = snapshot(loc)
        new = {}
        written = []
        for rel, (data, mt) in snap.items():
            if mt != OLD_NS or rel not in state or state[rel][0] != data:
                new[rel] = (data, i)
                written.append(rel)
            else:
                new[rel] = state[rel]
        state = new
        runs.append(dict(v=v, rc=rc, kind=kind, err=err, state=dict(state), written=sorted(written)))
    return dict(fresh=fresh, init=init, runs=runs)


# ------------------------------------------------------------------ the model's input, from the fresh runs
def enc(b):
    if isinstance(b, str):
        b = b.encode()
    return 's' + '.'.join(str(x) for x in b)


def dec(a):
    return b'' if a == 's' else bytes(int(t) for t in a[1:].split('.'))


def enc_fs(state):
    return '(' + ' '.join(f'({enc(p)} {enc(b)} n{m})' for p, (b, m) in sorted(state.items())) + ')'


def outputs_of(case, v, fr, notes):
    """what the writer was handed for version v, reconstructed from the run into an empty location"""
    ext = LANGS[case['lang']]['ext']
    files = fr['files']
    if case['mode'] == 'single':
        p = f'out.{ext}'
        extra = set(files) - {p}
        if extra:
            notes.append(f'unexpected files in a fresh single-file run: {sorted(extra)}')
        if fr['kind'] == 'ok':
            if p not in files:
                notes.append('empty_output')
            return f'(single {enc(p)} (some (gen {enc(files.get(p, b""))})))'
        if fr['kind'] == 'parse_errors':
            return '(parse_errors)'
        if fr['kind'] == 'no_data':
            return f'(single {enc(p)} none)'
        return f'(single {enc(p)} (some fail))'
    if fr['kind'] == 'parse_errors':
        return '(parse_errors)'
    names = {k[len('out/'):]: b for k, b in files.items() if k.startswith('out/')}
    if len(names) != len(files):
        notes.append(f'unexpected files in a fresh multi-file run: {sorted(files)}')
    codable = None
    if case['lang'] == 'swift' and 'Codable.swift' in names:
        c = names.pop('Codable.swift')
        codable = c[:-1] if c.endswith(b'\n') else c
    crates = []
    if fr['kind'] == 'ok':
        for n in case['expected'][v]:
            if n not in names:
                notes.append('empty_output')
            crates.append(f'({enc(n)} (gen {enc(names.get(n, b""))}))')
        extra = set(names) - set(case['expected'][v])
        if extra:
            notes.append(f'files the generator did not expect: {sorted(extra)}')
            crates += [f'({enc(n)} (gen {enc(names[n])}))' for n in sorted(extra)]
    else:
        crates = [f'({enc(n)} (gen {enc(b)}))' for n, b in sorted(names.items())] + [f'({enc("?")} fail)']
    return f'(multi {enc("out")} ({" ".join(crates)}) {"none" if codable is None else "(some " + enc(codable) + ")"})'


def model_request(case, ex):
    notes = []
    outs = [outputs_of(case, v, fr, notes) for v, fr in enumerate(ex['fresh'])]
    fresh = [enc_fs({k: (b, 1) for k, b in fr['files'].items()}) for fr in ex['fresh']]
    runs = ' '.join(f'(n{i} n{r["v"]} {enc_fs(r["state"])})' for i, r in enumerate(ex['runs'], 1))
    return f'(c17_case {enc_fs(ex["init"])} ({" ".join(outs)}) ({" ".join(fresh)}) ({runs}))', notes


def describe(state):
    return {p: [len(b), hashlib.sha1(b).hexdigest()[:8], m] for p, (b, m) in sorted(state.items())}


def judge(chk, case, ex, mres, notes, cid, corr_broken):
    """verdict per run, DESIGN.md section 7"""
    hist_key = hashlib.sha1()
    hist_key.update(json.dumps([case['lang'], case['flags'], case['mode'], case['seed'], case.get('configs')]).encode())
    prev_state, prev_v = ex['init'], None
    for i, (r, m) in enumerate(zip(ex['runs'], mres), 1):
        chk.evaluations += 1
        hist_key.update(json.dumps(case['versions'][r['v']], sort_keys=True).encode())
        fr = ex['fresh'][r['v']]
        g = lambda k: vf.sx_get(m, k)
        mstate = {dec(p).decode(): (dec(b), int(t[1:])) for p, b, t in g('fs')}
        mstatus_ok = g('status') == 'ok'
        known = vf.sx_opt(g('known'), lambda a: dec(a).decode())
        resp = [dec(p).decode() for p in g('resp')]
        rerun = prev_v == r['v']
        status_ok = (r['rc'] == 0) == (fr['rc'] == 0) and r['kind'] == fr['kind']
        good_fresh = g('good_fresh') == 'true'
        good_rerun = (not rerun) or (g('good_rerun') == 'true' and not r['written'])
        good = status_ok and good_fresh and good_rerun
        equal = mstate == r['state'] and mstatus_ok == (r['rc'] == 0)
        chk.count('runs_' + case['lang'])
        chk.count('runs_' + case['mode'])
        chk.count('exit_' + r['kind'])
        if rerun:
            chk.count('identical_reruns')
        skipped = [p for p in resp if p in prev_state and p not in r['written']]
        overwritten = [p for p in r['written'] if p in prev_state]
        stale = [p for p in r['state'] if p not in resp and p in prev_state]
        chk.count('files_skipped_mtime_kept', len(skipped))
        chk.count('files_overwritten', len(overwritten))
        chk.count('files_created', len([p for p in r['written'] if p not in prev_state]))
        chk.count('files_left_alone', len(stale))
        if 'empty_output' in notes:
            chk.count('runs_of_versions_with_an_empty_output')
        if g('dom') != 'true':
            chk.count('outside_domain')
        if g('nonempty') != 'true':
            chk.count('model_input_with_empty_bytes')
        if r['rc'] == 0 and resp and prev_state and (rerun and skipped or overwritten):
            chk.nontrivial.add(hist_key.hexdigest())
        payload = dict(case=case, run=i, version=r['v'], exit=[r['rc'], r['kind']], fresh_exit=[fr['rc'], fr['kind']], stderr=r['err'],
                       identical_rerun=rerun, written_by_this_run=r['written'], responsible=resp, known=known,
                       observed=describe(r['state']), model=describe(mstate), fresh=describe({k: (b, 1) for k, b in fr['files'].items()}),
                       good=dict(status=status_ok, fresh=good_fresh, rerun=good_rerun))
        if good and equal:
            pass
        elif not good and known is None:
            why = ('exit status differs from the run into an empty location' if not status_ok else
                   'a file the run is responsible for differs from what a run into an empty location produces' if not good_fresh else
                   f'an identical re-run touched {r["written"]}')
            chk.violation(f'{cid}-{i}', payload, why)
        elif not good and equal:
            if not chk.known(known, payload):
                chk.violation(f'{cid}-{i}', payload, f'fails as class {known}, which is not an open finding')
        elif not good:
            chk.violation(f'{cid}-{i}', payload, f'fails differently from what finding class {known} predicts')
        elif known is None:
            corr_broken.append(payload)
        else:
            chk.count('known_class_not_reproduced')
        if chk.evaluations % 401 == 0 or (case.get('directed') and i == len(ex['runs']) and case['lang'] == 'swift' and case['mode'] == 'multi'):
            chk.sample(dict(lang=case['lang'], mode=case['mode'], history=case['history'][:i], seed=case['seed'], directed=case.get('directed'),
                            per_run=[dict(version=x['v'], exit=x['rc'], written=x['written'], files=describe(x['state'])) for x in ex['runs'][:i]]), cap=8)
        prev_state, prev_v = r['state'], r['v']


def run_cases(chk, cases, root, corr_broken, tag, batch=600):
    def work(ic):
        i, case = ic
        # A run killed by our own 30 s watchdog (`timeout`, exit 124) is not an observation of the tool
        # (seen once when the sandbox stalled: a process killed between create and write).  The whole
        # case is then executed again, at most twice; a hang that persists is judged as observed.
        for attempt in range(3):
            d = root / f'{tag}{i}_{attempt}'
            d.mkdir()
            try:
                res = execute(case, d)
            finally:
                shutil.rmtree(d, ignore_errors=True)
            res['attempts'] = attempt + 1
            if not any(x['kind'] == 'hang' for x in res['fresh'] + res['runs']):
                break
        return res
    for lo in range(0, len(cases), batch):          # batches bound the memory held in observed bytes
        part = list(enumerate(cases))[lo:lo + batch]
        with concurrent.futures.ThreadPoolExecutor(max_workers=vf.NPROC) as ex:
            results = list(ex.map(work, part))
        reqs = [model_request(c, e) for (_, c), e in zip(part, results)]
        mres = vf.model([r for r, _ in reqs])
        for (i, case), ex_, (_, notes), m in zip(part, results, reqs, mres):
            for n in notes:
                if n != 'empty_output':
                    chk.violation(f'{tag}{i}-generator', dict(case=case, note=n), 'the reference run produced files the case generator does not account for: ' + n, no_input=True)
            if ex_['attempts'] > 1:
                chk.count('cases_executed_again_after_a_watchdog_timeout')
                chk.notes.append(f'case {tag}{i} ({case["lang"]}, {case["mode"]}) was executed {ex_["attempts"]} times: a run was killed by the 30 s watchdog')
            judge(chk, case, ex_, m, notes, f'{tag}{i}', corr_broken)


def run(chk):
    chk.rule = ('a case = (language of the six, -o file or -d folder, 2-4 versions of a 1-4 crate source tree obtained by seeded mutations: item added / removed / '
                'renamed / moved to another or a new crate / edited, `()` toggled, crate dropped, transient serde(flatten) parse error or generation failure '
                '(generic map key in typescript/python, const in kotlin/swift), a history of 2-6 runs (quick: <= 5) alternating between the versions with at least one '
                'identical re-run, location empty / existing empty folder / pre-seeded with stale, empty, up-to-date and unrelated files); directed histories run '
                'first.  One evaluation = one run of the real binary inside a history, judged after the run.  non-trivial = distinct (language, flags, mode, seed, '
                'sequence of source texts up to this run) where the run exits 0 onto a non-empty location and either is an identical re-run that skips a file '
                'or overwrites an existing file')
    chk.assumptions = ['the model abstracts the real file system: a finite map path -> (bytes, mtime); no directories, permissions, symlinks, concurrent writers or I/O errors',
                       'the generated bytes are taken as given: the model receives, per version, the files observed after a real run into an empty location',
                       'one clock value per run; observation of "written by this run" = mtime differs from the fixed old value set with os.utime before the run',
                       'distinct output paths (two crates never share an output file, no crate is called Codable in Swift): dom_C17, counted as outside_domain otherwise',
                       'no typeshare.toml in or above the temporary directory; flags: --java-package p / --scala-package p / --go-package p']
    chk.prepare(need_cli=True, need_harness=False)
    if not chk.cli_ok:
        return
    rng = chk.rng
    root = vf.tmpdir()
    corr_broken = []
    run_cases(chk, directed_cases(), root, corr_broken, 'd')
    per = 130 if chk.tier == 'quick' else 1500
    maxlen = 5 if chk.tier == 'quick' else 6
    counter = [0]
    cases = [random_case(rng, lang, mode, maxlen, counter) for lang in LANGS for mode in ('single', 'multi') for _ in range(per)]
    run_cases(chk, cases, root, corr_broken, 'g')
    chk.notes.append('empty output for a responsible file (the skip-when-empty branch of check_write_file, theorem C17_empty_output_keeps_file): '
                     f'{chk.counters.get("runs_of_versions_with_an_empty_output", 0)} runs of such versions in this run; every back end writes a header or at least one '
                     'byte per item (Kotlin without a package has no header but every item kind it supports writes text, a const fails the run), so the real tool was not '
                     'seen to reach that branch')
    if corr_broken and not [v for v in chk.violations if not v[2]]:
        chk.violation('correspondence', {'correspondence': 'Model/Writer.v run_trace vs the file system left by the real binary', 'cases': corr_broken[:5]},
                      'model and real file system disagree although no run violates the property', no_input=True)


def replay(chk, path):
    chk.prepare(need_cli=True, need_harness=False)
    d = json.load(open(path))
    case = d['case']
    root = vf.tmpdir()
    ex = execute(case, root)
    req, notes = model_request(case, ex)
    m = vf.model([req])[0]
    for i, (r, mm) in enumerate(zip(ex['runs'], m), 1):
        mstate = {dec(p).decode(): (dec(b), int(t[1:])) for p, b, t in vf.sx_get(mm, 'fs')}
        print(f'run {i}: version {r["v"]} exit {r["rc"]} ({r["kind"]}) written {r["written"]}')
        print('   observed', describe(r['state']))
        print('   model   ', describe(mstate), 'equal' if mstate == r['state'] else 'DIFFERENT')
        print('   good_fresh', vf.sx_get(mm, 'good_fresh'), 'good_rerun(vs previous)', vf.sx_get(mm, 'good_rerun'), 'known', vf.sx_get(mm, 'known'))
    return 0
