"""C19 - #[typeshare] is transparent to the Rust compiler and to serde.
Proof: Props/C19.v (the macro model = declarative erasure of typeshare attributes at member positions,
for every input; consequences; partial w.r.t. rustc).

Correspondence, through the REAL macro: a scratch crate (in a temporary directory, shared target dir
build/c19-target) depends on /repo/lib (VERIF_C19_LIB overrides the path; used for sensitivity runs)
and serde/serde_json; cargo builds the dependencies once, afterwards the generated programs are
compiled by calling rustc directly with the --extern paths cargo reported (same artefacts, but the
batches can run in parallel).

Generated items (lib/c19gen.py) come as twins: A = annotated, B = the same text with every typeshare
attribute removed by the generator.  ~100 items per batch, each in `mod a { mod mN { .. } }` /
`mod b { mod mN { .. } }` of ONE program, plus a generated `main`.

(a) EXPANSION.  `RUSTC_BOOTSTRAP=1 rustc -Zunpretty=expanded` on the batch; libdrive `derive_ast_file`
    (syn, "full") reads the first item of every module of the expanded text.  Compared:
      * expansion of A  ==  Model.rustc_expand (loop over typeshare_macro) of `derive_ast`(text A), and
        == Spec.stripped_twin of it - both after Model.rustc_builtin_view, which drops what rustc itself
        consumes and -Zunpretty no longer shows: `derive(..)`, `cfg(..)` (true: attribute dropped, false:
        member dropped), `cfg_attr(..)` (unfolded).  So the typeshare facet is: all attributes whose path is
        not one of these built-ins nor typeshare, at every position, in order, plus names, types,
        visibilities, generics, discriminants;
      * good: Spec observations of the expansion: same members, same non-typeshare attributes in place,
        no typeshare attribute at a member position, same skeleton, same item attributes as the spec;
      * token string of A's expanded item == token string of B's expanded item (no information loss).
(b) BEHAVIOUR.  The same program is compiled and run: for every item values are built in both twins and
    printed (serde_json / Debug / size_of / union field / call), the lines are compared pairwise, and A's
    JSON is deserialised into B's type and back (and B's into A's).
    Compile-time facet: items that are ill-typed in BOTH twins, each twin compiled alone: both must fail.
    Items reproducing finding C19-derive-parse-needs-syn-full (valid Rust that the annotation crate's syn,
    built without "full", cannot parse: A is rejected, B compiles) and their controls; a few items with
    irregular helper paths outside the property's domain.  Whether the macro's syn parses an item is asked
    of harness/synderive, built with the `syn = ..` line of the annotation crate under test."""
import concurrent.futures, json, os, pathlib, re, shutil, subprocess, time
import vf, c19gen
from vf import S, sx_get, dump_sx, parse_sx

LIB = pathlib.Path(os.environ.get('VERIF_C19_LIB', str(vf.REPO / 'lib'))).resolve()
TARGET19 = vf.BUILD / 'c19-target'
SYNDERIVE_DIR = vf.BUILD / 'c19-synderive'
BATCH = 100

PRELUDE = '''#![allow(warnings)]
use serde::{Serialize, Deserialize};
use std::collections::BTreeMap;
use std::borrow::Cow;
use std::marker::PhantomData;
use typeshare::typeshare;
'''
MAIN_HELPERS = '''
fn ser<T: serde::Serialize>(v: &T) -> String { match serde_json::to_string(v) { Ok(s) => s, Err(e) => format!("ERR {}", e) } }
'''


# ------------------------------------------------------------------ building
def build_deps():
    """cargo-build a scratch crate against the real typeshare crate; returns (externs, message)"""
    t0 = time.time()
    d = vf.tmpdir('verif-c19-')
    (d / 'src').mkdir()
    (d / '.cargo').mkdir()
    (d / 'Cargo.toml').write_text(
        '[package]\nname = "c19scratch"\nversion = "0.1.0"\nedition = "2021"\n\n[workspace]\n\n[dependencies]\n'
        f'typeshare = {{ path = "{LIB}", default-features = false }}\nserde = {{ version = "1", features = ["derive"] }}\nserde_json = "1"\n')
    (d / '.cargo' / 'config.toml').write_text('[net]\noffline = true\n')
    lock = LIB.parent / 'Cargo.lock'
    shutil.copy(lock if lock.exists() else vf.REPO / 'Cargo.lock', d / 'Cargo.lock')
    (d / 'src' / 'main.rs').write_text('use typeshare::typeshare;\n#[typeshare]\n#[derive(serde::Serialize)]\nstruct S { #[typeshare(skip)] a: u8 }\n'
                                       'fn main() { println!("{}", serde_json::to_string(&S { a: 1 }).unwrap()); }\n')
    env = dict(vf.ENV, CARGO_TARGET_DIR=str(TARGET19))
    rc, out, err = vf.run(['cargo', 'build', '--offline', '--message-format=json'], cwd=d, env=env, timeout=1800)
    if rc != 0:
        return None, (err or out)[-4000:]
    ext = {}
    for line in out.splitlines():
        try:
            m = json.loads(line)
        except ValueError:
            continue
        if m.get('reason') == 'compiler-artifact' and m['target']['name'] in ('typeshare', 'serde', 'serde_json') and 'lib' in m['target']['kind']:
            for f in m['filenames']:
                if f.endswith('.rlib'):
                    ext[m['target']['name']] = f
    if set(ext) != {'typeshare', 'serde', 'serde_json'}:
        return None, f'cargo did not report all three rlibs: {ext}'
    vf.log(f'[build] c19 scratch crate (real macro from {LIB}) ok in {time.time()-t0:.1f}s')
    return ext, ''


def build_synderive():
    """harness/synderive with the annotation crate's own `syn = ..` dependency line"""
    t0 = time.time()
    ann = (LIB.parent / 'annotation' / 'Cargo.toml').read_text()
    m = re.search(r'^syn\s*=.*$', ann, re.M)
    if not m:
        return False, 'no syn dependency in annotation/Cargo.toml'
    (SYNDERIVE_DIR / 'src').mkdir(parents=True, exist_ok=True)
    toml = f'[package]\nname = "synderive"\nversion = "0.1.0"\nedition = "2021"\n\n[workspace]\n\n[dependencies]\n{m.group(0)}\n\n[profile.dev]\nopt-level = 1\ndebug = false\n'
    p = SYNDERIVE_DIR / 'Cargo.toml'
    if not p.exists() or p.read_text() != toml:
        p.write_text(toml)
    shutil.copy(vf.ROOT / 'harness' / 'synderive' / 'src' / 'main.rs', SYNDERIVE_DIR / 'src' / 'main.rs')
    shutil.copy(vf.REPO / 'Cargo.lock', SYNDERIVE_DIR / 'Cargo.lock')
    env = dict(vf.ENV, CARGO_TARGET_DIR=str(SYNDERIVE_DIR / 'target'))
    rc, out, err = vf.run(['cargo', 'build', '--offline', '-q'], cwd=SYNDERIVE_DIR, env=env, timeout=1800)
    if rc != 0:
        return False, (out + err)[-4000:]
    vf.log(f'[build] synderive ({m.group(0).strip()}) ok in {time.time()-t0:.1f}s')
    return True, ''


def macro_parses(texts):
    outs = vf.run_lines([str(SYNDERIVE_DIR / 'target' / 'debug' / 'synderive')], [S(t) for t in texts])
    return [o.strip() == 'true' for o in outs]


def rustc_cmd(ext, src, extra):
    return ['rustc', '--edition', '2021', str(src), '-L', f'dependency={TARGET19 / "debug" / "deps"}',
            '--extern', f'typeshare={ext["typeshare"]}', '--extern', f'serde={ext["serde"]}', '--extern', f'serde_json={ext["serde_json"]}',
            '-C', 'debuginfo=0', '-A', 'warnings'] + extra


def compile_alone(ext, text, workdir, name):
    """type-check ONE twin of ONE item as a crate of its own; returns (ok, stderr)"""
    src = workdir / f'{name}.rs'
    src.write_text(PRELUDE + text + '\n')
    p = subprocess.run(rustc_cmd(ext, src, ['--crate-type', 'lib', '--crate-name', 'single', '--emit=metadata', '-o', str(workdir / f'{name}.rmeta')]),
                       capture_output=True, text=True, timeout=300, env=vf.ENV)
    return p.returncode == 0, p.stderr


# ------------------------------------------------------------------ one batch = one program
def batch_source(items):
    def twin(tag, txt):
        out = [f'pub mod {tag} {{\n']
        for k, it in enumerate(items):
            out.append(f'pub mod m{k} {{\nuse super::super::*;\n{txt(it)}\n}}\n')
        out.append('}\n')
        return ''.join(out)
    main = ['fn main() {\n']
    for k, it in enumerate(items):
        for j, v in enumerate(it.values):
            va, vb = v.replace('{P}', f'a::m{k}'), v.replace('{P}', f'b::m{k}')
            ta, tb = it.ty.replace('{P}', f'a::m{k}'), it.ty.replace('{P}', f'b::m{k}')
            if it.mode in ('json', 'ser'):
                main.append(f'{{ let va: {ta} = {va}; let vb: {tb} = {vb}; let ja = ser(&va); let jb = ser(&vb);\n'
                            f'  println!("A {k}.{j} {{}}", ja); println!("B {k}.{j} {{}}", jb);\n')
                if it.mode == 'json':
                    main.append(f'  println!("RAB {k}.{j} {{}}", match serde_json::from_str::<{tb}>(&ja) {{ Ok(v) => ser(&v), Err(e) => format!("ERR {{}}", e) }});\n'
                                f'  println!("RBA {k}.{j} {{}}", match serde_json::from_str::<{ta}>(&jb) {{ Ok(v) => ser(&v), Err(e) => format!("ERR {{}}", e) }});\n')
                main.append('}\n')
            elif it.mode == 'debug':
                main.append(f'{{ let va: {ta} = {va}; let vb: {tb} = {vb}; println!("A {k}.{j} {{:?}}", va); println!("B {k}.{j} {{:?}}", vb); }}\n')
            elif it.mode == 'size':
                main.append(f'{{ let va: {ta} = {va}; let vb: {tb} = {vb}; println!("A {k}.{j} built"); println!("B {k}.{j} built"); }}\n')
            else:  # union / call: the value is an observation expression
                main.append(f'{{ println!("A {k}.{j} {{:?}}", {va}); println!("B {k}.{j} {{:?}}", {vb}); }}\n')
        if it.ty:
            ta, tb = it.ty.replace('{P}', f'a::m{k}'), it.ty.replace('{P}', f'b::m{k}')
            main.append(f'println!("A {k}.size {{}} {{}}", std::mem::size_of::<{ta}>(), std::mem::align_of::<{ta}>()); '
                        f'println!("B {k}.size {{}} {{}}", std::mem::size_of::<{tb}>(), std::mem::align_of::<{tb}>());\n')
    main.append('}\n')
    return PRELUDE + MAIN_HELPERS + twin('a', lambda it: it.a) + twin('b', lambda it: it.b) + ''.join(main)


def run_batch(args):
    """expand, compile and run one batch; returns a dict"""
    ext, idx, items, workdir = args
    src = workdir / f'batch{idx}.rs'
    src.write_text(batch_source(items))
    res = {'idx': idx, 'expanded': None, 'lines': None, 'expand_err': '', 'compile_err': '', 'run_err': ''}
    t0 = time.time()
    p = subprocess.run(rustc_cmd(ext, src, ['--crate-type', 'bin', '--crate-name', f'batch{idx}', '-Zunpretty=expanded']),
                       capture_output=True, text=True, timeout=900, env=dict(vf.ENV, RUSTC_BOOTSTRAP='1'))
    res['t_expand'] = time.time() - t0
    if p.returncode == 0:
        res['expanded'] = p.stdout
    else:
        res['expand_err'] = p.stderr[-6000:]
        return res
    t0 = time.time()
    exe = workdir / f'batch{idx}.bin'
    p = subprocess.run(rustc_cmd(ext, src, ['--crate-type', 'bin', '--crate-name', f'batch{idx}', '-C', 'opt-level=0', '-C', 'codegen-units=16', '-o', str(exe)]),
                       capture_output=True, text=True, timeout=1800, env=vf.ENV)
    res['t_compile'] = time.time() - t0
    if p.returncode != 0:
        res['compile_err'] = p.stderr[-6000:]
        return res
    p = subprocess.run([str(exe)], capture_output=True, text=True, timeout=300)
    if p.returncode != 0:
        res['run_err'] = f'rc={p.returncode} ' + p.stderr[-2000:]
    res['lines'] = p.stdout.splitlines()
    exe.unlink(missing_ok=True)
    return res


def split_lines(lines):
    """'A 3.1 text' -> {(3, '1'): {'A': text, ..}}"""
    out = {}
    for l in lines or []:
        m = re.match(r'^(A|B|RAB|RBA) (\d+)\.(\w+) ?(.*)$', l)
        if m:
            out.setdefault((int(m.group(2)), m.group(3)), {})[m.group(1)] = m.group(4)
    return out


def norm_tokens(t):
    """`\\'` and `'` spell the same character inside a string literal: the proc-macro bridge turns `/// it's` into
    `#[doc = " it\\'s"]`, rustc's own lowering of the untouched twin into `#[doc = " it's"]` (same value)"""
    return t.replace("\\'", "'")


def model_case(full_sx, parses):
    return f'(c19 {full_sx} {"true" if parses else "false"})'


def payload_of(it, **kw):
    d = {'kind': it.kind, 'mode': it.mode, 'special': it.special, 'plant': it.plant, 'text_a': it.a, 'text_b': it.b, 'type': it.ty, 'values': it.values}
    d.update(kw)
    return d


# ------------------------------------------------------------------ the check
def run(chk):
    chk.rule = ('seeded items (lib/c19gen.py): named/tuple/unit structs, enums (unit/tuple/struct variants, discriminants, four serde '
                'representations), unions, type aliases, consts, statics, fns; generics, lifetimes, defaults, inline bounds and where-clauses; exotic member types (dyn, fn and raw pointers, qualified paths, HRTB, const-expression array lengths), all visibility forms, raw identifiers; '
                'item attributes derive (split lists, before/after/between typeshare invocations), serde container attributes, repr, doc (three '
                'spellings), allow, cfg (true), cfg_attr, must_use, deprecated, non_exhaustive and 1-3 invocations (#[typeshare], with any '
                'arguments, typeshare::typeshare, ::typeshare::typeshare); member attributes serde/doc/cfg true+false/cfg_attr/allow/deprecated mixed '
                'with 0-3 typeshare helpers (16 spellings) at fields, tuple fields, variants, variant fields, variant tuple fields, union fields; '
                'twins compiled in one program per ~100 items; plus ill-typed twins, finding plants with controls, outside-domain probes. '
                'non-trivial = distinct annotated item texts carrying a helper at a member position (DeriveInput) or an invocation (other items)')
    chk.assumptions = ['syn is not modelled: the model receives the DeriveInput-level AST printed by harness/libdrive/src/derive.rs from the same item text',
                       'rustc is not modelled beyond Model/Annotation.v Part 2 (attribute-macro loop on one item; derive/cfg/cfg_attr consumed), which is '
                       'validated by this comparison only; "compiles exactly when" and "same serialised form" are observed on the generated twins, not proved',
                       'whether the annotation crate\'s syn (feature set of annotation/Cargo.toml, no "full") parses an item is answered by harness/synderive '
                       'built with that dependency line; in a build graph where another crate enables syn/full the finding class is empty']
    chk.trusted.append('rustc/cargo of the installed toolchain, serde 1.0.214 / serde_json from the offline registry (observed, not modelled)')
    chk.prepare()
    if not chk.harness_ok:
        return
    ext, msg = build_deps()
    if ext is None:
        chk.build_failures.append((f'scratch crate against {LIB} (the real macro) does not build', msg))
        return
    ok, msg = build_synderive()
    if not ok:
        chk.build_failures.append(('harness/synderive build', msg))
        return
    t_start = time.time()
    rng = chk.rng
    gen = c19gen.Gen(rng)
    quick = chk.tier == 'quick'
    n_main = 2400 if quick else 100000
    n_ill, n_known, n_ctrl, n_out = (36, 16, 8, 10) if quick else (200, 80, 30, 40)
    items = [gen.item() for _ in range(n_main)]
    specials = [gen.illtyped() for _ in range(n_ill)] + [gen.known_plant(True) for _ in range(n_known)] + \
               [gen.known_plant(False) for _ in range(n_ctrl)] + [gen.outside_plant() for _ in range(n_out)]
    everything = items + specials

    # ---- the items as written: syn view (full), the macro's own parse, the model
    asts = vf.impl([{'cmd': 'derive_ast', 'src': it.a} for it in everything])
    parses = macro_parses([it.a for it in everything])
    for it, a, p in zip(everything, asts, parses):
        it.ast, it.parses = a, p
    bad = [it for it in everything if 'ok' not in it.ast]
    if bad:
        chk.violation('generator', {'text': bad[0].a, 'answer': bad[0].ast}, 'a generated item does not parse with syn (generator defect)', no_input=True)
        return
    mres = vf.model([model_case(it.ast['ok'], it.parses) for it in everything])
    for it, m in zip(everything, mres):
        it.m = m
        it.dom = sx_get(m, 'dom') == 'true'
        it.known = vf.sx_opt(sx_get(m, 'known'))
        it.left = int(sx_get(m, 'left_expanded' if it.parses else 'left_full')[1:])

    # ---- main items: any the macro cannot parse (none expected from gen.item) are moved to the specials
    moved = [it for it in items if (not it.parses and it.ast['kind'] != 'other') or not it.dom]
    for it in moved:
        it.special = 'known' if it.ts_members else 'control'
    items = [it for it in items if it not in moved]
    specials += moved

    work = vf.tmpdir('verif-c19w-')
    batches = [items[i:i + BATCH] for i in range(0, len(items), BATCH)]
    corr_broken = []
    results = {}

    def run_all(bs):
        with concurrent.futures.ThreadPoolExecutor(max_workers=max(1, min(len(bs), vf.NPROC // 2))) as ex:
            return list(ex.map(run_batch, [(ext, idx, b, work) for idx, b in bs]))

    pending = list(enumerate(batches))
    dropped = 0
    for attempt in range(3):
        if not pending:
            break
        redo = []
        for res in run_all(pending):
            b = batches[res['idx']]
            if res['expanded'] is not None and res['lines'] is not None:
                results[res['idx']] = res
                continue
            # the program does not build: find the culprits by compiling every twin alone
            err = res['expand_err'] or res['compile_err']
            vf.log(f'[c19] batch {res["idx"]} does not build, compiling its {len(b)} items alone: {err.strip().splitlines()[0] if err.strip() else ""}')
            with concurrent.futures.ThreadPoolExecutor(max_workers=vf.NPROC) as ex:
                ra = list(ex.map(lambda kv: compile_alone(ext, kv[1].a, work, f's{res["idx"]}_{kv[0]}a'), enumerate(b)))
                rb = list(ex.map(lambda kv: compile_alone(ext, kv[1].b, work, f's{res["idx"]}_{kv[0]}b'), enumerate(b)))
            keep = []
            for it, (oka, erra), (okb, errb) in zip(b, ra, rb):
                if oka and okb:
                    keep.append(it)
                elif oka != okb:
                    chk.evaluations += 1
                    chk.violation(f'compile-{chk.evaluations}', payload_of(it, a_compiles=oka, b_compiles=okb, stderr=(erra if not oka else errb)[-1500:]),
                                  f'annotated twin {"compiles" if oka else "is rejected"} but the stripped twin {"compiles" if okb else "is rejected"}')
                else:
                    dropped += 1
                    chk.count('generator_item_illtyped_in_both_twins')
                    chk.notes.append(f'generator produced an item rejected in both twins: {errb.strip().splitlines()[0] if errb.strip() else ""}')
            if len(keep) == len(b):
                chk.violation(f'batch-{res["idx"]}', {'stderr': err[-3000:]}, 'a batch whose items all compile alone does not build as one program', no_input=True)
                keep = []
            batches[res['idx']] = keep
            if keep:
                redo.append((res['idx'], keep))
        pending = redo

    # ---- expansions of all batches: syn view of every module's first item
    idxs = sorted(results)
    exp = vf.impl([{'cmd': 'derive_ast_file', 'src': results[i]['expanded']} for i in idxs])
    obs_req, obs_key = [], []
    for i, e in zip(idxs, exp):
        results[i]['mods'] = e.get('ok')
        if 'ok' not in e:
            chk.violation(f'expansion-parse-{i}', {'error': e}, 'the expanded program does not parse with syn', no_input=True)
            continue
        for k, it in enumerate(batches[i]):
            ea = e['ok'].get('a', {}).get(f'm{k}')
            if ea and 'ok' in ea:
                obs_req.append(f'(c19_obs {ea["ok"]})')
                obs_key.append((i, k))
    obs = dict(zip(obs_key, vf.model(obs_req)))

    for i in idxs:
        res = results[i]
        if res.get('mods') is None:
            continue
        lines = split_lines(res['lines'])
        for k, it in enumerate(batches[i]):
            chk.evaluations += 1
            for c in it.counts:
                chk.count(c)
            ea, eb = res['mods'].get('a', {}).get(f'm{k}'), res['mods'].get('b', {}).get(f'm{k}')
            m = it.m
            model_sx, spec_sx = sx_get(m, 'model'), sx_get(m, 'spec')
            pay = payload_of(it, parses=it.parses)
            if model_sx == 'none':
                # the whole item is configured out: neither twin may show up
                if ea or eb:
                    chk.violation(f'{chk.evaluations}', pay, 'item configured out by cfg still appears in the expansion')
                continue
            if not ea or 'ok' not in ea or not eb or 'ok' not in eb:
                chk.violation(f'{chk.evaluations}', dict(pay, expansion_a=ea, expansion_b=eb), 'the item is missing from the expansion of one twin')
                continue
            impl_sx = parse_sx(ea['ok'])
            o = obs[(i, k)]
            of = sx_get(m, 'obs_full')[1]
            osp = sx_get(m, 'obs_spec')[1]
            good_exp = (sx_get(o, 'members') == sx_get(of, 'members') and sx_get(o, 'other_attrs') == sx_get(of, 'other_attrs')
                        and sx_get(o, 'ts_count') == 'n0' and sx_get(o, 'item_attrs') == sx_get(osp, 'item_attrs')
                        and sx_get(o, 'skeleton') == sx_get(osp, 'skeleton'))
            twin_tokens = norm_tokens(ea['tokens']) == norm_tokens(eb['tokens'])
            # behaviour
            beh_bad = []
            n_lines = 0
            for (kk, j), d in lines.items():
                if kk != k:
                    continue
                n_lines += 1
                if d.get('A') != d.get('B'):
                    beh_bad.append((j, 'A/B', d.get('A'), d.get('B')))
                if d.get('RAB') != d.get('RBA'):
                    beh_bad.append((j, 'round trip', d.get('RAB'), d.get('RBA')))
                if it.mode == 'json' and j != 'size' and ('RAB' not in d or 'RBA' not in d):
                    beh_bad.append((j, 'round trip missing', None, None))
            expect_lines = len(it.values) + (1 if it.ty else 0)
            if n_lines != expect_lines:
                beh_bad.append(('*', f'{n_lines} of {expect_lines} observation lines printed', None, None))
            good = good_exp and twin_tokens and not beh_bad
            equal = impl_sx == model_sx[1] and model_sx == spec_sx
            if it.ts_members or (it.kind in ('alias', 'const', 'static', 'fn') and it.invocations):
                chk.nontrivial.add(it.a)
            chk.count('lines_compared', n_lines)
            if chk.evaluations % 97 == 0:
                chk.sample({'kind': it.kind, 'text_a': it.a, 'expanded_tokens': ea['tokens'], 'lines': {f'{j}': d for (kk, j), d in lines.items() if kk == k}})
            if good and equal:
                chk.count('pass')
                continue
            pay.update(expansion_a=ea, expansion_b_tokens=eb['tokens'], model=dump_sx(model_sx), spec=dump_sx(spec_sx), behaviour=beh_bad,
                       good_expansion=good_exp, twin_tokens_equal=twin_tokens)
            if not good:
                what = ('expansion of the annotated item differs from its stripped twin' if not (good_exp and twin_tokens)
                        else f'twins behave differently: {beh_bad[0][1]}: {beh_bad[0][2]!r} vs {beh_bad[0][3]!r}')
                chk.violation(f'{chk.evaluations}', pay, what)
            else:
                corr_broken.append(pay)
    if res_times := [(r.get('t_expand', 0), r.get('t_compile', 0)) for r in results.values()]:
        chk.notes.append(f'{len(res_times)} batch program(s): expansion {max(t[0] for t in res_times):.1f}s, compile {max(t[1] for t in res_times):.1f}s (slowest)')

    # ---- specials: each twin compiled alone
    with concurrent.futures.ThreadPoolExecutor(max_workers=vf.NPROC) as ex:
        ra = list(ex.map(lambda kv: compile_alone(ext, kv[1].a, work, f'x{kv[0]}a'), enumerate(specials)))
        rb = list(ex.map(lambda kv: compile_alone(ext, kv[1].b, work, f'x{kv[0]}b'), enumerate(specials)))
    for it, (oka, erra), (okb, errb) in zip(specials, ra, rb):
        chk.evaluations += 1
        for c in it.counts:
            chk.count(c)
        macro_attr_err = 'expected non-macro attribute, found attribute macro' in erra
        pay = payload_of(it, parses=it.parses, dom=it.dom, known=it.known, a_compiles=oka, b_compiles=okb, model_macro_attrs_left=it.left,
                         stderr_a=erra[-1200:], stderr_b=errb[-600:])
        good = oka == okb
        # the model's prediction: A is rejected on top of B's own verdict exactly when macro attributes are left at member positions
        predicted_a = okb and it.left == 0
        equal = (oka == predicted_a) and (oka or not okb or macro_attr_err)
        if it.special == 'illtyped':
            if oka or okb:
                if oka and okb:
                    chk.violation(f'{chk.evaluations}', pay, 'generator defect: an item planted as ill-typed compiles in both twins', no_input=True)
                else:
                    chk.violation(f'{chk.evaluations}', pay, f'ill-typed item: annotated twin {"compiles" if oka else "is rejected"}, stripped twin {"compiles" if okb else "is rejected"}')
            else:
                chk.count('illtyped_both_rejected')
            continue
        if it.ts_members:
            chk.nontrivial.add(it.a)
        if not it.dom:
            chk.count('outside_domain')
            if not equal:
                corr_broken.append(pay)
            else:
                chk.count('outside_domain_rejected_as_modelled' if not oka else 'outside_domain_compiles')
            continue
        if good and equal:
            chk.count('pass')
            chk.count('control_unparsed_item_without_helper_compiles' if it.special == 'control' else 'pass_alone')
            continue
        if not good and it.known is None:
            chk.violation(f'{chk.evaluations}', pay, f'annotated twin {"compiles" if oka else "is rejected"} but the stripped twin {"compiles" if okb else "is rejected"}')
        elif not good and equal:
            if not chk.known(it.known, pay):
                chk.violation(f'{chk.evaluations}', pay, f'fails in class {it.known}, which is not an open finding')
            else:
                chk.count('known_reproduced')
        elif not good:
            chk.violation(f'{chk.evaluations}', pay, f'fails differently from what finding {it.known} predicts')
        else:
            corr_broken.append(pay)
    chk.count('dropped_generator_items', dropped)
    chk.notes.append(f'after the builds: {time.time()-t_start:.1f}s for {chk.evaluations} items')
    if corr_broken and not [v for v in chk.violations if not v[2]]:
        chk.violation('correspondence', {'correspondence': 'Model.Annotation (rustc_expand over typeshare_macro, rustc_builtin_view) vs rustc -Zunpretty=expanded through the real macro',
                                         'cases': corr_broken[:5]},
                      'model and implementation disagree although the property is not violated on any generated input', no_input=True)


def replay(chk, path):
    chk.prepare()
    d = json.load(open(path))
    ext, msg = build_deps()
    if ext is None:
        print(msg)
        return 1
    work = vf.tmpdir('verif-c19r-')
    for case in (d.get('cases') or [d]):
        if 'text_a' not in case:
            print(json.dumps(case, indent=1)[:2000])
            continue
        oka, erra = compile_alone(ext, case['text_a'], work, 'ra')
        okb, errb = compile_alone(ext, case['text_b'], work, 'rb')
        print('annotated twin compiles:', oka, '| stripped twin compiles:', okb)
        if not oka:
            print(erra[-1500:])
        if oka and okb:
            it = c19gen.Item()
            it.text, it.mode, it.ty, it.values, it.kind = case['text_a'], 'size', '', [], case.get('kind', '')
            src = work / 'r.rs'
            src.write_text(PRELUDE + 'pub mod a { pub mod m0 { use super::super::*;\n' + case['text_a'] + '\n} }\npub mod b { pub mod m0 { use super::super::*;\n' + case['text_b'] + '\n} }\nfn main() {}\n')
            p = subprocess.run(rustc_cmd(ext, src, ['--crate-type', 'bin', '-Zunpretty=expanded']), capture_output=True, text=True, env=dict(vf.ENV, RUSTC_BOOTSTRAP='1'))
            e = vf.impl([{'cmd': 'derive_ast_file', 'src': p.stdout}])[0]
            ea, eb = e['ok']['a']['m0'], e['ok']['b']['m0']
            print('expansion A:', ea['tokens'])
            print('expansion B:', eb['tokens'])
            print('equal:', ea['tokens'] == eb['tokens'])
    return 0
