"""C20 - CLI options override typeshare.toml; generated config files round-trip.
Proof: Props/C20.v (generate_types / generate_config = the specification built from
effective(cli, file, default); wiring of language(); store never overwrites; store-then-load under
the toml round-trip hypothesis; -c wins; nearest ancestor; the discovery loop terminates).
Correspondence: the REAL BINARY.  Every case gets a fresh directory with a small Rust source, a
chain of nested directories (cwd at depth 0-3), configuration files (generated TOML text) at
ancestor levels and/or named by -c, and a command line; the settings the binary used are read back
from the generated code (prefixes, package lines, mapped type names, decorators, generic
constraints, CodableVoid constraints, acronyms, pointer slices, target_os) or from the TOML that -g
wrote, and compared with the specification (good) and with the model (correspondence)."""
import concurrent.futures, itertools, json, os, pathlib, random, re, subprocess, tomllib
import vf
from vf import S, O, Lst, B, sx_get, unS

LANGS = ['swift', 'kotlin', 'scala', 'typescript', 'go', 'python']
EXT = {'swift': 'swift', 'kotlin': 'kt', 'scala': 'scala', 'typescript': 'ts', 'go': 'go', 'python': 'py'}
# option name -> (table, key) it overrides and its spellings
SETTINGS = {
    'swift_prefix': ('swift', 'prefix', ['-s', '--swift-prefix']),
    'kotlin_prefix': ('kotlin', 'prefix', ['-k', '--kotlin-prefix']),
    'java_package': ('kotlin', 'package', ['-j', '--java-package']),
    'kotlin_module_name': ('kotlin', 'module_name', ['-m', '--module-name']),
    'scala_package': ('scala', 'package', ['--scala-package']),
    'scala_module_name': ('scala', 'module_name', ['--scala-module-name']),
    'go_package': ('go', 'package', ['--go-package']),
}
OPT_ORDER = ['swift_prefix', 'kotlin_prefix', 'java_package', 'kotlin_module_name', 'scala_package', 'scala_module_name', 'go_package']
MAIN5 = ['swift_prefix', 'kotlin_prefix', 'java_package', 'scala_package', 'go_package']
LANG_OF = {'swift_prefix': 'swift', 'kotlin_prefix': 'kotlin', 'java_package': 'kotlin', 'scala_package': 'scala', 'go_package': 'go'}
KEYS = {  # table -> [(key, kind)] in the order of the driver's S-expression
    'swift': [('prefix', 's'), ('default_decorators', 'l'), ('default_generic_constraints', 'l'), ('codablevoid_constraints', 'l'), ('type_mappings', 'm')],
    'typescript': [('type_mappings', 'm')],
    'kotlin': [('package', 's'), ('module_name', 's'), ('prefix', 's'), ('type_mappings', 'm')],
    'scala': [('package', 's'), ('module_name', 's'), ('type_mappings', 'm')],
    'python': [('type_mappings', 'm')],
    'go': [('package', 's'), ('uppercase_acronyms', 'l'), ('no_pointer_slice', 'b'), ('type_mappings', 'm')],
}
TABLES = ['swift', 'typescript', 'kotlin', 'scala', 'python', 'go']
MAPKEYS = ['Kx0', 'Kx1', 'Kx2', 'Kx3']
ACRONYMS = {'ID': ('user_id', 'UserId', 'UserID'), 'URL': ('home_url', 'HomeUrl', 'HomeURL'),
            'API': ('api_key', 'ApiKey', 'APIKey'), 'HTTP': ('http_port', 'HttpPort', 'HTTPPort')}
PROTOCOLS = ['Sendable', 'Identifiable', 'Hashable', 'Equatable', 'Comparable', 'CustomStringConvertible']
OS_NAME = 'zos'

SOURCE = '''use typeshare::typeshare;

#[typeshare]
pub struct Zq9Inner { pub a: u8 }

#[typeshare]
pub struct Zq9Outer {
    pub inner: Zq9Inner,
    pub ma: Kx0,
    pub mb: Kx1,
    pub mc: Kx2,
    pub md: Kx3,
    pub user_id: u8,
    pub home_url: u8,
    pub api_key: u8,
    pub http_port: u8,
    pub opt_vec: Option<Vec<u8>>,
    pub unit: (),
}

#[typeshare]
pub struct Zq9Gen<T> { pub x: T }

#[typeshare]
#[cfg(target_os = "zos")]
pub struct Zq9Os { pub a: u8 }
'''

ENV = dict(os.environ, RUST_BACKTRACE='0', NO_COLOR='1')


# ------------------------------------------------------------------ value generators
def ident(rng, first='ABCDEFGHJKLMNPQRSTUVWXYZ', n=(1, 6)):
    return rng.choice(first) + ''.join(rng.choice('abcdefghijkmnopqrstuvwxyz0123456789_') for _ in range(rng.randint(*n)))


def prefix_value(rng):
    r = rng.random()
    if r < 0.06:
        return ''
    if r < 0.12:
        return rng.choice(['Ä', 'Ω', 'Й']) + ident(rng)
    return ident(rng)


def package_value(rng, dotted=None):
    r = rng.random()
    if r < 0.06 and dotted is None:
        return ''
    parts = [ident(rng, 'abcdefghijkmnopqrstuvwxyz', (1, 4)) for _ in range(rng.choice([1, 2, 2, 3]) if dotted is None else (rng.choice([2, 3]) if dotted else 1))]
    return '.'.join(parts)


def nasty(rng):
    alpha = ['a', 'B', '7', '_', ' ', '"', "'", '\\', '#', '=', '[', ']', '.', ',', '{', '}', 'é', '日', '\t', '😀', '$', '-', '/', '\n', '\x7f', '\x01']
    return ''.join(rng.choice(alpha) for _ in range(rng.randint(0, 8)))


def setting_value(rng, name, other=None):
    for _ in range(50):
        if name.endswith('prefix'):
            v = prefix_value(rng)
        elif name == 'scala_package':
            v = package_value(rng, dotted=None if rng.random() < 0.25 else True)
        elif name == 'go_package':
            v = package_value(rng, dotted=False) if rng.random() > 0.06 else ''
        elif name.endswith('module_name'):
            v = ident(rng, 'abcdefgh')
        else:
            v = package_value(rng)
        if v != other:
            return v
    return v + 'x'


def rand_map(rng):
    ks = [k for k in MAPKEYS if rng.random() < 0.5]
    rng.shuffle(ks)
    return {k: 'V' + ident(rng, 'abcdefgh') for k in ks}


def rand_list(rng, pool, dup=0.15):
    xs = [p for p in pool if rng.random() < 0.4]
    rng.shuffle(xs)
    if xs and rng.random() < dup:
        xs.append(rng.choice(xs))
    return xs


def rand_tables(rng, density=0.5):
    """random file-only settings (and none of the seven overridable keys)"""
    pc = {}
    for t in TABLES:
        if rng.random() < 0.25:
            continue
        tab = {}
        for k, kind in KEYS[t]:
            if (t, k) in [(a, b) for a, b, _ in SETTINGS.values()] or rng.random() > density:
                continue
            if kind == 'm':
                tab[k] = rand_map(rng)
            elif k == 'uppercase_acronyms':
                tab[k] = rand_list(rng, ['ID', 'URL', 'API', 'HTTP', 'id', 'Url', 'JSON'])
            elif kind == 'l':
                tab[k] = rand_list(rng, PROTOCOLS + [ident(rng)])
            elif kind == 'b':
                tab[k] = rng.random() < 0.5
        pc[t] = tab
    return pc


# ------------------------------------------------------------------ TOML text
def toml_str(s, rng):
    if rng.random() < 0.3 and "'" not in s and all(ord(c) >= 0x20 and ord(c) != 0x7f for c in s):
        return "'" + s + "'"
    out = ['"']
    for c in s:
        if c == '"':
            out.append('\\"')
        elif c == '\\':
            out.append('\\\\')
        elif c == '\n':
            out.append('\\n')
        elif c == '\t':
            out.append('\\t')
        elif ord(c) < 0x20 or ord(c) == 0x7f:
            out.append('\\u%04x' % ord(c))
        else:
            out.append(c)
    return ''.join(out) + '"'


def toml_text(pc, rng, noise=True):
    """TOML text for a partial configuration: table order, key order, string quoting, inline vs
    header tables and unknown keys vary; what it says is exactly pc."""
    lines = []
    tabs = list(pc)
    rng.shuffle(tabs)
    if noise and rng.random() < 0.2:
        lines.append('# generated for the C20 check')
    if noise and rng.random() < 0.25:
        # a stray top-level target_os key in the FILE: the target list comes from the command line only (theorem
        # C20_target_os_from_options_only), so it must change nothing (seeded C13_g: the key deserialised and used when
        # --target-os is absent: cfg-guarded items silently dropped)
        lines.append('target_os = ["linux", "ios"]')
    for t in tabs:
        tab = pc[t]
        scal = [(k, v) for k, v in tab.items() if not isinstance(v, dict)]
        maps = [(k, v) for k, v in tab.items() if isinstance(v, dict)]
        rng.shuffle(scal)
        inline = [m for m in maps if rng.random() < 0.3]
        header = [m for m in maps if m not in inline]
        if scal or inline or not header or rng.random() < 0.5:
            lines.append(f'[{t}]')
            for k, v in scal:
                if isinstance(v, bool):
                    lines.append(f'{k} = {"true" if v else "false"}')
                elif isinstance(v, list):
                    lines.append(f'{k} = [{", ".join(toml_str(x, rng) for x in v)}]')
                else:
                    lines.append(f'{k} = {toml_str(v, rng)}')
            if noise and rng.random() < 0.1:
                lines.append('unknown_key_for_c20 = 1')
            for k, v in inline:
                lines.append(f'{k} = {{ {", ".join(toml_str(a, rng) + " = " + toml_str(b, rng) for a, b in v.items())} }}')
        for k, v in header:
            lines.append('')
            lines.append(f'[{t}.{k}]')
            for a, b in v.items():
                lines.append(f'{toml_str(a, rng) if rng.random() < 0.7 else a} = {toml_str(b, rng)}')
        lines.append('')
    if noise and rng.random() < 0.1:
        lines.append('[unknown_table_for_c20]\nx = "y"\n')
    return '\n'.join(lines) + '\n'


# ------------------------------------------------------------------ S-expressions for the driver
def pc_sx(pc):
    out = []
    for t in TABLES:
        if t not in pc:
            out.append('none')
            continue
        ks = []
        for k, kind in KEYS[t]:
            if k not in pc[t]:
                ks.append('none')
            elif kind == 's':
                ks.append(f'(some {S(pc[t][k])})')
            elif kind == 'l':
                ks.append(f'(some {Lst(pc[t][k], S)})')
            elif kind == 'b':
                ks.append(f'(some {B(pc[t][k])})')
            else:
                ks.append('(some (' + ' '.join(f'({S(a)} {S(b)})' for a, b in pc[t][k].items()) + '))')
        out.append(f'(some ({" ".join(ks)}))')
    return '(' + ' '.join(out) + ')'


def sx_pc(x):
    """pconfig S-expression (parsed) -> dict"""
    pc = {}
    for t, tx in zip(TABLES, x):
        if tx == 'none':
            continue
        tab = {}
        for (k, kind), kx in zip(KEYS[t], tx[1]):
            if kx == 'none':
                continue
            v = kx[1]
            tab[k] = unS(v) if kind == 's' else [unS(a) for a in v] if kind == 'l' else (v == 'true') if kind == 'b' else {unS(a): unS(b) for a, b in v}
        pc[t] = tab
    return pc


def opts_sx(o):
    cf = o.get('config_file')
    cfx = 'none' if cf is None else f'(some ({cf[0]} {Lst(cf[1], S)}))'
    return '(' + ' '.join([O(o.get('lang'), lambda l: l)] + [O(o.get(n)) for n in OPT_ORDER] +
                          [cfx, B(o.get('generate', False)), 'false', O(o.get('target_os'), lambda t: Lst(t, S))]) + ')'


def fs_sx(files):
    """files: [(abs components, pconfig dict | None)]"""
    return '(' + ' '.join(f'({Lst(p, S)} {"none" if c is None else "(some " + pc_sx(c) + ")"})' for p, c in files) + ')'


def backend_of_sx(x):
    k = x[0]
    m = lambda a: {unS(p): unS(q) for p, q in a}
    l = lambda a: [unS(p) for p in a]
    if k == 'swift':
        return {'lang': k, 'prefix': unS(x[1]), 'tm': m(x[2]), 'decorators': l(x[3]), 'constraints': l(x[4]), 'multi': x[5] == 'true', 'cv': l(x[6])}
    if k == 'kotlin':
        return {'lang': k, 'package': unS(x[1]), 'module_name': unS(x[2]), 'prefix': unS(x[3]), 'tm': m(x[4])}
    if k == 'scala':
        return {'lang': k, 'package': unS(x[1]), 'module_name': unS(x[2]), 'tm': m(x[3])}
    if k == 'go':
        return {'lang': k, 'package': unS(x[1]), 'tm': m(x[2]), 'acronyms': l(x[3]), 'nps': x[4] == 'true'}
    return {'lang': k, 'tm': m(x[1])}


def outcome_of_sx(x):
    if x[0] == 'ok':
        return ('ok', backend_of_sx(x[1]), [unS(t) for t in x[2]])
    return (x[0], x[1])


# ------------------------------------------------------------------ the observable projection
def view(outcome):
    """What of a predicted outcome can be seen in the generated code (the same shape observe() returns)."""
    if outcome[0] != 'ok':
        return {'error': outcome[1]}
    b, tos = outcome[1], outcome[2]
    lang = b['lang']
    v = {'lang': lang, 'os_item': (not tos) or (OS_NAME in tos)}
    if lang == 'scala':
        if b['package'] == '':
            return {'error': 'EScalaPackageMissing'}      # Scala::begin_file refuses the empty package: Err(InvalidInput) since the /repo fix of scala.rs:131
        v['package'] = b['package']     # since fix 30 of /repo a name without a dot is written too (`package object p {` / `package p {`)
    if lang in ('kotlin', 'go'):
        v['package'] = b['package']
    if lang in ('swift', 'kotlin'):
        v['prefix'] = b['prefix']
    v['tm'] = {k: x for k, x in b['tm'].items() if k in MAPKEYS}
    if lang == 'swift':
        v['decorators'] = b['decorators']
        v['constraints'] = sorted(set(['Codable'] + b['constraints']))     # GenericConstraints::from_config: a BTreeSet with Codable
        v['cv'] = b['cv']
    if lang == 'go':
        v['acronyms'] = sorted({a.upper() for a in b['acronyms']} & set(ACRONYMS))
        v['nps'] = b['nps']
    return v


def field_type(lang, text, name):
    pat = {'swift': rf'^\tpublic let {name}: (.+)$', 'kotlin': rf'^\tval {name}: (.+?),?$', 'scala': rf'^\t{name}: (.+?),?$',
           'typescript': rf'^\t{name}: (.+);$', 'python': rf'^    {name}: (.+)$',
           'go': rf'^\t\w+ (.+) `json:"{name}(?:,omitempty)?"`$'}[lang]
    m = re.search(pat, text, re.M)
    return m.group(1) if m else None


def observe(lang, rc, err, text):
    if rc != 0:
        if 'Please provide a package name in the typeshare.toml or using --go-package' in err:
            return {'error': 'EGoPackageMissing'}
        if 'Unable to read configuration file' in err:
            return {'error': 'EConfigParse' if 'TOML parse error' in err else 'EConfigRead'}
        if 'File exists' in err:
            return {'error': 'EConfigExists'}
        if rc == 1 and 'typeshare failed to generate types: a package name must be provided for Scala' in err and 'panicked at' not in err:
            return {'error': 'EScalaPackageMissing'}      # exit 1 + diagnostic (was panic!("package name must be provided"), exit 101: C07-scala.rs:131, fixed)
        return {'unrecognised_failure': rc, 'stderr': err[-400:]}
    if text is None:
        return {'unrecognised_failure': 'no output file'}
    v = {'lang': lang, 'os_item': 'Zq9Os' in text}
    prefix = ''
    if lang in ('swift', 'kotlin'):
        m = re.search(r'^public struct (\w*)Zq9Inner: ' if lang == 'swift' else r'^data class (\w*)Zq9Inner \($', text, re.M)
        ref = field_type(lang, text, 'inner')
        if not m or ref is None or ref != m.group(1) + 'Zq9Inner':
            return {'unrecognised_output': 'prefix', 'definition': m.group(0) if m else None, 'reference': ref}
        prefix = v['prefix'] = m.group(1)
    if lang == 'kotlin':
        m = re.search(r'^package (.*)$', text, re.M)
        v['package'] = m.group(1) if m else ''
    if lang == 'go':
        m = re.search(r'^package (.*)$', text, re.M)
        v['package'] = m.group(1) if m else None
    if lang == 'scala':
        m = re.search(r'^package (\S+)\n\npackage object (\S+) \{$', text, re.M)
        m2 = re.search(r'^package (\S+) \{$', text, re.M)
        if m and m2 and m2.group(1) == m.group(2):
            v['package'] = m.group(1) + '.' + m.group(2)
        elif not m:
            # a package name without a dot: no `package <parent>` line, the package object and the packaging carry the whole name
            mo = re.search(r'^package object (\S+) \{$', text, re.M)
            if mo and m2 and mo.group(1) == m2.group(1) and not re.search(r'^package \S+$', text, re.M):
                v['package'] = mo.group(1)
            else:
                return {'unrecognised_output': 'scala package lines'}
        else:
            return {'unrecognised_output': 'scala package lines'}
    tm = {}
    for i, k in enumerate(MAPKEYS):
        t = field_type(lang, text, 'm' + 'abcd'[i])
        if t is None:
            return {'unrecognised_output': 'field m' + 'abcd'[i]}
        if t != prefix + k:
            tm[k] = t
    v['tm'] = tm
    if lang == 'swift':
        m = re.search(r'^public struct \w*Zq9Outer: (.*) \{$', text, re.M)
        g = re.search(r'^public struct \w*Zq9Gen<T: (.*?)>: ', text, re.M)
        c = re.search(r'^public struct CodableVoid: (.*) \{\}$', text, re.M)
        if not (m and g and c):
            return {'unrecognised_output': 'swift decorator lines'}
        decs = m.group(1).split(', ')
        cvs = c.group(1).split(', ')
        if decs[0] != 'Codable' or cvs[:len(decs)] != decs:
            return {'unrecognised_output': 'swift decorators', 'struct': decs, 'codablevoid': cvs}
        v['decorators'] = decs[1:]
        v['constraints'] = g.group(1).split(' & ')
        v['cv'] = cvs[len(decs):]
    if lang == 'go':
        acr = []
        for a, (field, plain, upper) in ACRONYMS.items():
            m = re.search(rf'^\t(\w+) \S+ `json:"{field}"`$', text, re.M)
            if not m or m.group(1) not in (plain, upper):
                return {'unrecognised_output': f'go field {field}'}
            if m.group(1) == upper:
                acr.append(a)
        v['acronyms'] = sorted(acr)
        t = field_type(lang, text, 'opt_vec')
        if t not in ('*[]int', '[]int'):
            return {'unrecognised_output': 'go opt_vec', 'type': t}
        v['nps'] = t == '[]int'
    return v


# ------------------------------------------------------------------ running the binary
def cli_args(o, rng_choice, out, src):
    """the argument vector for an options dict; spelling (short/long, = or separate) from rng_choice"""
    a = []
    if o.get('generate'):
        a.append(rng_choice(['-g', '--generate-config']))
    if o.get('lang'):
        a += [rng_choice(['-l', '--lang']), o['lang']]
    for n in OPT_ORDER:
        if o.get(n) is not None:
            sp = rng_choice(SETTINGS[n][2])
            v = o[n]
            if sp.startswith('--') and (v.startswith('-') or rng_choice([True, False])):
                a.append(f'{sp}={v}')
            elif v.startswith('-'):
                a.append(f'{sp}{v}')
            else:
                a += [sp, v]
    if o.get('config_arg') is not None:
        a += [rng_choice(['-c', '--config-file']), o['config_arg']]
    if not o.get('generate'):
        a += [rng_choice(['-o', '--output-file']), out]
    if o.get('target_os') is not None:
        a += [rng_choice(['-t', '--target-os'])] + o['target_os'] + ['--']
    a.append(src)
    return a


def run_cli(args, cwd):
    try:
        p = subprocess.run(['timeout', '30', str(vf.TYPESHARE)] + args, cwd=cwd, capture_output=True, env=ENV, timeout=60)
        return p.returncode, p.stderr.decode('utf-8', 'replace')
    except subprocess.TimeoutExpired:
        return 124, 'timeout'


def read(p):
    try:
        return pathlib.Path(p).read_text()
    except OSError:
        return None


CHAIN = ['l1', 'l2', 'l3']


class Case:
    """One scenario in its own directory. files: [(relative components, content)], content = pconfig dict,
    ('raw', text) for text toml rejects, or 'dir'.  Steps are generation runs [(options, lang)]."""

    def __init__(self, cid, kind, depth, files, rng, base):
        self.cid, self.kind, self.depth, self.files = cid, kind, depth, files
        self.root = base / f'c{cid:06d}'
        self.cwd = self.root.joinpath(*CHAIN[:depth])
        self.seed = rng.getrandbits(32)
        self.texts = {}
        for rel, c in files:
            if isinstance(c, dict):
                self.texts[tuple(rel)] = toml_text(c, rng)
            elif c != 'dir':
                self.texts[tuple(rel)] = c[1]

    def setup(self):
        (self.root / 'src').mkdir(parents=True)
        (self.root / 'src' / 'a.rs').write_text(SOURCE)
        self.cwd.mkdir(parents=True, exist_ok=True)
        for rel, c in self.files:
            p = self.root.joinpath(*rel)
            if c == 'dir':
                p.mkdir(parents=True)
            else:
                p.parent.mkdir(parents=True, exist_ok=True)
                p.write_text(self.texts[tuple(rel)])

    def comps(self, rel):
        return list(self.root.parts[1:]) + list(rel)

    def model_fs(self, extra=()):
        out = [(self.comps(rel), c if isinstance(c, dict) else None) for rel, c in self.files if c != 'dir']
        return list(extra) + out

    def cwd_comps(self):
        return self.comps(CHAIN[:self.depth])

    def resolve_config_arg(self, o):
        """fill o['config_arg'] (what is typed) from o['config_file'] = ('abs'|'rel', components relative to root|cwd)"""
        cf = o.get('config_file')
        if cf is None:
            return o
        o = dict(o)
        if cf[0] == 'abs':
            o['config_arg'] = str(self.root.joinpath(*cf[1]))
            o['config_file'] = ('abs', self.comps(cf[1]))
        else:
            o['config_arg'] = os.path.join(*cf[1])
        return o


def pick(seed):
    return random.Random(seed).choice


def exec_generate(case, steps):
    """steps: [(options, lang)] -> [(exit code, observation)]"""
    res = []
    for i, (o, lang) in enumerate(steps):
        out = case.root / f'out{i}.{EXT[lang]}'
        rc, err = run_cli(cli_args(o, pick(case.seed + i), str(out), str(case.root / 'src')), case.cwd)
        res.append((rc, observe(lang, rc, err, read(out))))
    return res


# ------------------------------------------------------------------ the check
def run(chk):
    chk.rule = ('A: the full {option absent, present} x {key absent, present} matrix over swift-prefix, kotlin-prefix, java-package, scala-package, '
                'go-package (all 1024 joint combinations, each run for swift, kotlin, scala, go; thorough: several value draws per combination), cwd at '
                'depth 0-3, the file at a rotating ancestor level or named by -c (absolute/relative), distinct cli/file values incl. empty strings; '
                'B: random tables of file-only settings (type_mappings for 6 languages, default_decorators, default_generic_constraints, '
                'codablevoid_constraints, uppercase_acronyms, no_pointer_slice) under random command lines, all 6 languages, --target-os; '
                'C: -g with random options (identifier-like or hostile strings: quotes, backslashes, unicode, control characters) to typeshare.toml or '
                'a -c path: emitted TOML parsed with tomllib and compared, second -g must fail and leave the bytes, reload through -c/discovery and '
                'generate, compared with the direct run; -g onto an existing foreign file; -g -l go without package; '
                'D: discovery: files at several ancestor levels, a directory named typeshare.toml, unparsable/ill-typed nearest file, -c to a missing '
                'file, -c against ancestors. TOML text varies (table/key order, quoting, inline tables, unknown keys). '
                'non-trivial = distinct (kind, language, options, file contents, location) where some setting is given on the command line or in a file')
    chk.assumptions = [
        'toml is not modelled: Section/forall hypothesis toml_roundtrip (parse (ser c) then fill = c up to target_os); discharged empirically here on every emitted and every generated table',
        'clap is not modelled: the options record is what the check typed (short/long spellings, = and separate values are varied)',
        'kotlin/scala module_name never reaches generated code (the back ends do not read it): observable only through the TOML written by -g',
        'Scala prints no package line for a package without a dot and refuses the empty package (exit 1, "a package name must be provided for Scala ..": the /repo fix of the panic at scala.rs:131); the observation distinguishes only {empty, dotless, exact dotted value}',
        'the file system model has files only: a directory named typeshare.toml is "not a file"; parents of the -g target exist; no typeshare.toml above the temporary directory (checked)',
        'single-file output (-o) only; multi_file is carried by the model but not exercised',
    ]
    chk.prepare(need_cli=True, need_harness=False)
    if not chk.cli_ok:
        return
    rng = chk.rng
    base = vf.tmpdir('verif-c20-')
    base = pathlib.Path(os.path.realpath(base))
    for anc in [base] + list(base.parents):
        if (anc / 'typeshare.toml').exists():
            chk.violation('environment', {'correspondence': 'temporary directory has a typeshare.toml above it', 'path': str(anc)},
                          'cannot observe discovery: a typeshare.toml exists above the temporary directory', no_input=True)
            return
    thorough = chk.tier == 'thorough'
    cases = []          # (case, steps, meta)
    gcases = []
    cid = itertools.count()

    def place(depth, pc, mode):
        """where the configuration lives. mode: 'none' | ('level', j) | 'c-abs' | 'c-rel'. returns (files, config_file)"""
        if mode == 'none':
            return [], None
        if mode == 'c-abs':
            return [(['conf', 'custom.toml'], pc)], ('abs', ['conf', 'custom.toml'])
        if mode == 'c-rel':
            return [(CHAIN[:depth] + ['sub', 'my.toml'], pc)], ('rel', ['sub', 'my.toml'])
        return [(CHAIN[:mode[1]] + ['typeshare.toml'], pc)], None

    # ---- A: the matrix
    draws = 10 if thorough else 1
    combos = list(itertools.product(range(32), range(32)))
    for d in range(draws):
        for n, (cm, fm) in enumerate(combos):
            o, pc = {}, {}
            for i, name in enumerate(MAIN5):
                t, k, _ = SETTINGS[name]
                fv = None
                if fm >> i & 1:
                    fv = setting_value(rng, name)
                    pc.setdefault(t, {})[k] = fv
                if cm >> i & 1:
                    o[name] = setting_value(rng, name, other=fv)
            depth = (n + d) % 4
            if fm == 0:
                mode = rng.choice(['none', 'none', ('level', rng.randint(0, depth)), 'c-abs'])
                if mode != 'none' and rng.random() < 0.5:
                    pc = {t: {} for t in TABLES if rng.random() < 0.5}      # a file that says nothing about the five
            else:
                mode = rng.choice([('level', rng.randint(0, depth))] * 4 + ['c-abs', 'c-rel'])
            if rng.random() < 0.3:
                extra = rand_tables(rng, 0.3)
                for t, tab in extra.items():
                    pc.setdefault(t, {}).update(tab)
            files, cf = place(depth, pc, mode) if (mode != 'none') else ([], None)
            c = Case(next(cid), 'A', depth, files, rng, base)
            o['config_file'] = cf
            steps = []
            for lang in ('swift', 'kotlin', 'scala', 'go'):
                steps.append((c.resolve_config_arg(dict(o, lang=lang)), lang))
            cases.append((c, steps, {'cli_mask': cm, 'file_mask': fm, 'mode': str(mode)}))

    # ---- B: file-only tables under random command lines
    for n in range(8000 if thorough else 400):
        pc = rand_tables(rng, 0.6)
        o = {}
        for name in OPT_ORDER:
            t, k, _ = SETTINGS[name]
            if rng.random() < 0.3:
                pc.setdefault(t, {})[k] = setting_value(rng, name)
            if rng.random() < 0.3:
                o[name] = setting_value(rng, name, other=pc.get(t, {}).get(k))
        for name in ('scala_package', 'go_package'):      # mostly give Scala and Go a package, so that their tables are observable
            t, k, _ = SETTINGS[name]
            if not (o.get(name) or (o.get(name) is None and pc.get(t, {}).get(k))) and rng.random() < 0.85:
                v = package_value(rng, dotted=(name == 'scala_package'))
                if rng.random() < 0.5:
                    o[name] = v
                else:
                    pc.setdefault(t, {})[k] = v
        if rng.random() < 0.4:
            o['target_os'] = rand_list(rng, [OS_NAME, 'linux', 'ios'], 0) or [rng.choice([OS_NAME, 'linux'])]
        depth = rng.randint(0, 3)
        mode = rng.choice([('level', rng.randint(0, depth))] * 3 + ['c-abs', 'c-rel'])
        files, cf = place(depth, pc, mode)
        c = Case(next(cid), 'B', depth, files, rng, base)
        o['config_file'] = cf
        steps = [(c.resolve_config_arg(dict(o, lang=lang)), lang) for lang in LANGS]
        cases.append((c, steps, {'mode': str(mode)}))

    # ---- D: discovery
    for n in range(4000 if thorough else 400):
        depth = rng.randint(0, 3)
        files = []
        for j in range(depth + 1):
            r = rng.random()
            rel = CHAIN[:j] + ['typeshare.toml']
            if r < 0.35:
                files.append((rel, {'swift': {'prefix': f'Lvl{j}' + ident(rng, 'abc', (0, 2))}, 'kotlin': {'package': f'lvl{j}.pkg'}}))
            elif r < 0.45:
                files.append((rel, 'dir'))
            elif r < 0.52:
                files.append((rel, ('raw', rng.choice(['[swift\n', '[swift]\nprefix = 3\n', 'swift = "x"\n', '[swift]\nprefix = "a"\nprefix = "b"\n',
                                                       '[go]\nno_pointer_slice = "yes"\n', '[kotlin]\ntype_mappings = ["a"]\n', '\x00']))))
            elif r < 0.57:
                files.append((rel, {}))
        cf = None
        r = rng.random()
        if r < 0.2:
            files.append((['conf', 'custom.toml'], {'swift': {'prefix': 'Explicit'}, 'kotlin': {'package': 'explicit.pkg'}}))
            cf = ('abs', ['conf', 'custom.toml'])
        elif r < 0.3:
            files.append((CHAIN[:depth] + ['sub', 'my.toml'], {'swift': {'prefix': 'ExplicitRel'}}))
            cf = ('rel', ['sub', 'my.toml'])
        elif r < 0.36:
            cf = ('abs', ['conf', 'missing.toml'])
        elif r < 0.40:
            files.append((['conf', 'bad.toml'], ('raw', 'swift = [')))
            cf = ('abs', ['conf', 'bad.toml'])
        c = Case(next(cid), 'D', depth, files, rng, base)
        o = {'config_file': cf}
        if rng.random() < 0.2:
            o['swift_prefix'] = 'Cli' + ident(rng, 'abc', (0, 2))
        steps = [(c.resolve_config_arg(dict(o, lang=lang)), lang) for lang in ('swift', 'kotlin')]
        cases.append((c, steps, {'levels': [(len(rel) - 1, 'dir' if x == 'dir' else 'raw' if isinstance(x, tuple) else 'toml') for rel, x in files]}))

    # ---- C: -g
    for n in range(3000 if thorough else 300):
        hostile = rng.random() < 0.35
        o = {'generate': True}
        for name in OPT_ORDER:
            if rng.random() < 0.5:
                o[name] = nasty(rng) if hostile else setting_value(rng, name)
        if rng.random() < 0.25:
            o['lang'] = rng.choice(LANGS)
        if rng.random() < 0.3:
            o['target_os'] = [rng.choice([OS_NAME, 'linux'])]
        depth = rng.randint(0, 3)
        where = rng.choice(['default', 'default', 'c-abs', 'c-rel'])
        pre = None
        files = []
        cf = None
        if where == 'c-abs':
            cf = ('abs', ['conf', 'gen.toml'])
            files.append((['conf', 'keep'], ('raw', '')))         # the parent directory exists
        elif where == 'c-rel':
            cf = ('rel', ['gen.toml'])
        if rng.random() < 0.15:                                    # the target already exists with foreign content
            pre = rng.choice([{'swift': {'prefix': 'Old'}}, ('raw', 'not toml at all [')])
            files.append(((['conf', 'gen.toml'] if where == 'c-abs' else CHAIN[:depth] + (['gen.toml'] if where == 'c-rel' else ['typeshare.toml'])), pre))
        if rng.random() < 0.3 and depth > 0 and where == 'default':  # an ancestor's file must not disturb -g
            files.append((['typeshare.toml'], {'swift': {'prefix': 'Ancestor'}, 'go': {'package': 'ancestor'}}))
        c = Case(next(cid), 'C', depth, files, rng, base)
        o['config_file'] = cf
        o = c.resolve_config_arg(o)
        o2 = {'generate': True, 'config_file': cf}
        for name in OPT_ORDER:
            if rng.random() < 0.4:
                o2[name] = setting_value(rng, name)
        o2 = c.resolve_config_arg(o2)
        langs = [l for l in LANGS if rng.random() < 0.5] or ['swift']
        if hostile:     # hostile strings defeat the line-based extractors: the TOML is the observation; reload only shows the file loads
            langs = [rng.choice(['typescript', 'python'])]
        gcases.append((c, o, o2, langs, hostile, pre, where))

    chk.count('cases_A', sum(1 for c in cases if c[0].kind == 'A'))
    chk.count('cases_B', sum(1 for c in cases if c[0].kind == 'B'))
    chk.count('cases_D', sum(1 for c in cases if c[0].kind == 'D'))
    chk.count('cases_C_generate_config', len(gcases))

    # ---- run the binary
    def job(item):
        c, steps, meta = item
        c.setup()
        return exec_generate(c, steps)

    def target_of(c, where):
        return c.root / 'conf' / 'gen.toml' if where == 'c-abs' else c.cwd / ('gen.toml' if where == 'c-rel' else 'typeshare.toml')

    def gjob(item):
        c, o, o2, langs, hostile, pre, where = item
        c.setup()
        target = target_of(c, where)
        before = target.read_bytes() if target.exists() else None
        src = str(c.root / 'src')
        r1 = run_cli(cli_args(o, pick(c.seed), None, src), c.cwd)
        after1 = target.read_bytes() if target.exists() else None
        r2 = run_cli(cli_args(o2, pick(c.seed + 1), None, src), c.cwd)
        after2 = target.read_bytes() if target.exists() else None
        reload, direct = [], []
        if r1[0] == 0 and after1 is not None:
            # reload: name the same location, give no setting option
            ro = {'config_file': o.get('config_file'), 'config_arg': o.get('config_arg')}
            reload = exec_generate(c, [(dict(ro, lang=l), l) for l in langs])
            # direct: the same command line as -g, generating, in a directory without any configuration
            d = Case(c.cid, 'C-direct', 0, [], random.Random(c.seed), base)
            d.root = d.cwd = base / f'd{c.cid:06d}'
            (d.root / 'src').mkdir(parents=True)
            (d.root / 'src' / 'a.rs').write_text(SOURCE)
            do = {k: v for k, v in o.items() if k in OPT_ORDER}
            direct = exec_generate(d, [(dict(do, lang=l), l) for l in langs])
        return before, r1, after1, r2, after2, reload, direct

    with concurrent.futures.ThreadPoolExecutor(max_workers=vf.NPROC) as ex:
        results = list(ex.map(job, cases))
        gresults = list(ex.map(gjob, gcases))

    # ---- the model's and the specification's predictions
    reqs = []
    for c, steps, meta in cases:
        fs = fs_sx(c.model_fs())
        for o, lang in steps:
            reqs.append(f'(c20_gen {fs} {Lst(c.cwd_comps(), S)} {opts_sx(o)})')
    answers = iter(vf.model(reqs))

    corr_broken = []

    def judge(name, obs, ans, payload, nontrivial_key):
        """verdict logic of DESIGN section 7 for one observation"""
        chk.evaluations += 1
        spec = view(outcome_of_sx(sx_get(ans, 'spec')))
        mod = view(outcome_of_sx(sx_get(ans, 'model')))
        payload = dict(payload, observed=obs, specification=spec, model=mod)
        if sx_get(ans, 'loop_agrees') != 'true' or sx_get(ans, 'found') != sx_get(ans, 'nearest'):
            chk.violation(f'{name}-discovery-model', payload, 'the fuelled loop, the structural walk and the nearest-ancestor specification disagree (a proved theorem is contradicted)', no_input=True)
        if nontrivial_key is not None:
            chk.nontrivial.add(nontrivial_key)
        good = obs == spec
        equal = obs == mod
        if good and equal:
            return True
        if not good:
            diff = sorted(k for k in set(obs) | set(spec) if obs.get(k) != spec.get(k))
            chk.violation(name, payload, f'the setting(s) {diff} used by the binary are not command line, else file, else default: observed '
                          f'{ {k: obs.get(k) for k in diff} }, expected { {k: spec.get(k) for k in diff} }')
            return False
        corr_broken.append(payload)
        return False

    for (c, steps, meta), res in zip(cases, results):
        for (o, lang), (rc, obs) in zip(steps, res):
            ans = next(answers)
            given = {n: o[n] for n in OPT_ORDER if o.get(n) is not None}
            payload = {'kind': c.kind, 'lang': lang, 'cwd_depth': c.depth, 'options': given, 'target_os': o.get('target_os'),
                       'config_file_option': o.get('config_arg'), 'files': [{'at': '/'.join(rel), 'toml': c.texts.get(tuple(rel), '<directory>')} for rel, _ in c.files],
                       'meta': meta, 'exit': rc}
            nt = (c.kind, lang, json.dumps(given, sort_keys=True), json.dumps([[rel, x if isinstance(x, dict) else str(x)] for rel, x in c.files], sort_keys=True), c.depth,
                  str(o.get('config_file'))) if (given or any(isinstance(x, dict) and x for _, x in c.files)) else None
            ok = judge(f'{c.kind}-{c.cid}-{lang}', obs, ans, payload, nt)
            chk.count(f'{c.kind}_{lang}')
            if 'tm' in obs:
                chk.count(f'{c.kind}_{lang}_tables_observed')
            if 'error' in obs:
                chk.count('outcome_' + str(obs.get('error')))
            if ok and c.kind == 'A' and lang == 'kotlin' and meta['cli_mask'] == 0b00110 and meta['file_mask'] == 0b00111:
                chk.sample({'case': payload['options'], 'file': payload['files'], 'lang': lang, 'observed': obs})
            if ok and c.kind == 'B' and lang == 'swift' and c.cid % 97 == 0:
                chk.sample({'options': payload['options'], 'file': payload['files'], 'lang': lang, 'observed': obs})
            if ok and c.kind == 'D' and lang == 'swift' and c.cid % 89 == 0:
                chk.sample({'discovery': meta, 'cwd_depth': c.depth, 'config_file_option': o.get('config_arg'), 'observed': obs})

    # ---- C: -g
    sreqs, greqs = [], []
    for c, o, o2, langs, hostile, pre, where in gcases:
        fs = fs_sx(c.model_fs())
        sreqs.append(f'(c20_store {fs} {Lst(c.cwd_comps(), S)} {opts_sx(o)})')
    sans = vf.model(sreqs)
    pending = []
    for (c, o, o2, langs, hostile, pre, where), (before, r1, after1, r2, after2, reload, direct), ans in zip(gcases, gresults, sans):
        chk.evaluations += 1
        given = {n: o[n] for n in OPT_ORDER if o.get(n) is not None}
        payload = {'kind': 'C', 'cwd_depth': c.depth, 'options': given, 'lang': o.get('lang'), 'where': where, 'config_file_option': o.get('config_arg'),
                   'files': [{'at': '/'.join(rel), 'toml': c.texts.get(tuple(rel), '<directory>')} for rel, _ in c.files],
                   'first_run': {'exit': r1[0], 'stderr': r1[1][-300:]}, 'second_run_exit': r2[0],
                   'emitted': None if after1 is None else after1.decode('utf-8', 'replace')}
        chk.nontrivial.add(('C', json.dumps(given, sort_keys=True), o.get('lang'), where, pre is not None, c.depth))
        mres, madded, munch = sx_get(ans, 'model')
        sres, sadded, sunch = sx_get(ans, 'spec')
        if (mres, madded) != (sres, sadded):
            chk.violation(f'C-{c.cid}-model', payload, 'model and specification of -g disagree (a proved theorem is contradicted)', no_input=True)
        # observation of the first -g
        if r1[0] == 0:
            if before is not None:
                chk.violation(f'C-{c.cid}', payload, '-g succeeded although the target path existed' + ('' if after1 == before else ' and overwrote it'))
                continue
            try:
                emitted = tomllib.loads(after1.decode('utf-8'))
            except Exception as e:          # noqa
                chk.violation(f'C-{c.cid}', payload, f'the TOML written by -g does not parse: {e}')
                continue
            obs = ('ok', emitted)
        else:
            o1 = observe('swift', r1[0], r1[1], None)
            obs = ('err', o1.get('error', o1))
            if after1 != before:
                chk.violation(f'C-{c.cid}', payload, '-g failed but changed the target path')
                continue
        exp = ('ok', sx_pc(sadded[1][1])) if sres[0] == 'ok' else ('err', sres[1])
        mod = ('ok', sx_pc(madded[1][1])) if mres[0] == 'ok' else ('err', mres[1])
        payload['expected'] = exp
        chk.count('g_' + (obs[0] if obs[0] == 'ok' else str(obs[1])))
        if obs != exp:
            if obs[0] == exp[0] == 'ok':
                tab = lambda x, t: x.get(t) if isinstance(x.get(t), dict) else ({} if t not in x else {'<value>': x.get(t)})     # a top-level key that is no table
                diff = {f'{t}.{k}': (tab(obs[1], t).get(k, '<absent>'), tab(exp[1], t).get(k, '<absent>'))
                        for t in sorted(set(obs[1]) | set(exp[1])) for k in sorted(set(tab(obs[1], t)) | set(tab(exp[1], t)))
                        if tab(obs[1], t).get(k, '<absent>') != tab(exp[1], t).get(k, '<absent>')}
                what = f'the TOML written by -g is not exactly the overridden default configuration: (written, expected) differ at {diff}'
            else:
                what = f'-g: observed {obs[0]} {obs[1] if obs[0] != "ok" else ""}, expected {exp[0]} {exp[1] if exp[0] != "ok" else ""}'
            chk.violation(f'C-{c.cid}', payload, what)
            continue
        if obs != mod:
            corr_broken.append(payload)
            continue
        if obs[0] != 'ok':
            continue
        chk.count('toml_roundtrip_tables_checked')
        # second -g on the same path: must fail, bytes identical
        chk.evaluations += 1
        if r2[0] == 0 or after2 != after1:
            chk.violation(f'C-{c.cid}-again', dict(payload, second_options={n: o2[n] for n in OPT_ORDER if o2.get(n) is not None}),
                          'a second -g on the same path ' + ('succeeded' if r2[0] == 0 else 'failed') + (' and changed the file' if after2 != after1 else ''))
            continue
        if 'File exists' not in r2[1] and not (o2.get('lang') == 'go'):
            chk.violation(f'C-{c.cid}-again', payload, f'a second -g failed for another reason than the existing file: {r2[1][-200:]}')
            continue
        # reload through the binary and compare with the model on the file system that now holds the emitted file, and with the direct run
        target_comps = list(target_of(c, where).parts[1:])
        fs2 = fs_sx(c.model_fs(extra=[(target_comps, emitted)]))
        for l, (rc, robs), (drc, dobs) in zip(langs, reload, direct):
            ro = {'config_file': o.get('config_file'), 'lang': l}
            pending.append((c, l, payload, robs, dobs, hostile,
                            f'(c20_gen {fs2} {Lst(c.cwd_comps(), S)} {opts_sx(ro)})'))
        if c.cid % 61 == 0:
            chk.sample({'generate_config_options': given, 'emitted_toml': payload['emitted'], 'second_run_exit': r2[0]})
    rans = vf.model([p[-1] for p in pending])
    for (c, l, payload, obs, dobs, hostile, _), ans in zip(pending, rans):
        p2 = dict(payload, lang=l, reload_observed=obs, direct_run_observed=dobs)
        if hostile and ('unrecognised_output' in obs or 'unrecognised_output' in dobs):
            # hostile strings break the line-based extractors; the TOML comparison above is the observation for these
            chk.count('reload_hostile_not_extractable')
            if ('unrecognised_output' in obs) != ('unrecognised_output' in dobs):
                chk.violation(f'C-{c.cid}-{l}-reload', p2, 'reload and direct run differ in shape on hostile strings')
            continue
        ok = judge(f'C-{c.cid}-{l}-reload', obs, ans, p2, ('C-reload', c.cid, l))
        chk.count('reload_runs')
        # direct run: same options, no file; identical settings except that the direct run also had target_os
        chk.evaluations += 1
        d2 = dict(dobs)
        o2_ = dict(obs)
        d2.pop('os_item', None)
        o2_.pop('os_item', None)
        if ok and d2 != o2_:
            chk.violation(f'C-{c.cid}-{l}-direct', p2, 'generating from the file written by -g differs from generating directly with the same options')

    chk.count('correspondence_mismatches', len(corr_broken))
    if corr_broken and not [v for v in chk.violations if not v[2]]:
        chk.violation('correspondence', {'correspondence': 'Model/Config.v (generate_types / generate_config) vs the typeshare binary', 'cases': corr_broken[:10]},
                      'model and binary disagree on inputs where the binary agrees with the specification', no_input=True)


def replay(chk, path):
    """re-run one recorded case: files are re-created from the recorded TOML text"""
    chk.prepare(need_cli=True, need_harness=False)
    d = json.load(open(path))
    base = pathlib.Path(os.path.realpath(vf.tmpdir('verif-c20-replay-')))
    root = base / 'case'
    (root / 'src').mkdir(parents=True)
    (root / 'src' / 'a.rs').write_text(SOURCE)
    cwd = root.joinpath(*CHAIN[:d.get('cwd_depth', 0)])
    cwd.mkdir(parents=True, exist_ok=True)
    for f in d.get('files', []):
        p = root / f['at']
        if f['toml'] == '<directory>':
            p.mkdir(parents=True)
        else:
            p.parent.mkdir(parents=True, exist_ok=True)
            p.write_text(f['toml'])
    o = dict(d.get('options', {}))
    o['target_os'] = d.get('target_os')
    cfo = d.get('config_file_option')
    if cfo:
        o['config_arg'] = cfo if not os.path.isabs(cfo) else str(root / 'conf' / os.path.basename(cfo))
    if d.get('kind') == 'C':
        o['generate'] = True
        o['lang'] = d.get('lang')
        rc, err = run_cli(cli_args(o, lambda xs: xs[-1], None, str(root / 'src')), cwd)
        print('exit', rc, err[-300:])
        for p in root.rglob('*.toml'):
            print(p, '\n', p.read_text())
        return 0
    lang = d['lang']
    o['lang'] = lang
    out = root / f'out.{EXT[lang]}'
    rc, err = run_cli(cli_args(o, lambda xs: xs[-1], str(out), str(root / 'src')), cwd)
    print('observed now:', observe(lang, rc, err, read(out)))
    print('recorded    :', d.get('observed'))
    print('expected    :', d.get('specification'))
    return 0
