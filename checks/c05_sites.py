"""C05, use sites (stub, filled in below)."""


def phase_sites_ir(chk, V, n):
    pass


def phase_sites_src(chk, V, n):
    pass


def replay(chk, d):
    return 0
