"""C05, use sites: the same random type trees placed in struct fields, alias targets (plain, newtype struct,
Kotlin @JvmInline value class), tuple-variant payloads, struct-variant fields and const types.
  IR level      items built directly (lib/ir.py JSON) -> generate_ir (real) / gen_ir (model)
  source level  the items printed as Rust source, every type spelled with references, smart pointers, path
                qualification and lifetimes (lib/c05types.rust_source) -> generate (real) / gen_src (model)
Observation: the type TEXT of every use site, located in the REAL output by lib/extract.py, parsed into a tree by
lib/c05types.parse and judged by the extracted good_C05_site (= good_C05 under the generics list the site must use).
Correspondence: the whole generated file, byte for byte, model vs implementation.
The top of a site type is never Option (how a member spells its optionality is C04's subject; Option below the top
and Option at the top of a bare format_type call are covered here and in the trees phase)."""
import json
import vf, ir, back, extract, c05types as T
from vf import S, Lst

LANGS = ['typescript', 'kotlin', 'swift', 'scala', 'go', 'python']
CONST_LANGS = ('typescript', 'go', 'python')     # Kotlin / Swift: write_const returns Err(Unsupported) (no const support); Scala drops consts (C03)


def site_type(rng, g, d=None):
    while True:
        t = T.rand_type(rng, rng.choice([0, 1, 2, 3, 4]) if d is None else d, g, generic_keys=0.0)
        if not (t['k'] == 'special' and t['name'] == 'Option'):
            return t


def const_type(rng):
    c = rng.random()
    p = ir.special(rng.choice(['U8', 'U16', 'U32', 'I8', 'I16', 'I32', 'I54', 'U53']))
    if c < 0.7:
        return p
    if c < 0.85:
        return ir.special('Array', p, n=rng.choice([1, 2, 3]))
    return ir.special('Slice', p)


def plan(rng, lang):
    """one item set: structure + the list of sites (kind, where, generics, type)"""
    gs = lambda: rng.sample(T.PARAMS, rng.choice([0, 1, 1, 2]))
    P = {'struct_g': gs(), 'alias_g': gs(), 'inline_g': gs(), 'enum_g': gs(), 'newtype_g': gs()}
    P['fields'] = [site_type(rng, P['struct_g']) for _ in range(rng.randint(1, 4))]
    P['alias'] = site_type(rng, P['alias_g'])
    P['inline'] = site_type(rng, P['inline_g'], d=rng.choice([0, 1, 2]))
    P['newtype'] = site_type(rng, P['newtype_g'])
    vs = []
    for k in range(rng.randint(1, 4)):
        kind = rng.choice(['tuple', 'tuple', 'struct', 'unit'])
        if kind == 'tuple':
            vs.append(('tuple', site_type(rng, P['enum_g'])))
        elif kind == 'struct':
            vs.append(('struct', [site_type(rng, P['enum_g']) for _ in range(rng.randint(1, 3))]))
        else:
            vs.append(('unit', None))
    if all(v[0] == 'unit' for v in vs):
        vs.append(('tuple', site_type(rng, P['enum_g'])))
    P['variants'] = vs
    P['const'] = const_type(rng) if lang in CONST_LANGS else None
    return P


def sites_of(P, lang, with_newtype):
    out = []
    for k, t in enumerate(P['fields']):
        out.append(('field', ('S0', k), P['struct_g'], t))
    out.append(('alias', ('A0',), P['alias_g'], P['alias']))
    out.append(('inline_alias' if lang == 'kotlin' else 'alias', ('A1',), P['inline_g'], P['inline']))
    if with_newtype:
        out.append(('alias', ('N0',), P['newtype_g'], P['newtype']))
    for k, (kind, x) in enumerate(P['variants']):
        if kind == 'tuple':
            out.append(('payload', ('E0', k), P['enum_g'], x))
        elif kind == 'struct':
            for j, t in enumerate(x):
                out.append(('field', ('E0', k, j), P['enum_g'], t))
    if P['const'] is not None:
        out.append(('const', ('C0',), [], P['const']))
    return out


def all_types(P):
    ts = list(P['fields']) + [P['alias'], P['inline'], P['newtype']]
    for kind, x in P['variants']:
        ts += [x] if kind == 'tuple' else (x if kind == 'struct' else [])
    return ts


def fld(n, t):
    return {'id': ir.mk_id(n), 'ty': t, 'comments': [], 'has_default': False, 'decorators': []}


def ir_items(P):
    vs = []
    for k, (kind, x) in enumerate(P['variants']):
        vid = ir.mk_id(f'V{k}')
        if kind == 'tuple':
            vs.append({'k': 'tuple', 'id': vid, 'comments': [], 'ty': x})
        elif kind == 'struct':
            vs.append({'k': 'struct', 'id': vid, 'comments': [], 'fields': [fld(f'g{j}', t) for j, t in enumerate(x)]})
        else:
            vs.append({'k': 'unit', 'id': vid, 'comments': []})
    return {
        'structs': [{'kind': 'struct', 'id': ir.mk_id('S0'), 'generics': P['struct_g'], 'fields': [fld(f'f{k}', t) for k, t in enumerate(P['fields'])],
                     'comments': [], 'decorators': [], 'is_redacted': False}],
        'enums': [{'kind': 'enum', 'algebraic': True, 'tag': 'type', 'content': 'content', 'id': ir.mk_id('E0'), 'generics': P['enum_g'], 'comments': [],
                   'variants': vs, 'decorators': [], 'is_recursive': False, 'is_redacted': False}],
        'aliases': [{'kind': 'alias', 'id': ir.mk_id('A0'), 'generics': P['alias_g'], 'ty': P['alias'], 'comments': [], 'decorators': [], 'is_redacted': False},
                    {'kind': 'alias', 'id': ir.mk_id('A1'), 'generics': P['inline_g'], 'ty': P['inline'], 'comments': [], 'decorators': [['Kotlin', ['JvmInline']]],
                     'is_redacted': False}],
        'consts': [{'kind': 'const', 'id': ir.mk_id('C0'), 'ty': P['const'], 'value': '7'}] if P['const'] is not None else [],
    }


def rust_items(rng, P):
    gen = lambda g: ('<' + ', '.join(g) + '>') if g else ''
    sp = lambda t: T.rust_source(rng, t, noise=0.3)
    out = ['use std::collections::HashMap;', '']
    out.append(f'#[typeshare]\npub struct S0{gen(P["struct_g"])} {{')
    for k, t in enumerate(P['fields']):
        out.append(f'    pub f{k}: {sp(t)},')
    out.append('}\n')
    out.append(f'#[typeshare]\npub type A0{gen(P["alias_g"])} = {sp(P["alias"])};\n')
    out.append(f'#[typeshare(kotlin = "JvmInline")]\npub type A1{gen(P["inline_g"])} = {sp(P["inline"])};\n')
    out.append(f'#[typeshare]\npub struct N0{gen(P["newtype_g"])}(pub {sp(P["newtype"])});\n')
    out.append(f'#[typeshare]\n#[serde(tag = "type", content = "content")]\npub enum E0{gen(P["enum_g"])} {{')
    for k, (kind, x) in enumerate(P['variants']):
        if kind == 'tuple':
            out.append(f'    V{k}({sp(x)}),')
        elif kind == 'struct':
            out.append(f'    V{k} {{ ' + ', '.join(f'g{j}: {sp(t)}' for j, t in enumerate(x)) + ' },')
        else:
            out.append(f'    V{k},')
    out.append('}\n')
    if P['const'] is not None:
        out.append(f'#[typeshare]\npub const C0: {sp(P["const"])} = 7;\n')
    return '\n'.join(out)


def locate(lang, text, P, with_newtype):
    """{site key: type text} recovered from the real output; a site that cannot be found is absent"""
    ex = extract.extract(lang, text)
    defs = ex['definitions']

    def find(kind, orig):
        c = [d for d in defs if d['kind'] == kind and d['name'].endswith(orig) and not d.get('inner_of')]
        return c[0] if len(c) == 1 else None
    out = {}
    # Python wraps a member type that needs a custom JSON translation: Annotated[X, BeforeValidator(..), PlainSerializer(..)];
    # the extractor reduces it to X ('annotated')
    mtype = lambda m: m['type'] if m.get('annotated') else m['type_raw']
    d = find('struct', 'S0')
    if d and len(d['members']) == len(P['fields']):
        for k, m in enumerate(d['members']):
            out[('S0', k)] = mtype(m)
    for nm in ('A0', 'A1') + (('N0',) if with_newtype else ()):
        d = find('alias', nm)
        if d and d.get('type') is not None:
            out[(nm,)] = d['type']
    d = find('enum', 'E0')
    if d and len(d['variants']) == len(P['variants']):
        for k, ((kind, x), v) in enumerate(zip(P['variants'], d['variants'])):
            if kind == 'tuple' and v.get('type') is not None:
                out[('E0', k)] = v.get('type_raw') or v['type']
            elif kind == 'struct':
                ms = v.get('members') or []
                if not ms:
                    inner = [i for i in defs if i.get('inner_of') and tuple(i['inner_of']) == ('E0', f'V{k}')]
                    ms = inner[0]['members'] if len(inner) == 1 else []
                if len(ms) == len(x):
                    for j, m in enumerate(ms):
                        out[('E0', k, j)] = mtype(m)
    c = [d for d in defs if d['kind'] == 'const']
    if len(c) == 1 and c[0].get('type') is not None:
        out[('C0',)] = c[0]['type']
    return out, ex['unparsed'] + ex['anomalies']


# Go: uppercase_acronyms lists of the site phases (given in lower, upper and mixed case; `go` hits the mapped name MappedGo,
# `time` the mapped name time.Time, id / url / uuid / foo the user types UserId, Url, Uuid, Foo; xy, yZw: a non-idempotent pair;
# no / it / con / ba / po occur in Node, Item, Config, Bar, Baz, Point followed by a lower-case letter: they must NOT be rewritten)
GO_ACRONYMS = [[], [], ['id'], ['ID', 'url'], ['id', 'url', 'uuid', 'api'], ['foo', 'go', 'Time'], ['xy', 'yZw', 'Id'],
               # occurrences FOLLOWED BY A LOWER-CASE LETTER must stay (Node, Item, Config, Bar, Point: go.rs:588)
               ['no', 'it', 'id'], ['con', 'ba', 'po', 'url']]


def go_cfg(rng, cfg):
    a = rng.choice(GO_ACRONYMS)
    return dict(cfg, uppercase_acronyms=a) if a else cfg


def go_rewrite_text(acrs, name):
    """acronyms_to_uppercase on ASCII text (only used to tell the type-text parser which verbatim atoms to expect:
    the rewritten type_mappings values; the verdict is the extracted good_C05_site_go)"""
    res = list(name)
    for a in acrs:
        pat = ''.join(w[:1].upper() + (w[1:].lower() if a.upper() == a else w[1:]) for w in a.split('_'))
        if not pat:
            continue
        i = name.find(pat)
        while i >= 0:
            nxt = name[i + len(pat):i + len(pat) + 1]
            if not (nxt and nxt.islower()):
                res[i:i + len(pat)] = list(pat.upper())
            i = name.find(pat, i + len(pat))
    return ''.join(res)


def go_hit(acrs, text):
    """the text shows an upper-cased acronym (counter only)"""
    for a in acrs:
        pat = ''.join(w[:1].upper() + (w[1:].lower() if a.upper() == a else w[1:]) for w in a.split('_'))
        if pat and pat.upper() != pat and pat.upper() in text:
            return True
    return False


def judge_sites(lang, cfg, sites, texts):
    atoms = list((cfg.get('type_mappings') or {}).values())
    if lang == 'go' and cfg.get('uppercase_acronyms'):
        atoms += [go_rewrite_text(cfg['uppercase_acronyms'], a) for a in atoms]
    obs = []
    for kind, where, g, t in sites:
        txt = texts.get(where)
        if txt is None:
            obs.append((None, 'site not found in the real output'))
            continue
        try:
            obs.append((T.parse(lang, txt, atoms), None))
        except ValueError as e:
            obs.append((None, str(e)))
    res = vf.model([f'(c05_judge_site {lang} {back.cfg_sx(cfg)} {kind} {Lst(g, S)} {ir.sx_ty(t)} {"none" if o is None else "(some " + T.tree_sx(o) + ")"})'
                    for (kind, where, g, t), (o, e) in zip(sites, obs)])
    return [(o, e, r[0] == 'true', vf.sx_opt(r[1]), r[2] == 'true', T.sx_tree(r[3])) for (o, e), r in zip(obs, res)]


def run_cases(chk, V, phase, cases, results, with_newtype):
    """cases: (lang, cfg, P, input); results: back.run_ir / run_src rows"""
    for k, ((lang, cfg, P, inp), r) in enumerate(zip(cases, results)):
        sites = sites_of(P, lang, with_newtype)
        impl, model = r['impl'], r['model']
        equal = back.same(impl, model)
        base = {'phase': phase, 'lang': lang, 'cfg': cfg, 'plan': P, 'input': inp, 'impl': impl if impl[0] != 'ok' else 'ok', 'model': model if model[0] != 'ok' else 'ok'}
        if impl[0] != 'ok':
            chk.evaluations += 1
            chk.violation(f'{phase}-{k}', dict(base, real_output=None), f'the back end produced no output ({impl[0]}: {impl[1]}) for an item set made of supported types only')
            continue
        texts, odd = locate(lang, impl[1], P, with_newtype)
        if odd:
            chk.count(f'{phase}_extractor_remarks')
        # "as the model predicts" is decided per site on the printed type (the property's observation), not on the bytes of the whole file
        mtexts = locate(lang, model[1], P, with_newtype)[0] if model[0] == 'ok' and not equal else {}
        if not equal and model[0] == 'ok' and all(mtexts.get(w) == texts.get(w) for _, w, _, _ in sites):
            V.corr.append(dict(base, why='every use site prints the same type as the model, but the bytes of the file differ (layout drift)'))
        js = judge_sites(lang, cfg, sites, texts)
        for (kind, where, g, t), (o, e, dom, known, good, erase) in zip(sites, js):
            chk.count(f'{phase}_site_{kind}')
            if lang == 'go' and cfg.get('uppercase_acronyms'):
                chk.count(f'{phase}_go_acronym_sites')
                if kind in ('field', 'payload') and o is not None and go_hit(cfg['uppercase_acronyms'], texts.get(where) or ''):
                    chk.count(f'{phase}_go_acronym_sites_rewritten')
            payload = dict(base, site=kind, where=list(where), generics=g, type=t, rust=T.rust_name(t), real_text=texts.get(where),
                           observed=T.show_tree(o) if o else e, expected=T.show_tree(erase), known=known, real_output=impl[1])
            if e is not None and odd:      # the extractor left lines of the real text unread: the site cannot be located, nothing can be judged
                chk.evaluations += 1
                chk.unreadable(lang, payload, odd)
                continue
            if e is not None and known is None:
                chk.evaluations += 1
                if False:
                    pass
                else:
                    chk.violation(f'{phase}-{k}-{"-".join(map(str, where))}', payload, 'the type of a use site cannot be read from the real output: ' + e)
                continue
            V.case(f'{phase}-{k}-{"-".join(map(str, where))}', payload, good, equal or (where in mtexts and mtexts.get(where) == texts.get(where)), known,
                   (phase, lang, kind, T.rust_name(t), tuple(g), json.dumps(cfg, sort_keys=True)) if T.depth(t) >= 2 else None)
        if k % 97 == 0:
            chk.sample({'phase': phase, 'lang': lang, 'cfg': cfg, 'sites': [(kind, T.rust_name(t), texts.get(where)) for kind, where, g, t in sites][:6]})


def phase_sites_ir(chk, V, n):
    rng = chk.rng
    cases = []
    for k in range(n):
        for lang in LANGS:
            P = plan(rng, lang)
            cfg = T.rand_cfg(rng, lang, all_types(P), T.PARAMS)
            if lang == 'go':
                cfg = go_cfg(rng, cfg)
            items = ir_items(P)
            cases.append((lang, cfg, P, items))
    res = back.run_ir([(l, c, it, False) for l, c, P, it in cases])
    run_cases(chk, V, 'sites_ir', cases, res, with_newtype=False)


def phase_sites_src(chk, V, n):
    rng = chk.rng
    cases = []
    for k in range(n):
        for lang in LANGS:
            P = plan(rng, lang)
            cfg = T.rand_cfg(rng, lang, all_types(P), T.PARAMS)
            if lang == 'go':
                cfg = go_cfg(rng, cfg)
            cases.append((lang, cfg, P, rust_items(rng, P)))
    res = back.run_src([(l, c, src, []) for l, c, P, src in cases])
    run_cases(chk, V, 'sites_src', cases, res, with_newtype=True)


def replay(chk, d):
    lang, cfg, P = d['lang'], d['cfg'], d['plan']
    P['variants'] = [tuple(v) for v in P['variants']]
    if d['phase'] == 'sites_ir':
        r = back.run_ir([(lang, cfg, d['input'], False)])[0]
        newtype = False
    else:
        r = back.run_src([(lang, cfg, d['input'], [])])[0]
        newtype = True
    print('what :', d.get('what'))
    print('input:', d['input'] if isinstance(d['input'], str) else json.dumps(d['input'])[:2000])
    print('impl :', r['impl'][0], '\n' + (r['impl'][1] if r['impl'][0] == 'ok' else str(r['impl'][1])))
    print('model equals impl:', back.same(r['impl'], r['model']))
    rc = 0
    if r['impl'][0] == 'ok':
        texts, odd = locate(lang, r['impl'][1], P, newtype)
        sites = sites_of(P, lang, newtype)
        for (kind, where, g, t), (o, e, dom, known, good, erase) in zip(sites, judge_sites(lang, cfg, sites, texts)):
            print(f'  {kind:12} {where} {T.rust_name(t)} generics={g}: real `{texts.get(where)}` observed {T.show_tree(o) if o else e} expected {T.show_tree(erase)} good={good} known={known}')
            if not good and known is None:
                rc = 1
    return rc
