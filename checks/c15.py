"""C15 - documentation text is carried only inside comments of the generated code.
Proof: Props/C15.v.  After the three repairs (parse_comment_attrs hands the back ends one entry per LINE of a doc value; the
TypeScript writer escapes the comment terminator; the Python docstring writer escapes three double quotes) there is NO finding
class left: the fragments of all six write_comments are contained for every list of doc attribute values (C15_contained_<l>), and
for arbitrary doc strings exactly when every string as written is safe (C15_exact).  The former witnesses are regression pins
(C15_<l>_fixed) and stay in the corpus of this check, where they must pass.
Correspondence: seeded programs (lib/progs.py) whose every documentable position (type, field, variant, struct-variant field,
alias/newtype) carries doc attributes over the property's alphabet (LF, CR, CR LF, comment terminators and openers, runs of 3-7
double quotes, backslashes in front of quotes and at line ends, three single quotes, hash, backtick, form feed, vertical tab,
U+2028, lines consisting only of a terminator, ordinary text ...) interleaved with unique sentinel tokens and written as `///`,
`/** */` or #[doc = ".."].  Each program goes through the REAL generators (libdrive `generate`; a sample through the real binary)
and through the extracted model, in all six languages.  The expectation is computed from the SOURCE by the extracted
specification: what every doc attribute CARRIES (c15_carried: the trimmed lines of the trimmed value; cross-checked against this
file's own rendering of str::trim / str::lines / split and against the IR the real front end delivers) and how each carried line
is WRITTEN (c15_site_written: verbatim; star-slash with a backslash in between in TypeScript; three double quotes as three escaped
quotes in a Python docstring).  Observation = the EXTRACTED reference lexer (Spec/Lexers.v) run on the bytes: for every sentinel,
the lexer modes in which its characters are read; the verdict on the real bytes is the extracted c15_reproduced (EVERY written
line occurs in the file) and c15_contained_in (every character of every sentinel-carrying written line is read inside a comment /
docstring, and the lexer is back in code at the end of the file - which a sentinel-free line, such as a lone terminator, that
ended its comment would break as well).  A second stream puts doc strings directly into the IR (raw, untrimmed, with line breaks:
strings no source text produces); there the verdict is demanded where the strings printed in line comments are free of LF / CR
(dom_C15_ir) and model-vs-real equality everywhere.  For Python the Gallina lexer is cross-checked against CPython's tokenize."""
import concurrent.futures, io, json, subprocess, tokenize
import vf, progs, back, irgen
from vf import S, Lst

LANGS = [('typescript', 'ts', [], {}), ('kotlin', 'kt', ['--java-package', 'p'], {'package': 'p'}), ('swift', 'swift', [], {}),
         ('scala', 'scala', ['--scala-package', 'p.q'], {'package': 'p.q'}), ('go', 'go', ['--go-package', 'p'], {'package': 'p'}),
         ('python', 'py', [], {})]

# the property's alphabet (tokens placed between sentinels); the first group contains no line break and no terminator
SAFE_TOKENS = [' ', ' text ', '/*', '//', "'''", '\\', '#', '`', '"', '""', "'", '*', '/', '\\n', '${x}', '{', '}', '-->', '\\"', '* /', '\t',
               'é', '\\\\', ' # ', '<b>', '@param', '"" "', '\x0c', '\x0b', '\u2028', '\u00a0', ' \x0c ', '*\\/', '/ *', '\\"\\"\\"']
RISKY_TOKENS = ['\n', '\n', '*/', '*/', '"""', '"""', '\r', '\r\n', '\n\n', '\n//', '\n/// ', '\n * ', '\n    ', '*/ /*', '""""', '\\\n', ' ',
                '"""\n', '\n"""', '\n#', '\\"""" ', "'''\n", '\\"""', '\\\\"""', '"""""', '""""""', '"""""""', '\n"""\n', '\n*/\n', '*\n/', '*\r/',
                '\n""\n', '\\\r\n', '\r\r\n', '\n\r', '\n"\n', '""\n"', '*/*/', '\n\\\n', '\x0c\n', '\n\u2028', '**/', '*//', '\n*/', '*/\n']
# doc values without any sentinel: bare terminators (the file must still end in code mode, and every line must occur)
BARE = ['*/', '"""', '"""\n"""', '*/\n*/', '\\', '"', '""', '*', '/', '#', '"""" """', '\\"""', '*/ x', 'x """', '"""\\', '*\n/']
RUST_WS = {chr(c) for c in [9, 10, 11, 12, 13, 32, 0x85, 0xa0, 0x1680, 0x2028, 0x2029, 0x202f, 0x205f, 0x3000] + list(range(0x2000, 0x200b))}
MODE = {1: 'code', 2: 'code/', 3: 'line-comment', 4: 'block-comment', 5: 'string', 6: 'long-string', 7: 'quote', 8: 'triple-quoted'}


def rust_trim_end(s):
    b = len(s)
    while b > 0 and s[b - 1] in RUST_WS:
        b -= 1
    return s[:b]


def rust_trim(s):
    a, b = 0, len(s)
    while a < b and s[a] in RUST_WS:
        a += 1
    while b > a and s[b - 1] in RUST_WS:
        b -= 1
    return s[a:b]


def rust_lines(s):
    """str::lines: split_inclusive(LF), then strip the LF and - only then - one CR in front of it"""
    pieces, cur = [], ''
    for ch in s:
        cur += ch
        if ch == '\n':
            pieces.append(cur)
            cur = ''
    if cur:
        pieces.append(cur)
    out = []
    for ln in pieces:
        if ln.endswith('\n'):
            ln = ln[:-1]
            if ln.endswith('\r'):
                ln = ln[:-1]
        out.append(ln)
    return out


def rust_carried(v):
    """parser.rs parse_comment_attrs (after the repair) on the value of one doc attribute"""
    t = rust_trim(v)
    if t == '':
        return ['']
    return [rust_trim(piece) for ln in rust_lines(t) for piece in ln.split('\r')]


class DocGen:
    """doc strings with unique sentinels"""

    def __init__(self, rng):
        self.rng = rng
        self.n = 0

    def sentinel(self):
        self.n += 1
        return f'Zq{self.n}x'

    def text(self, risky):
        r = self.rng
        if r.random() < 0.04:
            return ''
        if risky and r.random() < 0.05:
            return r.choice(BARE)
        k = r.choice([0, 1, 1, 2, 2, 3, 4])
        parts = [] if r.random() < 0.85 else [r.choice(SAFE_TOKENS)]
        parts.append(self.sentinel())
        for _ in range(k):
            parts.append(r.choice(RISKY_TOKENS) if risky and r.random() < 0.45 else r.choice(SAFE_TOKENS))
            parts.append(self.sentinel())
        if r.random() < 0.2:
            parts.append(r.choice(RISKY_TOKENS) if risky and r.random() < 0.3 else r.choice(SAFE_TOKENS))
        return ''.join(parts)

    def edge_doc(self):
        """ONE line of harmless text; blanks and line breaks only AROUND it, in the attribute value: leading / trailing blanks in
        `///`, a one-line `/**  text  */`, the conventional block with one text line, #[doc = ".."] whose string starts / ends with
        line breaks.  What is carried is the one trimmed line."""
        r = self.rng
        t = ''
        while not rust_trim(t):
            t = self.text(False)
        forms = ['attr', 'attr', 'line']
        if '*/' not in t and '/*' not in t:
            forms += ['block1', 'blockN', 'blockN']
        f = r.choice(forms)
        if f == 'line':
            lead = r.choice([' ', '  ', '\t', '      ', ' \t '])
            return ('line', lead + t + r.choice(['', ' ', '   ', ' \t']))
        if f == 'block1':
            return ('block', r.choice([' ', '   ', ' \t ']) + t + r.choice([' ', '   ', ' \t ']))
        if f == 'blockN':
            ind = r.choice(['', '    ', '\t', '        '])
            return ('block', '\n' + ind + ' * ' + t + '\n' + ind + ' ')
        lead = r.choice(['\n', '\n', '\n\n', ' \n', '\n\t', '\r\n', '\n ', '\n    ', ' \n \n  ', ''])
        trail = r.choice(['\n', '\n\n', ' \n ', '', '\t\n', '\r\n', '  ']) if lead else r.choice(['\n', '\n\n', ' \n ', '\r\n'])
        return ('attr', lead + t + trail)

    def doc(self, risky):
        """-> the source form for progs.doc_src: (spelling, attribute value as written)"""
        r = self.rng
        if r.random() < (0.1 if risky else 0.3):
            return self.edge_doc()
        t = self.text(risky)
        forms = ['attr']
        if '\n' not in t and '\r' not in t:
            forms += ['line', 'line']
        if '*/' not in t and '/*' not in t and '\r' not in t:
            forms += ['block', 'block'] if '\n' in t else ['block']
        f = r.choice(forms)
        if f == 'line':
            return ('line', (' ' if r.random() < 0.8 or not t or t[0] in '/!' else '') + t)
        if f == 'block':
            return ('block', ' ' + t + ' ')
        return ('attr', r.choice(['', ' ']) + t + r.choice(['', ' ']))

    def raw_docs(self, risky, p):
        """doc strings as no parser would deliver them (untrimmed, with line breaks): for the IR-level stream"""
        r = self.rng
        if r.random() > p:
            return []
        out = []
        for _ in range(r.choice([1, 1, 1, 2, 3])):
            t = self.text(risky)
            if t and r.random() < 0.3:
                t = r.choice([' ', '\t', '  ', '\n' if risky else ' ', '']) + t + r.choice([' ', ' \t', '\n' if risky else ' ', '\n\n' if risky else '', '\u00a0', ''])
            out.append(t)
        return out

    def docs(self, risky, p):
        """-> (source forms, attribute values as written)"""
        r = self.rng
        if r.random() > p:
            return [], []
        ds = [self.doc(risky) for _ in range(r.choice([1, 1, 1, 2, 3]))]
        return ds, [d[1] for d in ds]


def carried_sites(raw_sites_list):
    """[(position, [attribute values])] per case -> [(position, [carried lines])] per case:
    the EXTRACTED c15_carried_sites (Spec/C15Spec.v: per value the trimmed lines of the trimmed value)"""
    outs = vf.model([f'(c15carried {Lst(sites, lambda s: f"({s[0]} {Lst(s[1], S)})")})' for sites in raw_sites_list])
    return [[(x[0], [vf.unS(d) for d in x[1]]) for x in a] for a in outs]


def plant(dg, prog, risky, p):
    """replace every doc list of the program; returns the RAW sites [(position, [attribute values as written])] of the generated part"""
    sites = []

    def put(obj, pos, live):
        src, want = dg.docs(risky, p)
        obj.docs = src
        if live and want:
            sites.append((pos, want))

    for it in prog.items:
        live = it.annotated
        pos = {'struct': 'struct', 'unit_struct': 'struct', 'newtype': 'alias', 'alias': 'alias', 'unit_enum': 'unit_enum', 'alg_enum': 'alg_enum'}[it.kind]
        put(it, pos, live)
        for f in it.fields:
            put(f, 'field', live and f.skip is None)
        for v in it.variants:
            vl = live and v.skip is None
            put(v, 'variant', vl)
            for f in v.fields:
                put(f, 'variant_field', vl and f.skip is None)
    return sites


def ir_sites(ir):
    """the doc strings as the real front end delivered them, by position (order: as in the source)"""
    out = []
    for s in ir.get('structs', []):
        out.append(('struct', s['id']['original'], s['comments']))
        for f in s['fields']:
            out.append(('field', s['id']['original'] + '.' + f['id']['original'], f['comments']))
    for e in ir.get('enums', []):
        out.append(('alg_enum' if e['algebraic'] else 'unit_enum', e['id']['original'], e['comments']))
        for v in e['variants']:
            out.append(('variant', e['id']['original'] + '::' + v['id']['original'], v['comments']))
            for f in v.get('fields', []):
                out.append(('variant_field', e['id']['original'] + '::' + v['id']['original'] + '.' + f['id']['original'], f['comments']))
    for a in ir.get('aliases', []):
        out.append(('alias', a['id']['original'], a['comments']))
    return out


def plant_ir(dg, items, risky, p):
    for s in items['structs']:
        s['comments'] = dg.raw_docs(risky, p)
        for f in s['fields']:
            f['comments'] = dg.raw_docs(risky, p)
    for e in items['enums']:
        e['comments'] = dg.raw_docs(risky, p)
        for v in e['variants']:
            v['comments'] = dg.raw_docs(risky, p)
            for f in v.get('fields', []):
                f['comments'] = dg.raw_docs(risky, p)
    for a in items['aliases']:
        a['comments'] = dg.raw_docs(risky, p)
    return [(pos, ds) for pos, _, ds in ir_sites(items) if ds]


def sites_for(c, lang):
    """the doc strings whose text the back end of `lang` carries: Swift prints comment.trim_end() (swift.rs:743), every other
    back end the string itself (source-level doc lines arrive trimmed, so this only matters for the IR-level stream)"""
    if lang != 'swift':
        return c['sites']
    return [(p, [rust_trim_end(d) for d in ds]) for p, ds in c['sites']]


def sentinels_of(sites):
    out = []
    for _, ds in sites:
        for d in ds:
            i = 0
            while True:
                i = d.find('Zq', i)
                if i < 0:
                    break
                j = d.find('x', i)
                if j < 0:
                    break
                out.append(d[i:j + 1])
                i = j + 1
    return out


def observe(text, obs, sents):
    """per sentinel: the sorted list of its occurrences, each the tuple of mode tags of its characters"""
    out = {}
    for s in sents:
        occ, i = [], text.find(s)
        while i >= 0:
            occ.append(tuple(obs[i:i + len(s)]))
            i = text.find(s, i + 1)
        out[s] = sorted(occ)
    return out


def describe(o):
    bad = {}
    for s, occ in o.items():
        if not occ:
            bad[s] = 'not reproduced'
        else:
            tags = sorted({t for oc in occ for t in oc})
            if any(t == 0 or t >= 10 or t not in (3, 4, 8) for t in tags):
                bad[s] = 'read as ' + ', '.join((MODE.get(t % 10, '?') + (' (not comment text / ends the comment)' if t >= 10 else '')) if t else 'unmarked' for t in tags)
    return bad


def sx_request(lang, sites, text, mark):
    return f'(c15 {lang} {Lst(sites, lambda s: f"({s[0]} {Lst(s[1], S)})")} {S(text)} {mark})'


def mark_of(c):
    """corpus cases carry no sentinels: every written line is marked; generated cases: the sentinel-carrying lines"""
    return 'all' if c.get('mark_all') else 'sentinel'


def parse_answer(a):
    d = {x[0]: x[1] for x in a}
    return {'known': None if d['known'] == 'none' else d['known'][1], 'dom': d['dom'] == 'true', 'reproduced': d['reproduced'] == 'true',
            'contained': d['contained'] == 'true', 'good': d['good'] == 'true', 'unsafe': [vf.unS(x) for x in d['unsafe']],
            'written': [vf.unS(x) for x in d['written']], 'obs': [ord(c) for c in vf.unS(d['obs'])]}


def py_tokenize_spans(text):
    """character offsets covered by COMMENT tokens and by triple-quoted STRING tokens according to CPython's tokenize;
    returns (set of offsets, offset up to which the answer is valid)"""
    # CPython reads source with universal newlines (CR LF and a lone CR end a line: `compile('x = 1 # c\\ry = 2')` defines y);
    # the pure-Python tokenize module does not, so translate first, keeping every offset
    text = text.replace('\r\n', ' \n').replace('\r', '\n')
    data = text.encode('utf-8')
    lines = text.split('\n')
    starts, o = [], 0
    for ln in lines:
        starts.append(o)
        o += len(ln) + 1
    inside = set()
    valid = len(text)
    try:
        for tok in tokenize.tokenize(io.BytesIO(data).readline):
            if tok.type == tokenize.COMMENT or (tok.type == tokenize.STRING and tok.string.lstrip('rRbBuUfF')[:3] in ('"""', "'''")):
                a = starts[tok.start[0] - 1] + tok.start[1]
                b = starts[tok.end[0] - 1] + tok.end[1]
                inside.update(range(a, b))
            elif tok.type == tokenize.ERRORTOKEN:
                valid = min(valid, starts[tok.start[0] - 1] + tok.start[1])
    except (tokenize.TokenError, SyntaxError, IndentationError) as e:
        pos = None
        if isinstance(e, tokenize.TokenError) and len(e.args) > 1:
            pos = e.args[1]
        elif getattr(e, 'lineno', None):
            pos = (e.lineno, 0)
        valid = min(valid, starts[min(pos[0], len(starts)) - 1] if pos else 0)
    return inside, valid


def run_cli(job):
    src, lang, ext, extra = job
    d = vf.tmpdir()
    (d / 'src').mkdir()
    (d / 'src' / 'lib.rs').write_text(src)
    out = d / f'out.{ext}'
    try:
        p = subprocess.run(['timeout', '20', str(vf.TYPESHARE), '--lang', lang, '-o', str(out)] + extra + [str(d / 'src')],
                           capture_output=True, text=True, timeout=30, cwd=d)
        rc, err = p.returncode, p.stderr[-300:]
    except subprocess.TimeoutExpired:
        rc, err = 124, ''
    return {'rc': rc, 'stderr': err, 'text': out.read_bytes().decode('utf-8', 'replace') if out.exists() else None}


# the fixed corpus: (name, doc attribute as (spelling, value)) on `pub struct Foo { pub x: u8 }`.  The first three are the witnesses
# of the six repaired findings (KNOWN_FINDINGS.jsonl, status fixed; Props/C15.v C15_<l>_fixed): they must pass.
CORPUS = [
    ('two-lines', ('block', ' alpha\nbeta ')), ('star-slash', ('attr', 'alpha */ beta')), ('quotes', ('line', ' alpha """ beta')),
    ('plain', ('line', ' alpha beta')),
    # one line of text, line breaks only around it in the attribute value: carried trimmed
    ('block-conventional', ('block', '\n * Zq900001x alpha\n ')), ('attr-leading-lf', ('attr', '\nZq900002x alpha')),
    ('attr-lf-both-ends', ('attr', '\n\n\tZq900003x alpha \n')), ('line-indented', ('line', '     Zq900004x alpha  ')),
    # the corners of the repaired writers
    ('crlf-and-lone-cr', ('attr', 'alpha\r\nbeta\rgamma\r\r\ndelta')),
    ('trailing-backslash', ('attr', 'alpha \\')), ('trailing-backslash-then-line', ('attr', 'alpha \\\nbeta \\')),
    ('quote-lines', ('attr', 'Zq900005x alpha\n""\n"""\n"\nZq900006x omega')), ('quote-lines-last', ('attr', 'Zq900007x alpha\n"\n""')),
    ('only-quotes', ('attr', '"""')), ('two-quotes-last', ('attr', 'alpha ""')),
    ('terminator-then-text', ('attr', '*/ Zq900008x omega')), ('quotes-then-text', ('attr', '""" Zq900009x omega')),
    ('terminator-line-then-text', ('attr', '*/\nZq900010x omega')), ('quotes-line-then-text', ('attr', '"""\nZq900011x omega')),
    ('quote-runs', ('attr', 'a \\""" b """" c """"" d """""" e \\\\""" f')),
    ('star-then-slash-line', ('attr', 'alpha *\n/ beta')), ('only-terminator', ('attr', '*/')), ('terminators', ('attr', '*/*/ **/ */')),
    ('control-characters', ('attr', 'alpha\x0cbeta\x0bgamma\u2028delta')), ('blank-inside', ('attr', 'alpha\n\nbeta')),
    ('conventional-two-lines', ('block', '\n * alpha\n * beta\n ')),
]


def distinctive(value):
    """a corpus value without sentinels all of whose carried lines contain a word that occurs nowhere else in the generated file:
    every written line can be located by searching it"""
    return 'Zq' not in value and all(ln == '' or any(w in ln for w in ('alpha', 'beta', 'gamma', 'delta')) for ln in rust_carried(value))


def gen_cases(chk, n):
    rng = chk.rng
    gen = progs.ProgGen(rng, progs.Profile(p_unannotated=0.08, p_skip=0.05, p_generic=0.08, p_nested=0.1, n_items=(1, 4)))
    cases = []
    for k in range(n):
        prog = gen.program()
        risky = k % 2 == 1
        dg = DocGen(rng)
        raw = plant(dg, prog, risky, rng.choice([0.5, 0.8, 1.0]))
        cases.append({'source': progs.source(prog), 'raw_sites': raw, 'risky': risky})
    ig = irgen.Gen(rng, edge=0.05)
    for k in range(n // 3):
        items = ig.items(1, 4)
        items['consts'] = []          # consts carry no docs (and Kotlin/Swift cannot print them)
        risky = k % 2 == 1
        sites = plant_ir(DocGen(rng), items, risky, rng.choice([0.5, 0.8, 1.0]))
        cases.append({'items': items, 'sites': sites, 'risky': risky})
    for name, doc in CORPUS:
        cases.insert(0, {'source': f'{progs.doc_src(doc)}\n#[typeshare]\npub struct Foo {{\n    pub x: u8,\n}}\n', 'raw_sites': [('struct', [doc[1]])],
                         'risky': True, 'corpus': name, 'mark_all': distinctive(doc[1])})
    # a blank `///` line between two paragraphs stays one empty entry
    cases.insert(0, {'source': '/// alpha\n///\n/// beta\n#[typeshare]\npub struct Foo {\n    pub x: u8,\n}\n', 'raw_sites': [('struct', [' alpha', '', ' beta'])],
                     'risky': False, 'corpus': 'blank-doc-line', 'mark_all': True})
    # every documentable position at once, each doc spelled with surrounding line breaks (the layout of seeded/C15_b)
    k = [900100]

    def edge(text):
        k[0] += 1
        t = f'Zq{k[0]}x {text}'
        return [('block', f'\n * {t}\n '), ('attr', f'\n{t}'), ('attr', f'\n\n{t}\n'), ('attr', f'\n\t{t}')][k[0] % 4]

    def hostile(text):
        k[0] += 1
        return ('attr', f'Zq{k[0]}x {text} */ """ \\\nZq{k[0]}y """" \\"""\r\n*/\n"""\nZq{k[0]}z *\n/ \\')
    for maker, name in ((edge, 'all-positions-surrounded-by-line-breaks'), (hostile, 'all-positions-hostile-lines')):
        d = [maker(t) for t in ('struct', 'field', 'alias', 'unit enum', 'unit variant', 'tagged enum', 'tuple variant', 'struct variant', 'variant field', 'newtype')]
        src = (f'{progs.doc_src(d[0])}\n#[typeshare]\npub struct Account {{\n    {progs.doc_src(d[1])}\n    pub name: String,\n}}\n'
               f'{progs.doc_src(d[2])}\n#[typeshare]\npub type AccountId = String;\n'
               f'{progs.doc_src(d[3])}\n#[typeshare]\npub enum Colour {{\n    {progs.doc_src(d[4])}\n    Red,\n    Green,\n}}\n'
               f'{progs.doc_src(d[5])}\n#[typeshare]\n#[serde(tag = "type", content = "content")]\npub enum Event {{\n    {progs.doc_src(d[6])}\n    Renamed(String),\n'
               f'    {progs.doc_src(d[7])}\n    Moved {{\n        {progs.doc_src(d[8])}\n        to: String,\n    }},\n}}\n'
               f'{progs.doc_src(d[9])}\n#[typeshare]\npub struct Wrapper(pub u32);\n')
        cases.insert(0, {'source': src, 'corpus': name, 'risky': maker is hostile,
                         'raw_sites': [('struct', [d[0][1]]), ('field', [d[1][1]]), ('alias', [d[2][1]]), ('unit_enum', [d[3][1]]), ('variant', [d[4][1]]),
                                       ('alg_enum', [d[5][1]]), ('variant', [d[6][1]]), ('variant', [d[7][1]]), ('variant_field', [d[8][1]]), ('alias', [d[9][1]])]})
    # what these attribute values carry: the extracted c15_carried, cross-checked with the local str::trim / lines / split
    src_cases = [c for c in cases if 'raw_sites' in c]
    for c, sites in zip(src_cases, carried_sites([c['raw_sites'] for c in src_cases])):
        c['sites'] = [(p, ds) for p, ds in sites if ds]
        c['carried_agrees'] = all([x for v in vs for x in rust_carried(v)] == ds for (_, vs), (_, ds) in zip(c['raw_sites'], sites))
    return cases


def judge(chk, cases, tag=''):
    """runs real generator + model on every (case, language); fills case['res'][lang]"""
    src_cases = [c for c in cases if 'source' in c]
    ir_cases = [c for c in cases if 'items' in c]
    res = back.run_src([(l, cfg, c['source'], []) for c in src_cases for l, _, _, cfg in LANGS])
    res_ir = back.run_ir([(l, cfg, c['items'], False) for c in ir_cases for l, _, _, cfg in LANGS])
    reqs, where = [], []
    for group, rs in ((src_cases, res), (ir_cases, res_ir)):
        k = 0
        for c in group:
            c['res'] = {}
            for l, _, _, cfg in LANGS:
                r = rs[k]
                k += 1
                c['res'][l] = {'impl': r['impl'], 'model': r['model'], 'ir': r.get('ir') if 'source' in c else c['items']}
                for side in ('impl', 'model'):
                    if r[side][0] == 'ok':
                        reqs.append(sx_request(l, sites_for(c, l), r[side][1], mark_of(c)))
                        where.append((c, l, side))
    for (c, l, side), a in zip(where, vf.model(reqs)):
        c['res'][l][side + '_judged'] = parse_answer(a)


def payload_of(c, l, extra=None):
    r = c['res'][l]
    p = {'lang': l, 'cfg': dict(next(x[3] for x in LANGS if x[0] == l)), 'sites': c['sites'], 'mark_all': bool(c.get('mark_all'))}
    p.update({'source': c['source']} if 'source' in c else {'items': c['items']})
    if c.get('corpus'):
        p['corpus'] = c['corpus']
    if r['impl'][0] == 'ok':
        p['output'] = r['impl'][1]
    else:
        p['impl'] = list(r['impl'])
    if extra:
        p.update(extra)
    return p



def phase_folder(chk):
    """folder-output mode through the real binary: crate-level documentation (`//!` lines and `#![doc = ..]` at the top of lib.rs and
    of another file of the crate) full of terminators, next to documented items, import blocks and per-crate headers.  Crate docs
    are no docs of a type, field or variant, so nothing obliges the tool to reproduce them; whatever of them reaches an output file
    must be read as comment text by the extracted reference lexer (seeded C15_f: crate docs copied raw into the block-comment
    header of the folder-mode files)."""
    frags = ['ZqCRATEDOC alpha', 'ZqTAIL beta', 'ZqTAILPY gamma', 'ZqLAST delta']
    line = 'ZqCRATEDOC alpha */ ZqTAIL beta \\"\\"\\" ZqTAILPY gamma /* ZqLAST delta'
    inner = [f'//! {line.replace(chr(92) + chr(34), chr(34))}\n', f'#![doc = "{line}"]\n']
    item = '/// an item doc\n#[typeshare]\npub struct %s { /// a field doc\n    pub x: u8 }\n'
    wss = []
    for spelling in inner:
        wss.append({'alpha/src/lib.rs': spelling + item % 'A1', 'alpha/src/other.rs': spelling + item % 'A2',
                    'beta/src/lib.rs': spelling + 'use alpha::A1;\n' + '#[typeshare]\npub struct B1 { pub a: A1 }\n'})
    for w, files in enumerate(wss):
        d = vf.tmpdir('verif-c15-')
        for rel, txt in files.items():
            q = d / 'ws' / rel
            q.parent.mkdir(parents=True, exist_ok=True)
            q.write_text(txt)
        for l, ext, extra, cfg in LANGS:
            out = d / f'out_{l}'
            out.mkdir()
            p = subprocess.run(['timeout', '30', str(vf.TYPESHARE), '--lang', l] + extra + ['--output-folder', str(out), str(d / 'ws')], capture_output=True, text=True)
            chk.evaluations += 1
            chk.count('folder_runs')
            payload = {'phase': 'folder', 'lang': l, 'files': files}
            if p.returncode != 0:
                chk.violation(f'folder-{w}-{l}', dict(payload, rc=p.returncode, stderr=p.stderr[-300:]), f'{l}: the real binary fails on a workspace whose files carry crate-level docs')
                continue
            outs = {f.name: f.read_text(errors='replace') for f in sorted(out.iterdir()) if f.is_file()}
            res = vf.model([f'(c15 {l} ((struct {Lst(frags, S)})) {S(t)} sentinel)' for t in outs.values()])
            for (fn, t), r in zip(outs.items(), res):
                if vf.sx_get(r, 'contained') != 'true':
                    chk.violation(f'folder-{w}-{l}', dict(payload, file=fn, text=t[:2500]), f'{l}, folder mode, {fn}: text of the crate-level documentation is written outside a comment')
                    break
            else:
                chk.nontrivial.add(('folder', l, w))


def run(chk):
    chk.rule = ('a seeded program (lib/progs.py: structs, unit structs, newtypes, aliases, unit enums, tagged enums with unit/tuple/struct variants) whose '
                'documentable positions (type, field, variant, struct-variant field, alias) carry 1-3 doc attributes built from unique sentinels '
                'interleaved with tokens of the alphabet {LF, CR, CR LF, */, /*, //, runs of 3-7 double quotes, \'\'\', backslash (before quotes, at line ends), #, '
                'backtick, FF, VT, LS, lines that are only a terminator, text ...}, written as ///, /** */ or #[doc=".."]; every program x 6 languages; half of the '
                'programs use only tokens without line break or terminator; plus a fixed corpus (the witnesses of the six repaired findings and the corner '
                'cases of the repaired writers) and an IR-level stream with raw doc strings. '
                'non-trivial = distinct (program, language) with at least one planted sentinel reproduced in the output')
    chk.assumptions = ['what "inside a comment / docstring" means is the reference lexer of Spec/Lexers.v (no Kotlin/Swift/Scala/Go/TypeScript lexer is installed); '
                       'for Python it is cross-checked against CPython tokenize on the same bytes',
                       'syn is not modelled: the model receives the AST produced by harness/libdrive/src/ast.rs from the same text',
                       'doc positions in the generated bytes are located by searching the sentinel-carrying (hence unique) written lines: extracted c15_mark_docs; '
                       'a written line without sentinel is required to occur in the file, and cannot leave its comment unnoticed if a sentinel follows it in the same '
                       'fragment or the file no longer ends in code mode']
    chk.prepare(need_cli=True)
    if not chk.harness_ok:
        return
    if chk.cli_ok:
        phase_folder(chk)
    n = 1200 if chk.tier == 'quick' else 15000
    cases = gen_cases(chk, n)
    judge(chk, cases)
    corr, front_bad = [], []
    for ci, c in enumerate(cases):
        for l, ext, extra, cfg in LANGS:
            r = c['res'][l]
            sents = sentinels_of(sites_for(c, l))
            chk.evaluations += 1
            chk.count('stream_source' if 'source' in c else 'stream_ir')
            impl, model = r['impl'], r['model']
            if impl[0] != 'ok' or model[0] != 'ok':
                chk.count(f'not_generated_{impl[0]}')
                if not back.same(impl, model):
                    corr.append(payload_of(c, l, {'model': list(model)[:1]}))
                continue
            # the front end delivered the lines the specification says the planted attributes carry
            got = [(p, ds) for p, _, ds in ir_sites(r['ir']) if ds]
            # (a mismatch is recorded, and the real bytes are STILL judged against the lines the specification expects)
            if 'source' in c and sorted(got) != sorted((p, list(ds)) for p, ds in c['sites']):
                front_bad.append(payload_of(c, l, {'ir_sites': got}))
            if 'source' in c and not c.get('carried_agrees', True):
                corr.append(payload_of(c, l, {'note': "extracted c15_carried and the check's own str::trim / lines / split disagree on an attribute value", 'raw_sites': c['raw_sites']}))
            ji, jm = r['impl_judged'], r['model_judged']
            oi, om = observe(impl[1], ji['obs'], sents), observe(model[1], jm['obs'], sents)
            equal = oi == om and ji['good'] == jm['good'] and ji['reproduced'] == jm['reproduced']
            for p, ds in c['sites']:
                chk.count('docs_' + p, len(ds))
            if ci % 41 == 0 and l in ('kotlin', 'python'):
                chk.sample({'lang': l, 'sites': c['sites'][:3], 'written': ji['written'][:4], 'good': ji['good'], 'escaped': describe(oi)})
            if ji['known'] is not None:
                corr.append(payload_of(c, l, {'note': f'known_C15 answered {ji["known"]}: no finding class is left'}))
            in_dom = ji['dom']
            if 'source' in c and not in_dom:
                # C15_carried_safe: cannot happen on what the front end carries
                corr.append(payload_of(c, l, {'note': 'a carried line is not c15_safe', 'unsafe': ji['unsafe']}))
            if 'items' in c and not in_dom:
                # IR-level doc strings with a line break at a position printed as a line comment: no source text produces them
                chk.count('ir_outside_front_end_range_' + l)
                if not equal or impl[1] != model[1]:
                    corr.append(dict(payload_of(c, l, {'escaped': describe(oi)}), model_escaped=describe(om), note='IR-level input outside dom_C15_ir: model and implementation differ'))
                continue
            if ji['good'] and equal:
                chk.count('contained_' + l)
                if any(oi.get(s) for s in sents):
                    chk.nontrivial.add((c.get('source') or json.dumps(c['items'], sort_keys=True), l))
                continue
            pl = payload_of(c, l, {'escaped': describe(oi), 'unsafe_doc_strings': ji['unsafe'], 'reproduced': ji['reproduced'], 'contained': ji['contained'],
                                   'written': ji['written']})
            if not ji['good']:
                missing = [w for w in ji['written'] if w not in impl[1]]
                chk.violation(f'{l}-{c.get("corpus") or ci}', dict(pl, not_reproduced=missing, model_escaped=describe(om)),
                              f'{l}: doc text is not reproduced or leaves its comment: {describe(oi) or (("missing lines " + repr(missing[:3])) if missing else "lexer not back in code at the end of the file")}')
            else:
                corr.append(dict(pl, model_escaped=describe(om)))
    # Python: the Gallina lexer against CPython's tokenize on the real bytes
    for ci, c in enumerate(cases):
        r = c['res']['python']
        if r['impl'][0] != 'ok' or 'impl_judged' not in r:
            continue
        text, obs = r['impl'][1], r['impl_judged']['obs']
        inside, valid = py_tokenize_spans(text)
        for s in sentinels_of(c['sites']):
            i = text.find(s)
            while i >= 0:
                if i + len(s) <= valid:
                    chk.count('python_tokenize_compared')
                    g = all(t in (3, 8) for t in obs[i:i + len(s)])
                    t = all(j in inside for j in range(i, i + len(s)))
                    if g != t:
                        corr.append(payload_of(c, 'python', {'note': f'Spec/Lexers.v says sentinel {s} is {"inside" if g else "outside"} a comment/docstring, CPython tokenize says {"inside" if t else "outside"}'}))
                else:
                    chk.count('python_tokenize_after_error')
                i = text.find(s, i + 1)
    # a sample through the real binary
    if chk.cli_ok:
        sub = [(c, LANGS[k % 6]) for k, c in enumerate([c for c in cases if 'source' in c][:(120 if chk.tier == 'quick' else 1800)])]
        with concurrent.futures.ThreadPoolExecutor(max_workers=vf.NPROC) as ex:
            outs = list(ex.map(run_cli, [(c['source'], l, ext, extra) for c, (l, ext, extra, cfg) in sub]))
        reqs, idx = [], []
        for k, ((c, (l, ext, extra, cfg)), o) in enumerate(zip(sub, outs)):
            chk.evaluations += 1
            chk.count('cli_runs')
            r = c['res'][l]
            if o['text'] is None:
                if r['impl'][0] == 'ok' and any(p != [] for p in c['sites']) and '#[typeshare' in c['source']:
                    chk.count('cli_no_output')
                    if o['rc'] == 0 and r['ir'] and (r['ir'].get('structs') or r['ir'].get('enums') or r['ir'].get('aliases')):
                        corr.append(payload_of(c, l, {'cli': o}))
                continue
            reqs.append(sx_request(l, sites_for(c, l), o['text'], mark_of(c)))
            idx.append(k)
        for k, a in zip(idx, vf.model(reqs)):
            (c, (l, ext, extra, cfg)), o = sub[k], outs[k]
            j = parse_answer(a)
            r = c['res'][l]
            if r['impl'][0] != 'ok':
                continue
            sents = sentinels_of(c['sites'])
            ob, ol = observe(o['text'], j['obs'], sents), observe(r['impl'][1], r['impl_judged']['obs'], sents)
            pl = payload_of(c, l, {'cli_output': o['text'], 'escaped': describe(ob)})
            if not j['good']:
                chk.violation(f'cli-{l}-{k}', pl, f'{l} (real binary): doc text is not reproduced or leaves its comment: {describe(ob)}')
            elif ob != ol or j['good'] != r['impl_judged']['good']:
                corr.append(dict(pl, note='the binary and the library generator give different observations'))
    chk.count('correspondence_mismatches', len(corr))
    chk.count('front_end_mismatches', len(front_bad))
    if not [v for v in chk.violations if not v[2]]:
        if front_bad:
            chk.violation('front', {'correspondence': 'doc lines delivered by parser::parse vs the lines the specification says the planted attributes carry (c15_carried)', 'cases': front_bad[:4]},
                          'the front end does not deliver the carried lines of the planted doc attributes, yet no escaping doc text was found', no_input=True)
        if corr:
            chk.violation('correspondence', {'correspondence': 'lexer observation of the doc sentinels: model bytes vs real bytes (and CPython tokenize for Python)', 'cases': corr[:4]},
                          'model and implementation (or the reference lexer and CPython) disagree, yet no doc text was found to escape', no_input=True)


def replay(chk, path):
    chk.prepare(need_cli=False)
    d = json.load(open(path))
    if 'source' not in d and 'items' not in d:
        print(json.dumps(d, indent=1)[:3000])
        return 0
    c = {'sites': [(p, ds) for p, ds in d['sites']], 'mark_all': d.get('mark_all', False)}
    c.update({'source': d['source']} if 'source' in d else {'items': d['items']})
    judge(chk, [c])
    sents = sentinels_of(c['sites'])
    rc = 0
    for l, _, _, _ in LANGS:
        if d.get('lang') not in (None, l):
            continue
        r = c['res'][l]
        print(f'--- {l}: impl {r["impl"][0]}, model {r["model"][0]}')
        for side in ('impl', 'model'):
            j = r.get(side + '_judged')
            if j:
                o = observe(r[side][1], j['obs'], sents)
                print(f'  {side}: dom={j["dom"]} reproduced={j["reproduced"]} contained={j["contained"]} good={j["good"]} unsafe={j["unsafe"]}')
                print(f'  {side}: escaped: {describe(o)}')
                if side == 'impl' and not j['good'] and (j['dom'] or 'source' in c):
                    rc = 1
        if r['impl'][0] == 'ok':
            print(r['impl'][1])
    return rc
