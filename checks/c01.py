"""C01 - field wire names in generated types equal serde's JSON keys.
Proof: Props/C01.v (front end: typeshare's field ids = serde's keys for every attribute layout; the
decision layer of each of the six back ends binds exactly the IR's key to every member of a struct and
of a struct variant; the key token each printer writes reads back as the key).
Correspondence: generated structs and adjacently tagged enums (lib/progs.py + the C01 field / key
generators below: snake identifiers, raw identifiers, keywords of the six target languages; renames
over [A-Za-z_][A-Za-z0-9_-]* incl. dashed and keyword values; container / variant rename_all over the
8 rules; attribute spellings permuted / split; prefixes, packages, acronym lists varied) go through
  (a) the REAL back ends (harness/libdrive `generate`: parser::parse, reconcile, generate_types) whose
      text lib/extract.py turns into (definition, member index, declared name, wire key, binding);
  (b) the EXTRACTED model (`decls_src`), whose Decl observation is put into the same form;
  (c) the extracted Gallina spec (`c01_expected`: serde's reading of the SOURCE AST, no typeshare code),
      itself validated against the real serde_derive case.rs (`serde_case`) and the generator's ground
      truth, and in the thorough tier against real serde_derive + serde_json on a compiled batch.
Every annotated struct / enum of every program is judged in every language by the extracted
`good_groups_C01` on the implementation's observation."""
import concurrent.futures, json, os, re, subprocess, shutil, pathlib
import vf, progs, back, extract, irgen
from vf import S, Lst

LANGS = ['typescript', 'kotlin', 'swift', 'scala', 'go', 'python']
COQ_LANG = {'typescript': 'TypeScript', 'kotlin': 'Kotlin', 'swift': 'Swift', 'scala': 'Scala', 'go': 'Go', 'python': 'Python'}

# conventionally named fields: plain snake_case, digits, leading / trailing / doubled underscores, and
# the keywords of the six target languages that are legal Rust identifiers
SNAKE = ['id', 'name', 'user_id', 'created_at', 'value', 'items', 'count', 'kind', 'data', 'flag', 'x', 'y2', 'address_line1', 'is_ok',
         'a_b_c', 'a_b', '_a', 'a_', 'a__b', '_9x', 'x1_y2', 'url', 'user_url', 'api_key', 'http2_id', 'q', 'zz_top', '__a', 'b2b']
TARGET_KEYWORDS = [
    # TypeScript
    'class', 'default', 'function', 'delete', 'void', 'new', 'this', 'export', 'import', 'interface', 'instanceof', 'var', 'with', 'package',
    'private', 'public', 'number', 'string', 'any', 'undefined', 'null',
    # Kotlin
    'val', 'fun', 'object', 'when', 'is', 'typealias', 'internal', 'companion', 'data', 'open', 'lateinit',
    # Swift
    'func', 'inout', 'switch', 'case', 'extension', 'protocol', 'init', 'deinit', 'subscript', 'guard', 'defer', 'nil', 'operator', 'associatedtype',
    # Scala
    'def', 'trait', 'implicit', 'lazy', 'sealed', 'given', 'forsome', 'catch', 'throw',
    # Go
    'go', 'chan', 'range', 'map', 'select', 'fallthrough', 'goto',
    # Python
    'lambda', 'pass', 'global', 'nonlocal', 'del', 'elif', 'except', 'from', 'raise', 'assert', 'finally', 'and', 'or', 'not', 'none', 'print']
# Rust keywords that can be written as raw identifiers (most are keywords of a target language too)
RAWABLE = ['type', 'fn', 'let', 'in', 'match', 'ref', 'use', 'mod', 'enum', 'struct', 'static', 'const', 'final', 'override', 'yield', 'as', 'box', 'do',
           'try', 'if', 'else', 'for', 'while', 'return', 'break', 'continue', 'true', 'false', 'impl', 'pub', 'where', 'loop', 'move', 'mut',
           'trait', 'unsafe', 'extern', 'abstract', 'virtual', 'typeof', 'macro', 'priv', 'async', 'await', 'dyn']
KEY_VALUES = ['class', 'type', 'default', 'None', 'True', 'in', 'for', 'func', 'val', 'object', 'self', 'Self', 'super', 'import', 'package', 'def',
              'a-b', 'a_b', 'A-B', 'x-', '_-_', '__', '_', 'X', 'x-y-z', 'Content-Type', 'user-id', 'userId', 'UserID', 'ID', 'id', 'data', 'json',
              'let', 'var', 'struct', 'enum', 'interface', 'is', 'as', 'where', 'init', 'nil', 'null', 'undefined', 'lambda', 'yield', 'go', 'map']


class C01Gen(progs.ProgGen):
    def key(self):
        r = self.rng
        c = r.random()
        if c < 0.35:
            return r.choice(KEY_VALUES)
        n = r.randint(0, 8)
        s = r.choice(progs.KEY_ALPHA + '_') + ''.join(r.choice(progs.KEY_ALPHA + '0123456789_-') for _ in range(n))
        if r.random() < 0.3:
            i = r.randint(1, len(s))
            s = s[:i] + '-' + s[i:]
        return s

    def fields(self, others, generics, lo=0, hi=5):
        r, p = self.rng, self.p
        n = r.randint(lo, hi + 1)
        out, seen = [], set()
        for _ in range(n):
            c = r.random()
            if c < p.p_raw:
                i = 'r#' + r.choice(RAWABLE)
            elif c < p.p_raw + 0.3:
                i = r.choice(TARGET_KEYWORDS)
            else:
                i = r.choice(SNAKE)
            bare = i[2:] if i.startswith('r#') else i
            if bare in seen or (not i.startswith('r#') and i in progs.RUST_KEYWORDS):
                continue
            seen.add(bare)
            out.append(self.field(i, others, generics))
        live = [f for f in out if f.skip is None]
        if len(live) >= 2 and r.random() < 0.06:      # keys that differ only in '-' / '_' within one member list
            a, b = r.sample(live, 2)
            a.rename, b.rename = r.choice([('a-b', 'a_b'), ('x_y-z', 'x-y_z'), ('k-', 'k_')])
        return out


def profile():
    return progs.Profile(n_items=(1, 5), p_unannotated=0.1, p_nested=0.15, p_rename=0.4, p_rename_type=0.1, p_rename_all=0.65,
                         p_raw=0.15, p_skip=0.1, p_default=0.15, p_option=0.25, p_doc=0.2, p_generic=0.15, type_depth=1,
                         kinds=['struct', 'struct', 'struct', 'alg_enum', 'alg_enum', 'alg_enum', 'unit_enum', 'alias', 'newtype', 'unit_struct'])


def gen_cfg(rng, lang, prog):
    nvh = rng.random() < 0.7
    c = {'no_version_header': nvh, 'version': vf.core_version()}
    if lang == 'kotlin':
        c.update(package=rng.choice(['p', 'com.agilebits.onepassword', '']), prefix=rng.choice(['', 'OP', 'X_']), module_name=rng.choice(['', 'm']))
    elif lang == 'swift':
        c.update(prefix=rng.choice(['', 'OP', 'X_']), default_decorators=rng.choice([[], ['Sendable', 'Identifiable']]),
                 codablevoid_constraints=rng.choice([[], ['Equatable']]))
    elif lang == 'scala':
        c.update(package=rng.choice(['p.q', 'com.x.y']), module_name=rng.choice(['', 'm']))
    elif lang == 'go':
        acr = rng.choice([[], [], ['ID', 'URL'], ['API', 'HTTP', 'ID']])
        names = ' '.join([it.ident + (it.rename or '') for it in prog.items] + [v.ident for it in prog.items for v in it.variants]).lower()
        if any(a.lower() in names for a in acr):      # definition names stay predictable (member names do get converted)
            acr = []
        c.update(package=rng.choice(['p', 'types']), uppercase_acronyms=acr, no_pointer_slice=rng.random() < 0.3)
    return c


def def_name(lang, cfg, it):
    """the name a struct is declared under (C09's business; used here only to find the definition)"""
    n = it.rename if it.rename is not None else it.ident
    return cfg.get('prefix', '') + n if lang in ('kotlin', 'swift') else n


# ---------------------------------------------------------------- observations in one form
def norm_binding(lang, name, key, b):
    # Swift: a CodingKeys case without raw value binds the case name; the extractor labels every member of a
    # struct with a CodingKeys enum 'coding_key', the model only those with a raw value
    if lang == 'swift' and b == 'coding_key' and name == key:
        return 'name'
    return b


def obs_impl(lang, text):
    ex = extract.extract(lang, text)
    out = []
    for d in ex['definitions']:
        if d['kind'] == 'struct':
            out.append({'kind': 'struct', 'name': d['name'], 'inner_of': list(d['inner_of']) if d.get('inner_of') else None,
                        'groups': [[[m['name'], m['wire_key'], norm_binding(lang, m['name'], m['wire_key'], m['key_binding'])] for m in d['members']]]})
        elif d['kind'] == 'enum':
            gs = [[[m['name'], m['wire_key'], norm_binding(lang, m['name'], m['wire_key'], m['key_binding'])] for m in v['members']]
                  for v in d['variants'] if v.get('payload') == 'struct' and v.get('members') is not None and lang == 'typescript']
            if lang == 'typescript':     # the other five declare no members inside an enum
                out.append({'kind': 'enum', 'name': d['name'], 'inner_of': None, 'groups': gs})
    return out, ex['unparsed'], ex['anomalies']


def sx_member(m):
    # (member name escaped key binding optional type docs)
    name, key, b = vf.unS(m[1]), vf.unS(m[3]), m[4]
    return [name, key, b]


def obs_model(lang, fd):
    # (file header imports decls helper_defs); decl = (decl kind name escaped generics docs members variants ...)
    out = []
    for d in fd[3]:
        kind, name, docs = d[1], vf.unS(d[2]), [vf.unS(x) for x in d[5]]
        if kind == 'struct':
            m = extract.INNER_DOC.match(docs[0]) if docs else None
            out.append({'kind': 'struct', 'name': name, 'inner_of': [m.group(2), m.group(1)] if m else None,
                        'groups': [[sx_member(x) for x in d[6]]]})
        elif kind == 'enum':
            gs = []
            for v in d[7]:
                pay = v[3]
                if isinstance(pay, list) and pay[0] == 'inline':
                    gs.append([sx_member(x) for x in pay[1]])
            if lang == 'typescript':
                out.append({'kind': 'enum', 'name': name, 'inner_of': None, 'groups': gs})
    for o in out:
        for g in o['groups']:
            for mem in g:
                mem[2] = norm_binding(lang, mem[0], mem[1], mem[2])
    return out


def item_groups(lang, cfg, it, obs):
    """the member lists the observation `obs` declares for source item `it`, in order; None = definition not found"""
    def pick(cands, name):
        ds = [d for d in cands if d['name'] == name]
        if not ds:      # definition names are C09's subject: fall back to a name that ends with / contains the identifier
            base = it.rename if it.rename is not None else it.ident
            ds = [d for d in cands if d['name'].endswith(base)] or [d for d in cands if base in d['name']]
        return ds[0]['groups'] if len(ds) == 1 else None
    if it.kind in ('struct', 'unit_struct'):
        return pick([d for d in obs if d['kind'] == 'struct' and d['inner_of'] is None], def_name(lang, cfg, it))
    if it.kind in ('alg_enum', 'unit_enum'):
        if lang == 'typescript':
            return pick([d for d in obs if d['kind'] == 'enum'], it.rename if it.rename is not None else it.ident)
        return [g for d in obs if d['kind'] == 'struct' and d['inner_of'] and d['inner_of'][0] == it.ident for g in d['groups']]
    return []


def sx_groups(gs):
    return Lst(gs, lambda g: Lst(g, lambda m: f'({S(m[0])} {S(m[1] if m[1] is not None else chr(0))} {m[2]})'))


# ---------------------------------------------------------------- ground truth of the generator, through the real case.rs
def truth_requests(prog):
    """(rule, name) pairs whose serde key is needed"""
    req = set()
    for it in prog.items:
        if it.kind == 'struct':
            for f in it.fields:
                if f.rename is None and it.rename_all is not None:
                    req.add((it.rename_all, f.name))
        for v in it.variants:
            for f in v.fields:
                if f.rename is None and v.rename_all is not None:
                    req.add((v.rename_all, f.name))
    return req


def truth_groups(it, case):
    def keys(fields, rule):
        return [f.rename if f.rename is not None else (case[(rule, f.name)] if rule is not None else f.name) for f in fields if f.skip is None]
    if it.kind == 'struct':
        return [keys(it.fields, it.rename_all)]
    if it.kind == 'unit_struct':
        return [[]]
    if it.kind in ('alg_enum', 'unit_enum'):
        return [keys(v.fields, v.rename_all) for v in it.variants if v.kind == 'struct' and v.skip is None]
    return []


EXT = {'typescript': 'ts', 'kotlin': 'kt', 'swift': 'swift', 'scala': 'scala', 'go': 'go', 'python': 'py'}


def gen_cfg_binary(rng, lang):
    """a configuration the command line can express; the binary always writes the version header"""
    c = {'no_version_header': False, 'version': vf.core_version()}
    if lang == 'kotlin':
        c.update(package=rng.choice(['p', 'com.agilebits.onepassword']), prefix=rng.choice(['', 'OP', 'X_']), module_name=rng.choice(['', 'm']))
    elif lang == 'swift':
        c.update(prefix=rng.choice(['', 'OP', 'X_']))
    elif lang == 'scala':
        c.update(package=rng.choice(['p.q', 'com.x.y']), module_name=rng.choice(['', 'm']))
    elif lang == 'go':
        c.update(package=rng.choice(['p', 'types']))
    return c


def run_binary(args):
    """the real typeshare binary on one source file in a fresh directory -> libdrive-shaped answer"""
    lang, cfg, src = args
    d = vf.tmpdir('verif-c01-')
    (d / 'src').mkdir()
    (d / 'src' / 'lib.rs').write_text(src)
    out = d / f'out.{EXT[lang]}'
    flags = []
    for key, flag in {'kotlin': [('package', '--java-package'), ('prefix', '--kotlin-prefix'), ('module_name', '--module-name')],
                      'swift': [('prefix', '--swift-prefix')],
                      'scala': [('package', '--scala-package'), ('module_name', '--scala-module-name')],
                      'go': [('package', '--go-package')]}.get(lang, []):
        if cfg.get(key):
            flags += [flag, cfg[key]]
    try:
        pr = subprocess.run(['timeout', '20', str(vf.TYPESHARE), '--lang', lang, '-o', str(out)] + flags + [str(d / 'src')],
                            capture_output=True, text=True, timeout=40, cwd=d)
        rc, err = pr.returncode, pr.stderr
    except subprocess.TimeoutExpired:
        rc, err = 124, 'timeout'
    text = out.read_text() if out.exists() else None
    shutil.rmtree(d, ignore_errors=True)
    if rc == 0 and text is not None:
        return {'ok': text}
    if rc == 0:
        return {'none': True}
    return {'panic': f'exit {rc}'} if rc in (101, 124, 134) else {'err': err[-300:]}


def _extract_job(args):
    lang, text = args
    return obs_impl(lang, text)


# ---------------------------------------------------------------- one batch
def run_batch(chk, cases, via_binary=False):
    """cases: list of (prog, src, {lang: cfg}).  Returns the number of violations reported."""
    nviol = 0
    srcs = [c[1] for c in cases]
    asts = vf.impl([{'cmd': 'ast', 'src': s} for s in srcs])
    # serde spec from the source AST (extracted Gallina)
    exp = vf.model([f'(c01_expected () {a["ok"]})' for a in asts])
    # ground truth through the real serde_derive case.rs
    reqs = sorted(set(q for c in cases for q in truth_requests(c[0])))
    case_res = vf.impl([{'cmd': 'serde_case', 'pos': 'field', 'rule': r, 's': n} for r, n in reqs])
    case = {q: r.get('ok') for q, r in zip(reqs, case_res)}
    # real back ends and the model
    jobs = [(k, lang) for k, c in enumerate(cases) for lang in LANGS]
    if via_binary:
        with concurrent.futures.ThreadPoolExecutor(max_workers=vf.NPROC) as ex:
            impl = list(ex.map(run_binary, [(lang, cases[k][2][lang], srcs[k]) for k, lang in jobs]))
        chk.count('files_through_the_binary', len(jobs))
    else:
        impl = vf.impl([{'cmd': 'generate', 'lang': lang, 'cfg': cases[k][2][lang], 'src': srcs[k], 'target_os': []} for k, lang in jobs])
    model = vf.model([f'(decls_src {lang} {back.cfg_sx(cases[k][2][lang])} {asts[k]["ok"]} {asts[k]["tstrs"]} ())' for k, lang in jobs])
    mtext = vf.model([f'(gen_src {lang} {back.cfg_sx(cases[k][2][lang])} {asts[k]["ok"]} {asts[k]["tstrs"]} ())' for k, lang in jobs])
    for (k, lang), r, mt in zip(jobs, impl, mtext):
        if 'ok' in r and mt[0] == 'ok':
            chk.count('bytes_compared')
            if vf.unS(mt[1]) != r['ok']:
                chk.count(f'render_drift_{lang}')
    with concurrent.futures.ProcessPoolExecutor(max_workers=vf.NPROC) as ex:
        iobs = list(ex.map(_extract_job, [(lang, r['ok']) if 'ok' in r else (lang, '') for (k, lang), r in zip(jobs, impl)], chunksize=16))
    judge_req, judge_meta = [], []
    for (k, lang), r, m, (io, unparsed, anomalies) in zip(jobs, impl, model, iobs):
        prog, src, cfgs = cases[k]
        cfg = cfgs[lang]
        payload = {'lang': lang, 'cfg': cfg, 'src': src}
        chk.count('files_generated')
        ic = back.impl_canon(r)
        if ic[0] != 'ok' or m[0] != 'ok':
            mc = m[0]
            chk.count(f'not_generated_{lang}_{ic[0]}')
            if (ic[0] == 'ok') != (mc == 'ok'):
                chk.count('outcome_mismatch')
                soft(chk).append(('outcome', dict(payload, impl=list(ic), model=mc),
                                  'model and implementation disagree on whether output is produced'))
            continue
        mo = obs_model(lang, m[1])
        if unparsed or [a for a in anomalies if 'CodingKeys' in a]:
            chk.count(f'extractor_unparsed_{lang}')
            chk.notes.append(f'extractor: {lang} seed {prog.seed}: {unparsed[:2]} {anomalies[:2]}') if len(chk.notes) < 10 else None
        if unparsed and io != obs_model(lang, m[1]) and chk.unreadable(lang, payload, unparsed):
            continue          # the real text has lines the extractor cannot read AND the observation differs from the model's: not judgeable
        same_obs = io == mo
        if not same_obs:
            chk.count(f'obs_mismatch_{lang}')
        expected = exp[k]
        byname = {}
        for e in expected:
            byname.setdefault(vf.unS(e[0]), []).append(e)
        for it in prog.items:
            if not it.annotated or it.kind not in ('struct', 'unit_struct', 'alg_enum', 'unit_enum'):
                continue
            es = byname.get(it.ident, [])
            if len(es) != 1:
                chk.violation(f'spec-items-{prog.seed}', dict(payload, item=it.ident), 'the spec does not list the annotated item exactly once', no_input=True)
                nviol += 1
                continue
            e = es[0]
            in_dom = e[2] == 'true'
            egroups = None if e[4] == 'none' else [[vf.unS(kk) for kk in g] for g in e[4][1]]
            truth = truth_groups(it, case)
            if egroups != truth:
                chk.violation(f'spec-truth-{prog.seed}-{it.ident}', dict(payload, item=it.ident, spec=egroups, truth=truth),
                              "Spec/Serde.v's keys differ from the generator's ground truth computed with the real serde_derive case.rs", no_input=True)
                nviol += 1
                continue
            if not in_dom or egroups is None:
                chk.count('outside_src_domain')
                continue
            ig, mg = item_groups(lang, cfg, it, io), item_groups(lang, cfg, it, mo)
            judge_req.append(f'(c01_judge {COQ_LANG[lang]} {Lst(egroups, lambda g: Lst(g, S))} {sx_groups(ig if ig is not None else [])})')
            judge_req.append(f'(c01_judge {COQ_LANG[lang]} {Lst(egroups, lambda g: Lst(g, S))} {sx_groups(mg if mg is not None else [])})')
            judge_meta.append((k, lang, it, egroups, ig, mg, same_obs and ig == mg))
    verdicts = vf.model(judge_req)
    mismatch = []
    for n, (k, lang, it, egroups, ig, mg, same) in enumerate(judge_meta):
        vi, vm = verdicts[2 * n], verdicts[2 * n + 1]
        prog, src, cfgs = cases[k]
        payload = {'lang': lang, 'cfg': cfgs[lang], 'src': src, 'item': it.ident, 'expected': egroups, 'impl_groups': ig, 'model_groups': mg}
        dom = vf.sx_get(vi, 'dom') == 'true'
        if not dom:
            chk.count(f'outside_key_domain_{lang}')
            if not same:
                mismatch.append(payload)
            continue
        good_i = ig is not None and vf.sx_get(vi, 'good') == 'true'
        good_m = mg is not None and vf.sx_get(vm, 'good') == 'true'
        if chk.tier == 'thorough' and ig is not None and len(xc(chk)) < 400 and sum(len(g) for g in egroups):
            xc(chk).append((lang, egroups, ig, vf.sx_get(vi, 'dom'), vf.sx_get(vi, 'good')))
        known = vf.sx_opt(vf.sx_get(vi, 'known'))
        nkeys = sum(len(g) for g in egroups)
        chk.count(f'judged_{lang}')
        chk.evaluations += 1
        if nkeys:
            chk.nontrivial.add((prog.seed, it.ident, lang))
            chk.count('keys_judged', nkeys)
            for g in egroups:
                for kk in g:
                    if '-' in kk:
                        chk.count(f'dashed_keys_{lang}')
        if not good_m:
            # the theorem says the model is good on the domain: proof and extracted model disagree
            chk.violation(f'model-{lang}-{prog.seed}-{it.ident}', payload, 'the extracted model violates its own theorem (good_groups_C01 false on the model observation)', no_input=not (not good_i))
            nviol += 1
        if good_i and same:
            if nkeys >= 3 and any('-' in kk for g in egroups for kk in g):
                chk.sample({'lang': lang, 'item': it.ident, 'serde_keys': egroups, 'bound': ig}, cap=8)
            continue
        if not good_i:
            if known is not None and same and chk.known(known, payload):
                continue
            what = ('definition not found in the output' if ig is None else
                    f'{lang}: the keys bound by the generated members {[[m[1] for m in g] for g in ig]} are not serde\'s keys {egroups}')
            chk.violation(f'{lang}-{prog.seed}-{it.ident}', payload, what)
            nviol += 1
            continue
        mismatch.append(payload)
    if mismatch:
        chk.counters['obs_mismatch_cases'] = chk.counters.get('obs_mismatch_cases', 0) + len(mismatch)
        soft(chk).append(('correspondence', dict(mismatch[0], n_cases=len(mismatch)),
                          'model and implementation observations (definition, member, wire key, binding) differ although the implementation satisfies good_C01'))
    return nviol


def xc(chk):
    if not hasattr(chk, 'c01_xc'):
        chk.c01_xc = []
    return chk.c01_xc


BIND_COQ = {'name': 'BName', 'quoted': 'BQuoted', 'serial_name': 'BSerialName', 'coding_key': 'BCodingKey', 'json_tag': 'BJsonTag', 'alias': 'BAlias'}


def cross_check_extraction(chk):
    """thorough tier: a sample of the verdicts the EXTRACTED predicates gave is recomputed inside Coq (vm_compute)"""
    def cl(xs, f):
        return '[' + '; '.join(f(x) for x in xs) + ']'
    def mem(m):
        return ('{| mb_name := ' + vf.coq_lit_str(m[0]) + '; mb_escaped := false; mb_key := ' + vf.coq_lit_str(m[1] or '') + '; mb_binding := ' + BIND_COQ[m[2]] +
                '; mb_optional := false; mb_type := XRaw []; mb_docs := [] |}')
    eqs = []
    for lang, eg, ig, dom, good in xc(chk):
        e = cl(eg, lambda g: cl(g, vf.coq_lit_str))
        gs = cl(ig, lambda g: cl(g, mem))
        eqs.append(f'(dom_C01 {COQ_LANG[lang]} {e}, good_groups_C01 {COQ_LANG[lang]} {e} {gs}) = ({dom}, {good})')
    bad = vf.coq_check_equalities('From Coq Require Import List NArith. Import ListNotations.\nFrom TS Require Import Model.Str Model.Types Model.Lang.Decl Spec.C01Spec.', eqs)
    chk.counters['verdicts_recomputed_in_coq'] = len(eqs)
    for name, rc, msg in bad:
        chk.violation('extraction-cross-check', {'file': name, 'detail': msg}, 'a verdict of the extracted predicates is not reproduced by vm_compute inside Coq', no_input=True)


def soft(chk):
    """disagreements between model and implementation without a failing input: reported (once per kind) only when
    the search found no input on which the implementation fails"""
    if not hasattr(chk, 'c01_soft'):
        chk.c01_soft = []
    return chk.c01_soft


def report_soft(chk):
    if any(not v[2] for v in chk.violations):
        return
    seen = set()
    for kind, payload, what in soft(chk):
        if kind not in seen:
            seen.add(kind)
            chk.violation(kind, dict(payload, n_cases=sum(1 for x in soft(chk) if x[0] == kind)), what, no_input=True)


# ---------------------------------------------------------------- IR-level: the back ends on IR values the parser cannot produce
KEY_OK = re.compile(r'[A-Za-z0-9_-]+')


def run_ir_batch(chk, n):
    """seeded IR item sets (lib/irgen.py: keyword / capitalised originals, dashed / camelCase / upper-case keys unrelated to
    any rename_all rule) straight into generate_types (libdrive generate_ir) and the extracted model (decls_ir): the expected
    keys are the `renamed` ids the generator planted, judged by the same extracted good_groups_C01"""
    import random
    cases = []
    for _ in range(n):
        sd = chk.rng.getrandbits(32)
        r = random.Random(sd)
        items = irgen.Gen(r, edge=0.3).items(1, 4)
        items['consts'] = []            # Kotlin / Swift / Scala stop at consts (C07 / C03)
        for lang in LANGS:
            cfg = gen_cfg(r, lang, progs.Program(sd))
            if lang == 'go':
                cfg['uppercase_acronyms'] = []      # definition names stay predictable
            cases.append((sd, lang, cfg, items, r.random() < 0.5))
    res = back.run_ir([(lang, cfg, items, rec) for sd, lang, cfg, items, rec in cases])
    mdecl = vf.model([f'(decls_ir {lang} {back.cfg_sx(cfg)} {back.items_sx(items)} {vf.B(rec)})' for sd, lang, cfg, items, rec in cases])
    with concurrent.futures.ProcessPoolExecutor(max_workers=vf.NPROC) as ex:
        iobs = list(ex.map(_extract_job, [(c[1], r['impl'][1]) if r['impl'][0] == 'ok' else (c[1], '') for c, r in zip(cases, res)], chunksize=16))
    req, meta = [], []
    for (sd, lang, cfg, items, rec), r, m, (io, unparsed, anomalies) in zip(cases, res, mdecl, iobs):
        payload = {'lang': lang, 'cfg': cfg, 'items': items, 'reconcile': rec}
        chk.count('ir_files')
        if r['impl'][0] != 'ok' or m[0] != 'ok':
            chk.count(f'ir_not_generated_{lang}')
            if (r['impl'][0] == 'ok') != (m[0] == 'ok'):
                soft(chk).append(('ir-outcome', dict(payload, impl=r['impl'][0], model=m[0]), 'model and implementation disagree on whether output is produced (IR level)'))
            continue
        if r['impl'][1] != r['model'][1]:
            chk.count(f'render_drift_{lang}')
        mo = obs_model(lang, m[1])
        if unparsed and io != mo and chk.unreadable(lang, payload, unparsed):
            continue
        pre = cfg.get('prefix', '') if lang in ('kotlin', 'swift') else ''
        for st in items['structs']:
            eg = [[f['id']['renamed'] for f in st['fields']]]
            pick = lambda obs: ([d['groups'] for d in obs if d['kind'] == 'struct' and d['inner_of'] is None and d['name'] == pre + st['id']['renamed']] or [None])[0]
            req.append((lang, eg, pick(io), pick(mo), payload, st['id']['original']))
        for en in items['enums']:
            eg = [[f['id']['renamed'] for f in v['fields']] for v in en['variants'] if v['k'] == 'struct']
            if lang == 'typescript':
                pick = lambda obs: ([d['groups'] for d in obs if d['kind'] == 'enum' and d['name'] == en['id']['renamed']] or [None])[0]
            else:
                pick = lambda obs: [g for d in obs if d['kind'] == 'struct' and d['inner_of'] and d['inner_of'][0] == en['id']['original'] for g in d['groups']]
            req.append((lang, eg, pick(io), pick(mo), payload, en['id']['original']))
    verdicts = vf.model([f'(c01_judge {COQ_LANG[lang]} {Lst(eg, lambda g: Lst(g, S))} {sx_groups(ig if ig is not None else [])})' for lang, eg, ig, mg, _, _ in req])
    for (lang, eg, ig, mg, payload, ident), v in zip(req, verdicts):
        if vf.sx_get(v, 'dom') != 'true':
            chk.count(f'ir_outside_key_domain_{lang}')
            continue
        chk.evaluations += 1
        chk.count(f'ir_judged_{lang}')
        if sum(len(g) for g in eg):
            chk.nontrivial.add(('ir', ident, lang, len(chk.nontrivial)))
        good = ig is not None and vf.sx_get(v, 'good') == 'true'
        pl = dict(payload, item=ident, expected=eg, impl_groups=ig, model_groups=mg)
        if not good:
            chk.violation(f'ir-{lang}-{ident}-{len(chk.violations)}', pl,
                          f'{lang} (IR level): the keys bound by the generated members are not the renamed ids {eg}')
        elif ig != mg:
            soft(chk).append(('ir-correspondence', pl, 'model and implementation observations differ at IR level although the implementation satisfies good_C01'))


def make_case(rng, seed):
    import random
    r = random.Random(seed)
    g = C01Gen(r, profile())
    prog = g.program(seed)
    for it in prog.items:       # variant wire names are C02's subject: keep them plain here
        for v in it.variants:
            if v.rename is not None and not re.fullmatch(r'[A-Za-z][A-Za-z0-9]*', v.rename):
                v.rename = r.choice(['Renamed', 'other', 'V2'])
        # serde's enum-level rename_all_fields (1.0.183+) is not read by typeshare and is outside the rule the property spells out;
        # it is planted only where it changes nothing for serde either: every struct variant has a rename_all of its own, which
        # takes precedence in serde (seeded C01_f: support for the attribute added with the precedence reversed)
        structs = [v for v in it.variants if v.kind == 'struct' and v.skip is None]
        if it.kind == 'alg_enum' and structs and all(v.rename_all in progs.RULES for v in structs) and r.random() < 0.5:
            it.extra_attrs.append(f'#[serde(rename_all_fields = "{r.choice(progs.RULES)}")]')
    src = progs.source(prog)
    cfgs = {lang: gen_cfg(r, lang, prog) for lang in LANGS}
    return prog, src, cfgs


# keys OUTSIDE the theorem's key alphabet (real JSON keys all the same: punctuation, spaces, quotes, non-ASCII)
ODD_KEYS = ["it's", 'first name', '$ref', '@type', 'a.b', 'a/b', 'x:y', 'naïve', '#id', 'q?', "o'c'k", 'a+b', '(x)', '1st', 'say "hi"', 'back\\slash', 'tab\there']


def run_odd_keys(chk, n):
    """Outside the key alphabet nothing is judged (the extractors cannot read such members and several back ends print ill-formed
    declarations there), but the byte-faithful model still has to agree with the real generators: whole output bytes of model and
    real code on programs whose renames are drawn from ODD_KEYS, all six languages (seeded C01_e: Go's struct tag escaping an
    apostrophe).  A difference is a broken correspondence, reported without a failing input."""
    import random
    cases = []
    for _ in range(n):
        sd = chk.rng.getrandbits(32)
        r = random.Random(sd)
        g = C01Gen(r, profile())
        prog = g.program(sd)
        fields = [f for it in prog.items for f in list(it.fields) + [vf_ for v in it.variants for vf_ in v.fields]]
        if not fields:
            continue
        for f in r.sample(fields, min(len(fields), r.randint(1, 3))):
            f.rename = r.choice(ODD_KEYS)
        for it in prog.items:
            for v in it.variants:
                if v.rename is not None and not re.fullmatch(r'[A-Za-z][A-Za-z0-9]*', v.rename):
                    v.rename = 'Renamed'
        src = progs.source(prog)
        for lang in LANGS:
            cases.append((lang, gen_cfg(r, lang, prog), src, []))
    res = back.run_src(cases)
    bad = []
    for (lang, cfg, src, _), r in zip(cases, res):
        chk.count('odd_key_files')
        if not back.same(r['impl'], r['model']):
            chk.count(f'odd_key_mismatch_{lang}')
            bad.append({'lang': lang, 'cfg': cfg, 'src': src, 'impl': list(r['impl'])[:1] + [str(r['impl'][1])[:1500]], 'model': list(r['model'])[:1] + [str(r['model'][1])[:1500]]})
    if bad:
        soft(chk).append(('correspondence-odd-keys', dict(bad[0], n_cases=len(bad)),
                          'on keys outside the theorem\'s alphabet the bytes of the model and of the real generator differ'))


def run(chk):
    chk.rule = ('programs of 1-5 items (structs, adjacently tagged enums with struct variants, decoys) with fields drawn from snake identifiers, '
                'raw identifiers and target-language keywords; per-field serde(rename) over [A-Za-z_][A-Za-z0-9_-]* incl. dashed / keyword values and '
                "pairs differing only in '-'/'_'; container and variant rename_all over the 8 rules or absent; attributes permuted and split; six "
                'languages with varied prefix / package / acronym configuration. A case = (item, language); non-trivial = inside dom_C01 with at least one key.')
    chk.assumptions = ['what a Kotlin/Swift/Go/TypeScript/Scala/pydantic decoder makes of a declaration is the reading written in Model/Lang/Decl.v '
                       '(no compilers installed): @SerialName / CodingKeys raw value / json tag / quoted property / alias= carry the key, a bare member its name',
                       'syn is not modelled (AST obtained from the same text through harness/libdrive ast)',
                       'C16 covers identifiers outside snake_case; C03 covers which members appear']
    chk.prepare(need_cli=True)
    if not chk.harness_ok:
        return
    n = 1500 if chk.tier == 'quick' else 30000
    seeds = [chk.rng.getrandbits(32) for _ in range(n)]
    batch = 500
    for i in range(0, n, batch):
        cases = [make_case(chk.rng, s) for s in seeds[i:i + batch]]
        run_batch(chk, cases)
    if chk.cli_ok:      # the whole pipeline through the real binary (command-line configuration)
        import random
        nb = 40 if chk.tier == 'quick' else 600
        bcases = []
        for sd in [chk.rng.getrandbits(32) for _ in range(nb)]:
            prog, src, _ = make_case(chk.rng, sd)
            r = random.Random(sd + 1)
            bcases.append((prog, src, {lang: gen_cfg_binary(r, lang) for lang in LANGS}))
        run_batch(chk, bcases, via_binary=True)
    run_ir_batch(chk, 150 if chk.tier == 'quick' else 3000)
    run_odd_keys(chk, 60 if chk.tier == 'quick' else 1200)
    if chk.cli_ok:
        # folder-output mode against the same crates generated alone (lib/multi.py): keys and bindings must not depend on what
        # another crate of the run contains (seeded C01_g)
        import multi
        nw = 12 if chk.tier == 'quick' else 150
        wss = [[make_case(chk.rng, chk.rng.getrandbits(32))[1] for _ in range(chk.rng.choice([2, 3, 3]))] for _ in range(nw)]
        multi.independent_crates(chk, wss, multi.facet_keys, 'keys and their bindings (C01)')
    report_soft(chk)
    if chk.tier == 'thorough':
        serde_ground_truth(chk, seeds[:1500])
        cross_check_extraction(chk)


# ---------------------------------------------------------------- thorough: real serde_derive + serde_json
def rs_fields(r, fields):
    """the non-skipped fields with their serde attributes as the generator spells them (permuted / split), all of type u8"""
    lines, idents = [], []
    for f in fields:
        if f.skip is not None:
            continue
        for a in progs.field_attrs(r, f):
            if a.startswith('#[serde('):
                lines.append('        ' + a)
        lines.append(f'        {f.ident}: u8,')
        idents.append(f.ident)
    return lines, idents


def rs_module(k, it, seed):
    """Rust module deriving Serialize for the item (field types replaced by u8) and printing one JSON text per member list"""
    import random
    r = random.Random(seed)
    out = [f'mod c{k} {{', '    use serde::Serialize;']
    prints = []
    if it.kind == 'struct':
        parts = ([f'rename_all = {progs.rs_lit(it.rename_all)}'] if it.rename_all is not None else [])
        out += ['    #[derive(Serialize)]'] + ['    ' + a for a in progs.serde_attrs(r, parts)]
        lines, idents = rs_fields(r, it.fields)
        out += ['    pub struct S {'] + lines + ['    }']
        prints.append('S { ' + ', '.join(f'{i}: 0' for i in idents) + ' }')
    else:
        parts = [f'tag = "t"', f'content = "c"'] + ([f'rename_all = {progs.rs_lit(it.rename_all)}'] if it.rename_all is not None else [])
        out += ['    #[derive(Serialize)]'] + ['    ' + a for a in progs.serde_attrs(r, parts)]
        out += ['    #[allow(dead_code)]', '    pub enum E {']
        for n, v in enumerate(it.variants):
            if v.skip is not None:
                continue
            vparts = ([f'rename_all = {progs.rs_lit(v.rename_all)}'] if v.rename_all is not None else [])
            out += ['        ' + a for a in progs.serde_attrs(r, vparts)]
            if v.kind == 'struct':
                lines, idents = rs_fields(r, v.fields)
                out += [f'        V{n} {{'] + ['    ' + l for l in lines] + ['        },']
                prints.append(f'E::V{n} {{ ' + ', '.join(f'{i}: 0' for i in idents) + ' }')
            elif v.kind == 'tuple':
                out.append(f'        V{n}(u8),')
            else:
                out.append(f'        V{n},')
        out.append('    }')
    out.append('    pub fn run() {')
    for g, e in enumerate(prints):
        out.append(f'        println!("{k} {g} {"S" if it.kind == "struct" else "E"} {{}}", serde_json::to_string(&{e}).unwrap());')
    out += ['    }', '}']
    return out, len(prints)


def serde_ground_truth(chk, seeds):
    """compile a batch of generated types with the real serde_derive and compare the JSON keys serde_json
    writes with Spec/Serde.v's keys (validates the oracle itself)"""
    cases = [make_case(chk.rng, s) for s in seeds]
    asts = vf.impl([{'cmd': 'ast', 'src': c[1]} for c in cases])
    exp = vf.model([f'(c01_expected () {a["ok"]})' for a in asts])
    mods, meta = [], []
    for (prog, src, cfgs), e in zip(cases, exp):
        byname = {vf.unS(x[0]): x for x in e}
        for it in prog.items:
            if it.annotated and it.kind in ('struct', 'alg_enum') and it.ident in byname and byname[it.ident][2] == 'true' and byname[it.ident][4] != 'none':
                x = byname[it.ident]
                lines, n = rs_module(len(meta), it, prog.seed)
                mods += lines
                meta.append((prog.seed, it.ident, [[vf.unS(kk) for kk in g] for g in x[4][1]], n))
    d = vf.tmpdir('verif-c01-serde-')
    (d / 'src').mkdir()
    (d / 'Cargo.toml').write_text('[package]\nname = "c01serde"\nversion = "0.1.0"\nedition = "2021"\n[workspace]\n[dependencies]\n'
                                  'serde = { version = "1", features = ["derive"] }\nserde_json = "1"\n[profile.dev]\nopt-level = 0\ndebug = false\n')
    lock = vf.ROOT / 'harness' / 'libdrive' / 'Cargo.lock'
    (d / 'src' / 'main.rs').write_text('#![allow(non_snake_case, non_camel_case_types, unused)]\n' + '\n'.join(mods) + '\nfn main() {\n' +
                                       '\n'.join(f'    c{k}::run();' for k in range(len(meta))) + '\n}\n')
    env = dict(vf.ENV, CARGO_TARGET_DIR=str(vf.BUILD / 'c01-serde-target'))
    rc, out, err = vf.run(['cargo', 'run', '--offline', '-q'], cwd=d, env=env, timeout=1500)
    if rc != 0:
        chk.notes.append('serde ground truth: the batch did not build / run: ' + err[-600:])
        chk.violation('serde-ground-truth-build', {'stderr': err[-3000:]}, 'the serde_derive + serde_json batch could not be built', no_input=True)
        return
    got = {}
    for line in out.splitlines():
        k, g, kind, js = line.split(' ', 3)
        pairs = json.loads(js, object_pairs_hook=lambda ps: ps)
        if kind == 'E':       # adjacently tagged: {"t": .., "c": {..}}
            inner = [v for kk, v in pairs if kk == 'c']
            keys = [kk for kk, _ in inner[0]] if inner and isinstance(inner[0], list) else None
        else:
            keys = [kk for kk, _ in pairs]
        got.setdefault(int(k), {})[int(g)] = keys
    bad = 0
    for k, (seed, ident, egroups, n) in enumerate(meta):
        real = [got.get(k, {}).get(g) for g in range(n)]
        chk.count('serde_json_items')
        chk.count('serde_json_keys', sum(len(g) for g in egroups))
        if real != egroups:
            bad += 1
            chk.violation(f'serde-ground-truth-{seed}-{ident}', {'seed': seed, 'item': ident, 'spec': egroups, 'serde_json': real},
                          "Spec/Serde.v's keys differ from the keys real serde_derive + serde_json write", no_input=True)
    chk.notes.append(f'serde ground truth: {len(meta)} items compiled with real serde_derive, {bad} disagreements with the Gallina spec')


def replay(chk, path):
    p = json.loads(pathlib.Path(path).read_text())
    chk.prepare(need_cli=False)
    if 'items' in p and 'lang' in p:      # IR-level case
        lang, cfg, items, rec = p['lang'], p['cfg'], p['items'], p.get('reconcile', False)
        r = back.run_ir([(lang, cfg, items, rec)])[0]
        m = vf.model([f'(decls_ir {lang} {back.cfg_sx(cfg)} {back.items_sx(items)} {vf.B(rec)})'])[0]
        print('--- implementation output'); print(r['impl'][1] if r['impl'][0] == 'ok' else r['impl'])
        io = obs_impl(lang, r['impl'][1])[0] if r['impl'][0] == 'ok' else []
        print('--- implementation observation'); print(json.dumps(io))
        print('--- model observation'); print(json.dumps(obs_model(lang, m[1]) if m[0] == 'ok' else m))
        pre = cfg.get('prefix', '') if lang in ('kotlin', 'swift') else ''
        for st in items['structs'] + items['enums']:
            if 'fields' in st:
                eg = [[f['id']['renamed'] for f in st['fields']]]
                ig = ([d['groups'] for d in io if d['kind'] == 'struct' and d['inner_of'] is None and d['name'] == pre + st['id']['renamed']] or [None])[0]
            else:
                eg = [[f['id']['renamed'] for f in v['fields']] for v in st['variants'] if v['k'] == 'struct']
                if lang == 'typescript':
                    ig = ([d['groups'] for d in io if d['kind'] == 'enum' and d['name'] == st['id']['renamed']] or [None])[0]
                else:
                    ig = [g for d in io if d['kind'] == 'struct' and d['inner_of'] and d['inner_of'][0] == st['id']['original'] for g in d['groups']]
            v = vf.model([f'(c01_judge {COQ_LANG[lang]} {Lst(eg, lambda g: Lst(g, S))} {sx_groups(ig or [])})'])[0]
            print(' ', st['id']['original'], eg, 'judged:', vf.dump_sx(v), 'groups', ig)
            if r['impl'][0] == 'ok' and vf.sx_get(v, 'dom') == 'true' and not (ig is not None and vf.sx_get(v, 'good') == 'true'):
                chk.violation(f'replay-ir-{st["id"]["original"]}', dict(p, item=st['id']['original']), f'{lang} (IR level): keys bound are not the renamed ids {eg}')
        chk.evaluations += 1
        return chk.finish()
    if 'src' not in p:
        print(json.dumps(p, indent=1)[:2000])
        return chk.finish()
    src, lang, cfg = p['src'], p['lang'], p['cfg']
    a = vf.impl([{'cmd': 'ast', 'src': src}])[0]
    r = vf.impl([{'cmd': 'generate', 'lang': lang, 'cfg': cfg, 'src': src, 'target_os': []}])[0]
    m = vf.model([f'(decls_src {lang} {back.cfg_sx(cfg)} {a["ok"]} {a["tstrs"]} ())', f'(c01_expected () {a["ok"]})'])
    print('--- source'); print(src)
    print('--- implementation output'); print(r.get('ok', r))
    io = obs_impl(lang, r.get('ok', ''))[0]
    mo = obs_model(lang, m[0][1]) if m[0][0] == 'ok' else m[0]
    print('--- implementation observation'); print(json.dumps(io))
    print('--- model observation'); print(json.dumps(mo))
    print('--- expected (serde spec on the source AST)')
    bad = 0
    for e in m[1]:
        ident = vf.unS(e[0])
        eg = None if e[4] == 'none' else [[vf.unS(kk) for kk in g] for g in e[4][1]]
        print(' ', ident, 'in-domain' if e[2] == 'true' else 'outside-domain', eg)
        if eg is None or e[2] != 'true' or e[1] not in ('n1', 'n2', 'n4'):
            continue
        if e[1] == 'n4':
            if lang == 'typescript':
                ds = [d for d in io if d['kind'] == 'enum' and d['name'].endswith(ident)]
                ig = ds[0]['groups'] if ds else None
            else:
                ig = [g for d in io if d['kind'] == 'struct' and d['inner_of'] and d['inner_of'][0] == ident for g in d['groups']]
        else:
            ds = [d for d in io if d['kind'] == 'struct' and d['inner_of'] is None and d['name'] in (cfg.get('prefix', '') + ident, ident)] \
                or [d for d in io if d['kind'] == 'struct' and d['inner_of'] is None and len(d['groups'][0]) == len(eg[0])]
            ig = ds[0]['groups'] if ds else None
        v = vf.model([f'(c01_judge {COQ_LANG[lang]} {Lst(eg, lambda g: Lst(g, S))} {sx_groups(ig or [])})'])[0]
        ok = ig is not None and (vf.sx_get(v, 'good') == 'true' or vf.sx_get(v, 'dom') != 'true')
        print('   judged:', vf.dump_sx(v), 'groups', ig)
        if not ok:
            bad += 1
            chk.violation(f'replay-{ident}', dict(p, item=ident), f'{lang}: keys bound for {ident} are not serde\'s keys {eg}')
    chk.evaluations += 1
    return chk.finish()
