"""Case generators of the C07 edge stream (used by checks/c07.py).
A case is a dict: name, kind, src (one Rust source text), tos (--target-os list), deep (nesting depth
that may exhaust a stack, or 0), desc.  Non-ASCII identifiers use only code points tabulated in
Model/Unicode.v (uc_table)."""
import progs

RULES = progs.RULES
# ---- edge constructs (panic triggers of the unchanged tree; the front-end ones are fixed in /repo) -----------
TYPE_TRIGGERS = ['Vec', 'Option', 'HashMap', 'HashMap<String>', 'Box', 'Arc', 'Rc', 'Cow', 'Weak', 'Cell', 'RefCell', 'Mutex', 'RwLock',
                 'ArcWeak', 'RcWeak', "Cow<'static>", 'Vec<>', 'std::vec::Vec', 'Option<3>', "HashMap<'a, String>", 'HashMap<String,>',
                 'std::collections::HashMap', '::std::option::Option', 'Box<{ 1 }>']
WRAPS = ['{}', '{}', '{}', 'Vec<{}>', 'Option<{}>', 'HashMap<String, {}>', '[{}; 1]', '&{}', 'Box<{}>', 'Foo<{}>', '&[{}]', "Cow<'static, {}>",
         'Option<Vec<{}>>']
FIELD_IDENTS_CAMEL = ['__', '_', '___', 'étoile', '_é', 'ßeta', '中', 'жж', 'ǆx', '_1', '_x', 'ok_name', 'r#type', 'x']
VARIANT_IDENTS_ODD = ['Étoile', '__', 'Жж', '中', 'ǅx', 'İx', '_A', 'Plain', 'r#Type', '_']
DECORATORS = ['#[typeshare(foo(bar))]', '#[typeshare(foo = "x", bar(baz))]', '#[typeshare(swift(type = "Int"), cobol(x))]',
              '#[typeshare(é(x))]', '#[typeshare(swift(type = "Int"))]', '#[typeshare(SWIFT(type = "Int"), Kotlin(readonly))]',
              '#[typeshare(a::b(c))]', '#[typeshare(go(type = 3))]', '#[typeshare(typescript())]', '#[typeshare(python(a = "b" c))]',
              '#[typeshare(skip(x))]', '#[typeshare(serialized_as(x))]']
CONTENT_KEYS = [('t', ''), ('t', '_'), ('t', 'été'), ('', 'c'), ('t', '__x'), ('é', 'c'), ('t', ' '), ('_', 'c'), ('t', '中')]
TOPSORT_PRELUDES = ['#[typeshare]\npub type A<B> = Vec<B>;\n#[typeshare]\npub type B<A> = Vec<A>;\n',
                    '#[typeshare]\npub type P<Q> = Option<Q>;\n#[typeshare]\npub type Q<P> = Option<P>;\n',
                    '#[typeshare]\npub struct M<N> { a: N }\n#[typeshare]\npub struct N<M> { a: M }\n',
                    '#[typeshare]\npub type A<A> = Vec<A>;\n']


def _skip(rng, member):
    member.skip = member.skip or rng.choice(['serde', 'typeshare'])


def plant(rng, prog):
    """mutate prog in place; returns a description dict or None"""
    items = [it for it in prog.items if it.annotated]
    if not items:
        return None
    it = rng.choice(items)
    how = rng.choice(['type', 'type', 'type', 'type', 'serialized_as', 'serialized_as_item', 'empty_tuple_struct', 'empty_tuple_variant',
                      'decorator', 'decorator', 'rename_field', 'rename_field', 'rename_variant', 'const', 'enum_name', 'content_key',
                      'swift_variant', 'topsort', 'target_os'])
    want_skip = rng.random() < 0.3
    d = {'item': it.ident, 'how': how, 'skipped': False, 'tos': []}
    bad = rng.choice(WRAPS).format(rng.choice(TYPE_TRIGGERS))

    def put_type(text, d):
        if it.kind == 'struct' and it.fields:
            f = rng.choice(it.fields)
            f.ty = ('raw', text)
            if f.skip is not None or want_skip:
                _skip(rng, f)
                d['skipped'] = True
            d['where'] = f'field {f.ident}: {text}'
        elif it.kind in ('newtype', 'alias'):
            it.ty = ('raw', text)
            d['where'] = f'{it.kind} target {text}'
        elif it.kind in ('alg_enum', 'unit_enum'):
            if it.kind == 'unit_enum':
                it.kind, (it.tag, it.content) = 'alg_enum', ('t', 'c')
            v = rng.choice(it.variants)
            if v.kind == 'unit':
                v.kind = 'tuple'
            if v.kind == 'tuple':
                v.ty = ('raw', text)
                d['where'] = f'variant {v.ident}({text})'
            else:
                f = rng.choice(v.fields)
                f.ty = ('raw', text)
                if rng.random() < 0.25:
                    _skip(rng, f)
                    d['skipped'] = True
                d['where'] = f'variant field {v.ident}.{f.ident}: {text}'
            if v.skip is not None or (want_skip and not d['skipped']):
                _skip(rng, v)
                d['skipped'] = True
        elif it.kind == 'unit_struct' or it.kind == 'struct':
            it.kind = 'const'
            it.fields, it.generics, it.rename_all = [], [], None
            it.ty, it.value = ('raw', text), rng.choice(['1', '"s"', '1 + 2'])
            d['where'] = f'const type {text}'
        else:
            return None
        return d

    if how == 'type':
        return put_type(bad, d)
    if how == 'target_os':
        # the trigger under a cfg(target_os) guard: excluded (ios) or included (android)
        d['tos'] = [rng.choice(['ios', 'android'])]
        guard = rng.choice(['#[cfg(target_os = "android")]', '#[cfg(any(target_os = "android", feature = "x"))]', '#[cfg(not(target_os = "ios"))]'])
        if it.kind == 'struct' and it.fields and rng.random() < 0.6:
            f = rng.choice(it.fields)
            f.ty = ('raw', bad)
            f.extra_attrs.append(guard)
            d['where'] = f'{guard} field {f.ident}: {bad} with --target-os {d["tos"][0]}'
            return d
        r = put_type(bad, d)
        if r is None:
            return None
        it.extra_attrs.append(guard)
        d['where'] = f'{guard} on item; {d["where"]} with --target-os {d["tos"][0]}'
        return d
    if how == 'serialized_as':
        if it.kind == 'struct' and it.fields:
            f = rng.choice(it.fields)
            f.serialized_as = rng.choice([bad, bad, 'not a type ((', '', ' Vec '])
            if f.skip is not None or want_skip:
                _skip(rng, f)
                d['skipped'] = True
            d['where'] = f'serialized_as = {f.serialized_as!r} on field {f.ident}'
            return d
        return None
    if how == 'serialized_as_item':
        if it.kind in ('struct', 'unit_enum', 'alg_enum', 'alias', 'newtype', 'unit_struct'):
            it.typeshare_args = f'serialized_as = {progs.rs_lit(rng.choice([bad, "Vec<", "Option"]))}'
            d['where'] = f'typeshare({it.typeshare_args}) on the item'
            return d
        return None
    if how == 'empty_tuple_struct':
        it.kind, it.ty, it.fields, it.variants, it.tag, it.content = 'newtype', ('raw', ''), [], [], None, None
        if rng.random() < 0.3:
            it.generics = []
        d['where'] = 'struct S();'
        return d
    if how == 'empty_tuple_variant':
        if it.kind not in ('alg_enum', 'unit_enum'):
            return None
        v = rng.choice(it.variants)
        v.kind, v.ty, v.fields = 'tuple', ('raw', ''), []
        if want_skip:
            _skip(rng, v)
            d['skipped'] = True
        d['where'] = f'variant {v.ident}() in {it.kind}'
        return d
    if how == 'decorator':
        dec = rng.choice(DECORATORS)
        pos = rng.choice(['field', 'field', 'vfield', 'item', 'variant'])
        if pos == 'field' and it.kind == 'struct' and it.fields:
            f = rng.choice(it.fields)
            f.extra_attrs.append(dec)
            if f.skip is not None or want_skip:
                _skip(rng, f)
                d['skipped'] = True
            d['where'] = f'{dec} on field {f.ident}'
        elif pos == 'vfield' and it.kind == 'alg_enum' and any(v.kind == 'struct' for v in it.variants):
            v = rng.choice([v for v in it.variants if v.kind == 'struct'])
            f = rng.choice(v.fields)
            f.extra_attrs.append(dec)
            d['skipped'] = v.skip is not None or f.skip is not None
            d['where'] = f'{dec} on variant field {v.ident}.{f.ident}'
        elif pos == 'variant' and it.kind in ('alg_enum', 'unit_enum'):
            v = rng.choice(it.variants)
            v.extra_attrs.append(dec)
            d['where'] = f'{dec} on variant {v.ident} (decorators are not read there)'
        else:
            it.extra_attrs.append(dec)
            d['where'] = f'{dec} on the item (decorators are not read there)'
        return d
    if how == 'rename_field':
        rule = rng.choice(['camelCase', 'camelCase', 'camelCase'] + RULES)
        ident = rng.choice(FIELD_IDENTS_CAMEL)
        if it.kind == 'struct' and it.fields:
            it.rename_all = rule
            f = rng.choice(it.fields)
            if any(g.ident == ident for g in it.fields):
                return None
            f.ident = ident
            if rng.random() < 0.2:
                f.rename = 'explicit'
            if f.skip is not None or want_skip:
                _skip(rng, f)
                d['skipped'] = True
            d['where'] = f'field {ident} under rename_all = {rule}'
            return d
        if it.kind == 'alg_enum' and any(v.kind == 'struct' for v in it.variants):
            v = rng.choice([v for v in it.variants if v.kind == 'struct'])
            v.rename_all = rule
            f = rng.choice(v.fields)
            if any(g.ident == ident for g in v.fields):
                return None
            f.ident = ident
            d['skipped'] = v.skip is not None or f.skip is not None
            d['where'] = f'variant field {v.ident}.{ident} under the variant\'s rename_all = {rule}'
            return d
        return None
    if how == 'rename_variant':
        if it.kind not in ('alg_enum', 'unit_enum'):
            return None
        rule = rng.choice(['camelCase', 'camelCase'] + RULES)
        ident = rng.choice(VARIANT_IDENTS_ODD)
        if any(v.ident == ident for v in it.variants):
            return None
        it.rename_all = rule
        v = rng.choice(it.variants)
        v.ident = ident
        if want_skip:
            _skip(rng, v)
            d['skipped'] = True
        d['where'] = f'variant {ident} under rename_all = {rule}'
        return d
    if how == 'const':
        it.kind = 'const'
        it.fields, it.variants, it.generics, it.tag, it.content, it.rename_all = [], [], [], None, None, None
        it.ty = progs.t_prim(rng.choice(['i32', 'u32', '&str', 'f64', 'bool', 'u8', 'I54']))
        it.value = rng.choice(['5', '0', '255', '-5', '"text"', '1.5', 'true', 'u32::MAX', '0x10', '170141183460469231731687303715884105727',
                               '340282366920938463463374607431768211455'])
        d['where'] = f'const : {progs.show_type(it.ty)} = {it.value}'
        return d
    if how == 'enum_name':
        if it.kind not in ('alg_enum', 'unit_enum', 'struct'):
            return None
        it.ident = rng.choice(['Étoile', '中', 'Жж', 'İx', 'ǅx'])
        d['item'] = it.ident
        d['where'] = f'{it.kind} named {it.ident}'
        return d
    if how == 'content_key':
        if it.kind != 'alg_enum':
            return None
        it.tag, it.content = rng.choice(CONTENT_KEYS)
        d['where'] = f'tag = {it.tag!r}, content = {it.content!r}'
        return d
    if how == 'swift_variant':
        if it.kind not in ('alg_enum', 'unit_enum'):
            return None
        ident = rng.choice(VARIANT_IDENTS_ODD)
        if any(v.ident == ident for v in it.variants):
            return None
        it.rename_all = None
        v = rng.choice(it.variants)
        v.ident = ident
        d['where'] = f'variant {ident}, no rename_all'
        return d
    if how == 'topsort':
        prog.prelude = rng.choice(TOPSORT_PRELUDES)
        d['where'] = 'mutually shadowing generic parameter names: ' + prog.prelude.replace('\n', ' ')
        return d
    return None


def planted_cases(rng, n):
    gen = progs.ProgGen(rng, progs.Profile(p_unannotated=0.1, p_skip=0.05, n_items=(1, 3), p_nested=0.25))
    out = []
    while len(out) < n:
        prog = gen.program()
        d = plant(rng, prog)
        if d is None:
            continue
        out.append({'name': f'plant:{d["how"]}', 'kind': 'plant', 'src': progs.source(prog), 'tos': d['tos'], 'deep': 0,
                    'desc': d['where'] + (' [skipped]' if d['skipped'] else '')})
    return out


# ---- witnesses of the findings fixed in /repo ---------------------------------------------------------------
# (finding id, source, expected end of the run, language configurations it is about: None = all seven)
# expected end: 'ok' = exit 0 with output; 'diag' = exit 1 with a diagnostic naming the file;
#               'gen' = exit 1 with the generation error "constants are not supported for <Lang>: cannot generate `<NAME>`" and no output
#                       (it names the constant, not the file: open finding C07-generation-error-no-file);
#               'config' = exit 1 with "a package name must be provided for Scala .." and no output (no source file offends).
# Every witness runs in single-file (-o) AND multi-file (-d) mode.  Under `scala-nopkg` a witness that expects 'ok' must end
# with 'config' (since the /repo fix of scala.rs:131 the missing package is reported, whatever the input).
GEN_MESSAGE = {'kotlin': 'constants are not supported for Kotlin: cannot generate `%s`', 'swift': 'constants are not supported for Swift: cannot generate `%s`'}
CONFIG_MESSAGE = 'a package name must be provided for Scala'
FIXED_WITNESSES = [
    ('C07-parser.rs:287', '#[typeshare]\nstruct S();\n', 'diag', None),
    ('C07-parser.rs:287', '#[typeshare]\npub struct Wrapper<T>();\n#[typeshare]\nstruct Good { a: u8 }\n', 'diag', None),
    ('C07-parser.rs:445', '#[typeshare]\n#[serde(tag = "t", content = "c")]\nenum E { V() }\n', 'diag', None),
    ('C07-parser.rs:445', '#[typeshare]\nenum E { A, V() }\n', 'diag', None),
    ('C07-parser.rs:737', '#[typeshare]\nstruct S { #[typeshare(foo(bar))] a: u8 }\n', 'ok', None),
    ('C07-parser.rs:737', '#[typeshare]\n#[serde(tag = "t", content = "c")]\nenum E { V { #[typeshare(cobol(x), swift(type = "Int"))] a: u8 } }\n', 'ok', None),
    ('C07-rust_types.rs:366', '#[typeshare]\nstruct S { a: Vec }\n', 'diag', None),
    ('C07-rust_types.rs:366', '#[typeshare]\ntype A = Option<std::vec::Vec<3>>;\n', 'diag', None),
    ('C07-rust_types.rs:369', '#[typeshare]\nstruct S { a: Option }\n', 'diag', None),
    ('C07-rust_types.rs:374', '#[typeshare]\nstruct S { a: HashMap }\n', 'diag', None),
    ('C07-rust_types.rs:375', '#[typeshare]\nstruct S { a: HashMap<String> }\n', 'diag', None),
    ('C07-rust_types.rs:383', '#[typeshare]\nstruct S { a: Box }\n', 'diag', None),
    ('C07-rust_types.rs:383', "#[typeshare]\nstruct S { #[typeshare(serialized_as = \"Cow<'static>\")] a: u8 }\n", 'diag', None),
    ('C07-rename.rs:22', '#[typeshare]\n#[serde(rename_all = "camelCase")]\nstruct S { __: u8 }\n', 'ok', None),
    ('C07-rename.rs:22', '#[typeshare]\n#[serde(rename_all = "camelCase")]\nstruct S { étoile: u8 }\n', 'ok', None),
    ('C07-rename.rs:22', '#[typeshare]\n#[serde(rename_all = "camelCase")]\nenum E { Étoile, __ }\n', 'ok', ['typescript', 'kotlin', 'scala', 'go', 'python', 'swift']),
    ('C07-swift.rs:559', '#[typeshare]\nenum E { Étoile, B }\n', 'ok', ['swift']),
    ('C07-swift.rs:559', '#[typeshare]\nenum E { __, B }\n', 'ok', ['swift']),
    ('C07-swift.rs:559', '#[typeshare]\n#[serde(tag = "t", content = "c")]\nenum E { Étoile(u8), __ { a: u8 } }\n', 'ok', ['swift']),
    ('C07-go.rs:313', '#[typeshare]\n#[serde(tag = "t", content = "")]\nenum E { V(u8) }\n', 'ok', ['go']),
    ('C07-go.rs:313', '#[typeshare]\n#[serde(tag = "t", content = "_")]\nenum E { V(u8) }\n', 'ok', ['go']),
    ('C07-go.rs:313', '#[typeshare]\n#[serde(tag = "t", content = "été")]\nenum E { V(u8) }\n', 'ok', ['go']),
    # fixes 13-16
    ('C07-visitors.rs:401', 'use foo;\n#[typeshare]\nstruct S { a: u8 }\n', 'ok', None),
    ('C07-visitors.rs:401', 'use ::foo;\nuse {a, b};\nuse *;\n#[typeshare]\nstruct S { a: u8 }\nmod m { use {{c}, d as e}; }\n', 'ok', None),
    ('C07-visitors.rs:401', 'use {c, a::B};\nuse other_crate::{Thing, sub::*};\n#[typeshare]\nstruct S { a: B, b: Thing }\n', 'ok', None),
    ('C07-go.rs:315', '#[typeshare]\n#[serde(tag = "t", content = "c")]\nenum Étoile { V(u8) }\n', 'ok', ['go']),
    ('C07-go.rs:315', '#[typeshare]\n#[serde(tag = "t", content = "c")]\nenum İx { V(u8), W { a: u8 } }\n#[typeshare]\n#[serde(tag = "t", content = "c")]\nenum 中 { V(u8) }\n', 'ok', ['go']),
    ('C07-kotlin.rs:183', '#[typeshare]\nconst X: u32 = 5;\n', 'gen', ['kotlin']),
    ('C07-kotlin.rs:183', '#[typeshare]\nstruct S { a: u8 }\n#[typeshare]\npub const X: u32 = 5;\n', 'gen', ['kotlin']),
    ('C07-swift.rs:268', '#[typeshare]\nconst X: u32 = 5;\n', 'gen', ['swift']),
    ('C07-swift.rs:268', '#[typeshare]\nstruct S { a: u8 }\n#[typeshare]\npub const X: u32 = 5;\n', 'gen', ['swift']),
    ('C07-scala.rs:131', '#[typeshare]\nstruct S { a: u8 }\n', 'config', ['scala-nopkg']),
    ('C07-scala.rs:131', '#[typeshare]\npub const X: u32 = 5;\n', 'config', ['scala-nopkg']),
]


def fixed_witness_cases():
    return [{'name': f'fixed:{fid}', 'kind': 'fixed', 'src': src, 'tos': [], 'deep': 0, 'desc': f'witness of the fixed finding {fid}',
             'fixed': fid, 'expect': expect, 'langs': langs} for fid, src, expect, langs in FIXED_WITNESSES]


# ---- hand-written edge programs ---------------------------------------------------------------------------
TS = '#[typeshare]\n'
OKS = TS + 'struct Plain { a: u8 }\n'


def nest(wrap_open, wrap_close, depth, leaf='u8'):
    return wrap_open * depth + leaf + wrap_close * depth


def edge_cases(rng, tier):
    E = []

    def add(name, src, deep=0, tos=None):
        E.append({'name': 'edge:' + name, 'kind': 'edge', 'src': src, 'tos': tos or [], 'deep': deep, 'desc': name})
    add('empty file', '')
    add('only whitespace', '\n\n   \n\t\n')
    add('only comments, marker inside a comment', '// #[typeshare]\n/* nothing here */\n')
    add('inner doc comment only', '//! crate docs\n')
    add('marker inside a string literal', 'const S: &str = "#[typeshare]";\n')
    add('marker only, unterminated', '#[typeshare')
    add('baseline struct', OKS)
    for what, body in [('fn', 'fn f() {}'), ('union', 'union U { a: u32, b: f32 }'), ('impl', 'impl Plain { fn f(&self) {} }'),
                       ('mod', 'mod m { pub struct Inner { a: Vec } }'), ('static', 'static X: u32 = 1;'), ('trait', 'trait T { fn f(&self); }'),
                       ('macro_rules', 'macro_rules! m { () => {} }'), ('use', 'use std::fmt;'), ('extern crate', 'extern crate core;'),
                       ('extern block', 'extern "C" { fn f(); }'), ('macro call', 'm!();'), ('trait alias', 'trait A = Clone;')]:
        add(f'#[typeshare] on {what}', f'struct Plain;\n#[typeshare]\n{body}\n')
        add(f'#[typeshare] on {what} next to a good item', OKS + f'#[typeshare]\n{body}\n')
    add('#[typeshare] on an associated const', 'struct S;\nimpl S {\n    #[typeshare]\n    const K: Vec = 1;\n}\n')
    add('#[typeshare] on an associated type', 'trait T {\n    #[typeshare]\n    type A;\n}\n')
    add('#[typeshare] on a field only', 'struct S { #[typeshare] a: Vec }\n')
    add('#[typeshare] on a variant only', 'enum E { #[typeshare] V() }\n')
    add('#[typeshare] on a statement-level struct in a closure', 'fn f() { let _ = || { #[typeshare] struct Inner { a: u8 } }; }\n')
    add('#[typeshare] item in a const block', 'const _: () = { #[typeshare] struct Inner { a: u8 } };\n')
    add('items inside a macro invocation', 'm! { #[typeshare] struct S(); }\n')
    add('trigger inside a macro invocation next to a good item', 'macro_rules! m { ($i:item) => { $i } }\nm! { #[typeshare] struct S { a: Vec } }\n' + OKS)
    add('macro in type position', TS + 'struct S { a: m!() }\n')
    add('macro in field position (unparsable)', TS + 'struct S { m!(); }\n')
    for a in ['#[typeshare(serialized_as)]', '#[typeshare(serialized_as = 3)]', '#[typeshare(serialized_as = "")]', '#[typeshare = "x"]', '#[typeshare(1)]',
              '#[typeshare(a b c)]', '#[typeshare::typeshare]', '#[::typeshare]', '#[typeshare()]', '#[typeshare(,)]', '#[typeshare(typeshare(typeshare))]',
              '#[typeshare(swift = "Equatable, Hashable", kotlin = "JvmInline", redacted)]', '#[typeshare(swift = "")]', '#[typeshare(swift = ",,")]',
              '#[typeshare(swiftGenericConstraints = "T: Equatable & Hashable, U")]', '#[typeshare(redacted, redacted)]', '#[typeshare(skip)]',
              '#[typeshare(foo(bar))]', '#[typeshare(swift(x))]', '#[typeshare] #[typeshare]', '#[typeshare(serialized_as = "String", serialized_as = "Vec")]']:
        add(f'item attribute {a}', f'{a}\nstruct S<T, U> {{ a: T, b: U }}\n')
        add(f'enum attribute {a}', f'{a}\nenum E {{ A, B }}\n')
    add('cfg_attr(.., typeshare) - no marker', '#[cfg_attr(feature = "x", typeshare)]\nstruct S { a: Vec }\n')
    add('cfg_attr(.., typeshare) with a marker elsewhere', OKS + '#[cfg_attr(feature = "x", typeshare)]\nstruct S { a: Vec }\n')
    for a in ['#[serde(rename)]', '#[serde(rename = 3)]', '#[serde(rename_all)]', '#[serde(rename_all = 1)]', '#[serde(rename_all = "camelCase", rename_all = "snake_case")]',
              '#[serde]', '#[serde = "x"]', '#[serde(a b)]', '#[serde()]', '#[serde(tag)]', '#[serde(tag = "t", content)]', '#[serde(skip, skip)]', '#[doc = 3]',
              '#[doc]', '#[doc(hidden)]', '#[cfg(version("1.2"))]', '#[cfg(target_os)]', '#[cfg(target_os = 1)]', '#[cfg(any())]', '#[cfg]', '#[cfg = "x"]',
              '#[cfg(not(version("1.2")))]', '#[serde(rename_all = " camelCase ")]', '#[serde(rename = "  ")]', '#[serde(rename = "")]', '#[rustfmt::skip]',
              '#[serde(crate = "x", bound(serialize = "T: A"))]', '#[serde(default = "path::to")]', '#[serde(with = "m")]', '#[serde(flatten)]']:
        add(f'{a} on item and members', f'{TS}{a}\nstruct S {{ {a} a: u8, __: u8 }}\n{TS}{a}\nenum E {{ {a} A, B }}\n')
        add(f'{a} with --target-os', f'{TS}{a}\nstruct S {{ {a} a: u8 }}\n', tos=['ios'])
    add('field decorator forms', TS + 'struct S { #[typeshare(swift(type = "Int"), kotlin(type = "Long", readonly), typescript(readonly, type = "number"), '
        'go(type = "int"), python(type = "int"), scala(type = "Int"))] a: u32 }\n')
    for a in ['swift(type = 3)', 'swift(= )', 'swift()', 'swift(a = "b" c)', 'swift(type = "Int",)', 'swift(type)', 'swift(r#type = "Int")', 'swift(type = "")',
              'typescript(type = "a | b")', 'kotlin', 'kotlin = "x"', 'Swift(type = "Int")', 'sWiFt(type = "Int")', 'cobol(type = "X")', 'swift::x(y)',
              # entries of a language list that do not start with an identifier, in every position (seeded C07_e: a recovery path that
              # re-reads the same comma for ever)
              'typescript("readonly", type = "x")', 'typescript(, readonly)', 'typescript(readonly, , type = "x")', 'swift(3, type = "Int")',
              'kotlin(type = "Long", "x", readonly)', 'go((a), type = "int")', 'python(type = "int", #)', 'scala(-1, 2, 3)', 'swift(type = 5, readonly)',
              'typescript(readonly readonly)', 'swift(type = "Int" type = "Int")', 'kotlin(,)', 'go(,,)', "swift('a, type = \"Int\")"]:
        add(f'field attribute typeshare({a})', f'{TS}struct S {{ #[typeshare({a})] a: u32 }}\n')
        add(f'variant field attribute typeshare({a})', f'{TS}#[serde(tag = "t", content = "c")]\nenum E {{ V {{ #[typeshare({a})] a: u32 }} }}\n')
    # deep nesting
    depths = [30, 40, 60, 100, 200] if tier == 'quick' else [30, 40, 50, 60, 80, 100, 150, 200, 400, 1000]
    for d in depths:
        for o, c, nm in [('Vec<', '>', 'Vec'), ('Option<', '>', 'Option'), ('&', '', '&'), ('Box<', '>', 'Box'), ('[', '; 1]', 'array'), ('&[', ']', 'slice'),
                         ('Foo<', '>', 'user generic'), ('HashMap<String, ', '>', 'HashMap'), ('(', ',)', 'tuple'), ('(', ')', 'paren')]:
            add(f'{nm} nesting depth {d} in a field', f'{TS}struct S {{ a: {nest(o, c, d)} }}\n', deep=d)
        add(f'Vec nesting depth {d} in an alias', f'{TS}type A = {nest("Vec<", ">", d)};\n', deep=d)
        add(f'Vec nesting depth {d} in an unannotated item', OKS + f'struct S {{ a: {nest("Vec<", ">", d)} }}\n', deep=d)
        add(f'Vec nesting depth {d}, no marker', f'struct S {{ a: {nest("Vec<", ">", d)} }}\n', deep=0)
        add(f'Vec nesting depth {d} with the trigger at the bottom', f'{TS}struct S {{ a: {nest("Vec<", ">", d, "Vec")} }}\n', deep=d)
        add(f'module nesting depth {d}', OKS + 'mod m { ' * d + TS + 'struct U { c: u8 }' + ' }' * d + '\n', deep=d)
        add(f'expression nesting depth {d}', OKS + 'fn f() -> u32 { ' + '(' * d + '1' + ')' * d + ' }\n', deep=d)
        add(f'const expression nesting depth {d}', f'{TS}const X: u32 = {"(" * d}1{")" * d};\n', deep=d)
        add(f'cfg nesting depth {d}', f'{TS}#[cfg({nest("not(", ")", d, "unix")})]\nstruct S {{ a: u8 }}\n', deep=d, tos=['ios'])
    # sizes
    for n in ([200, 3000] if tier == 'quick' else [200, 3000, 30000]):
        add(f'identifier of length {n}', f'{TS}#[serde(rename_all = "camelCase")]\nstruct {"S" * n} {{ {"a_b" * (n // 3)}: u8 }}\n')
        add(f'{n} fields', TS + 'struct S {\n' + ''.join(f'    f{i}: Option<Vec<u8>>,\n' for i in range(n)) + '}\n')
        add(f'{n} variants', TS + 'enum E {\n' + ''.join(f'    V{i},\n' for i in range(n)) + '}\n')
        add(f'{n} items', ''.join(f'{TS}struct S{i} {{ a: u8 }}\n' for i in range(min(n, 1500))))
        add(f'{n} attributes', TS + '#[doc = "x"]\n' * n + 'struct S { a: u8 }\n')
        add(f'doc comment of length {n}', f'{TS}/// {"d" * n}\nstruct S {{ a: u8 }}\n')
        add(f'type with {n} generic arguments', f'{TS}struct S {{ a: Foo<{", ".join(["u8"] * min(n, 3000))}> }}\n')
    # identifiers under each rule
    for rule in RULES + ['Camelcase', '', ' ', 'camelCase ']:
        add(f'non-ASCII and underscore fields under {rule!r}',
            f'{TS}#[serde(rename_all = "{rule}")]\nstruct S {{ ok: u8, #[serde(skip)] __: u8, #[typeshare(skip)] étoile: u8 }}\n')
        for ident in ['étoile', 'ßeta', 'жж', '中', 'ǆx', '__', '_', '_a', 'a_', 'a__b', 'r#type', 'r#abc', 'x1', 'É']:
            add(f'field {ident} under {rule!r}', f'{TS}#[serde(rename_all = "{rule}")]\nstruct S {{ {ident}: u8 }}\n')
        for ident in ['Étoile', 'Жж', '中', 'ǅx', 'İx', '__', '_A', 'A_', 'r#Type', 'URL', 'É']:
            add(f'variant {ident} under {rule!r}', f'{TS}#[serde(rename_all = "{rule}")]\nenum E {{ {ident}, Other }}\n')
            add(f'data variant {ident} under {rule!r}', f'{TS}#[serde(rename_all = "{rule}", tag = "t", content = "c")]\nenum E {{ {ident}(u8), Other {{ étoile: u8 }} }}\n')
    for ident in ['r#struct', 'r#abc', 'r#r', 'r#_x', 'r#async', 'r#try', 'r#union', 'r#dyn']:
        add(f'raw identifier {ident} everywhere', f'{TS}#[serde(rename_all = "camelCase")]\nstruct {ident} {{ {ident}: u8 }}\n{TS}enum E{ident[2:]} {{ {ident} }}\n{TS}type T{ident[2:]} = {ident};\n')
    add('r# inside a renamed key', TS + 'struct S { #[serde(rename = "r#type")] a: u8, #[serde(rename = "r#")] b: u8 }\n')
    # generics
    add('generics: lifetimes, consts, where, defaults', TS + "struct S<'a, T: 'a + Clone, const N: usize = 3, U = String> where T: Default { a: &'a T, b: U, c: [u8; 4] }\n")
    add('generics: const-length array', TS + 'struct S<const N: usize> { a: [u8; N] }\n')
    add('generics: only lifetimes', TS + "struct S<'a, 'b: 'a> { a: &'a str, b: Cow<'b, str> }\n")
    add('generics on enum and alias', TS + '#[serde(tag = "t", content = "c")]\nenum E<T, const N: usize> where T: Clone { A(T), B { x: [T; 2] } }\n' + TS + "type A<'a, T = u8> = Vec<&'a T>;\n")
    add('tuple struct with where clause', TS + 'struct S<T>(T) where T: Copy;\n')
    add('HRTB and fn pointer types', TS + "struct S { a: for<'a> fn(&'a u8) -> &'a u8, b: Box<dyn Fn(u8) -> u8>, c: *const u8, d: impl Clone, e: !, f: _, g: (u8), h: <T as Tr>::X, i: Self }\n")
    for t in ['fn(u8)', 'dyn Tr', '*const u8', '!', '_', '(u8)', '<T as Tr>::X', 'Self', '[u8; 0x10]', '[u8; 99999999999999999999999]', '[u8; 1usize]', '[u8; 1 + 1]',
              '[u8; N]', 'Vec<fn()>', 'Option<!>', 'HashMap<(), ()>', '()', '((),)', 'Vec<()>', "&'static mut [u8]", 'Option<Option<Option<u8>>>', 'Vec<u8, A>',
              'Option<u8, u8>', 'HashMap<u8, u8, S>', 'Box<u8, u8>', 'Vec<T = u8>', 'Tr<Item = Vec>', 'Vec::<u8>', 'm!()', 'Fn(u8) -> u8', 'Vec(u8)', 'Option(u8) -> u8',
              'HashMap()', 'Box()', 'String<u8>', 'u8<Vec>', 'str', 'OffsetDateTime<Vec>', 'I54<Option>', 'u64<Vec>']:
        add(f'field type {t}', f'{TS}struct S {{ a: {t} }}\n')
        add(f'alias target {t}', f'{TS}type A = {t};\n')
    # enums
    add('empty enum', TS + 'enum E {}\n')
    add('empty enum with tag and content', TS + '#[serde(tag = "t", content = "c")]\nenum E {}\n')
    add('enum with all variants skipped', TS + '#[serde(tag = "t", content = "c")]\nenum E { #[serde(skip)] A(u8), #[typeshare(skip)] B }\n')
    add('enum discriminants', TS + '#[repr(u8)]\nenum E { A = 1, B = 2, C = 1 << 3, D = -1, E = b\'x\' as isize }\n')
    add('data variant with discriminant', TS + '#[serde(tag = "t", content = "c")]\nenum E { A(u8) = 1, B { x: u8 } = 2, C = 3 }\n')
    add('unit struct forms', TS + 'struct A;\n' + TS + 'struct B {}\n' + TS + 'struct C();\n')
    add('empty struct variant', TS + '#[serde(tag = "t", content = "c")]\nenum E { A {}, B() }\n')
    add('struct variant with all fields skipped', TS + '#[serde(tag = "t", content = "c")]\nenum E { A { #[serde(skip)] x: Vec } }\n')
    add('tuple struct with skipped single field', TS + 'struct S(#[serde(skip)] Vec);\n')
    add('tuple variant with skipped field', TS + '#[serde(tag = "t", content = "c")]\nenum E { A(#[serde(skip)] Vec) }\n')
    for v in ['pub', 'pub(crate)', 'pub(super)', 'pub(in crate::m)', 'pub(self)', 'crate', '']:
        add(f'visibility {v!r}', f'mod m {{ {TS}{v} struct S {{ {v} a: u8 }}\n{TS}{v} enum E {{ A }}\n{TS}{v} type T = u8;\n{TS}{v} const K: u8 = 1; }}\n')
    # consts
    for t, v in [('&\'static str', '"s"'), ('u32', 'u32::MAX'), ('i128', '170141183460469231731687303715884105727'), ('u128', '340282366920938463463374607431768211455'),
                 ('u8', '1_000u8'), ('u8', '0b1010'), ('f32', '1.0'), ('u8', "b'a'"), ('()', '()'), ('Vec<u8>', '1'), ('Option<u8>', '1'), ('HashMap<u8, u8>', '1'),
                 ('Foo<u8>', '1'), ('Vec', '1'), ('Vec', '"s"'), ('[u8; 1]', '1'), ('&[u8]', '1'), ('Foo', '1'), ('u64', '1'), ('u8', '{ 1 }'), ('u8', 'if true { 1 } else { 2 }')]:
        add(f'const : {t} = {v}', f'{TS}const X: {t} = {v};\n')
    add('underscore const', TS + 'const _: u32 = 1;\n')
    add('non-ASCII const', TS + 'const ÉTOILE: u32 = 1;\n')
    add('const and static mix', TS + 'pub const A: u8 = 1;\n' + TS + 'pub static B: u8 = 2;\n' + TS + 'const fn f() {}\n')
    # keys
    for t, c in CONTENT_KEYS + [('type', 'type'), ('t', 't'), ('T', 'C'), ('a-b', 'c d'), ('"', '\\\\')]:
        add(f'tag {t!r} content {c!r}', f'{TS}#[serde(tag = "{t}", content = "{c}")]\nenum E {{ A(u8), B {{ x: u8 }}, C }}\n')
    for n in ['Étoile', '中', 'Жж', 'İx', 'ǅx', 'ßx']:
        add(f'algebraic enum named {n}', f'{TS}#[serde(tag = "t", content = "c")]\nenum {n} {{ A(u8) }}\n')
        add(f'struct / unit enum / alias named {n}', f'{TS}struct {n} {{ a: u8 }}\n{TS}enum {n}2 {{ A }}\n{TS}type {n}3 = u8;\n')
    for p in TOPSORT_PRELUDES:
        add('generic parameter shadowing a type: ' + p.replace('\n', ' ').replace('#[typeshare] ', ''), p)
    add('self-referential types', TS + 'struct S { a: Option<Box<S>>, b: Vec<S> }\n' + TS + 'type A = Vec<A>;\n' + TS + '#[serde(tag = "t", content = "c")]\nenum E { A(Box<E>), B(Vec<E>) }\n')
    # alias cycles (syn accepts them, rustc would not): a walk that follows alias targets without a cycle guard spins (seeded C07_d)
    add('alias to itself', TS + 'type A = A;\n')
    add('alias cycle of two', TS + 'type Ping = Pong;\n' + TS + 'type Pong = Ping;\n' + TS + 'struct S { p: Ping }\n')
    add('alias cycle of three through containers', TS + 'type A = Vec<B>;\n' + TS + 'type B = Option<C>;\n' + TS + 'type C = A;\n' + TS + 'struct S { a: A, c: C }\n')
    add('alias chain ending in a struct, and one ending in a cycle', TS + 'struct S { a: u8 }\n' + TS + 'type A1 = S;\n' + TS + 'type A2 = A1;\n' + TS + 'type A3 = A2;\n'
        + TS + 'type L1 = L2;\n' + TS + 'type L2 = L1;\n' + TS + 'struct U { a: A3, l: L1 }\n')
    add('mutually recursive types', TS + 'struct A { b: Option<Box<B>> }\n' + TS + 'struct B { a: Vec<A> }\n')
    add('duplicate definitions', TS + 'struct S { a: u8 }\n' + TS + 'struct S { b: u8 }\n' + TS + 'type S = u8;\n' + TS + 'enum S { A }\n')
    add('type named like a primitive', TS + 'struct String { a: u8 }\n' + TS + 'struct Vec { a: Option }\n' + TS + 'type Option = u8;\n')
    add('BOM and CRLF', '﻿' + OKS.replace('\n', '\r\n'))
    add('shebang line', '#!/usr/bin/env run-cargo-script\n' + OKS)
    add('inner attributes', '#![allow(dead_code)]\n#![cfg(target_os = "android")]\n' + TS + 'struct S { a: Vec }\n', tos=['ios'])
    add('inner cfg attribute accepted', '#![cfg(target_os = "android")]\n' + TS + 'struct S { a: Vec }\n', tos=['android'])
    add('inner cfg attribute, no --target-os', '#![cfg(target_os = "android")]\n' + TS + 'struct S { a: u8 }\n')
    return E


def unparsable_cases(rng, tier):
    U = []
    texts = ['struct S { a: ', 'struct S { a: u8 }}', 'struct S { a: u8 } "unterminated', 'struct S { a: u8 } \'x', 'struct 1S;', 'fn (', '{"json": [1, 2, 3]}',
             '# Markdown title\n\nSome *text* with `code`.\n', '<?xml version="1.0"?><a/>', 'struct S { a: u8; }', 'enum E { A(, }', 'struct S<T { a: T }', 'type A = ;',
             'const X: u8;', 'struct S { a: Vec<<u8> }', 'let x = 1;', 'struct S { a: u8 } /* unterminated comment', '\x00\x01\x02', 'struct S { a: u8 }\n#[', 'r#', '0x',
             'struct S { a: [u8; ] }', '#[typeshare', 'struct S { #[typeshare(foo(bar)] a: u8 }', 'struct S { a: u8 } 1e', 'struct S { a: &\'  u8 }', 'é = 1', '\\', '`']
    n = len(texts) if tier == 'quick' else len(texts)
    for t in texts[:n]:
        U.append({'name': 'unparsable:no marker', 'kind': 'unparsable', 'src': t if '#[typeshare' not in t else t.replace('#[typeshare', '#[type_share'), 'tos': [], 'deep': 0,
                  'desc': f'no marker: {t[:40]!r}'})
        for m in ['#[typeshare]\n' + t, t + '\n// #[typeshare]\n', '#[typeshare]\nstruct Good { a: u8 }\n' + t]:
            U.append({'name': 'unparsable:with marker', 'kind': 'unparsable', 'src': m, 'tos': [], 'deep': 0, 'desc': f'with marker: {m[:60]!r}'})
    # seeded garbage around a marker
    alphabet = 'abc{}()[]<>;:,#!\'"\\/*&=-+ \n\t0123456789é中'
    for i in range(40 if tier == 'quick' else 400):
        g = ''.join(rng.choice(alphabet) for _ in range(rng.randint(1, 60)))
        U.append({'name': 'unparsable:garbage', 'kind': 'unparsable', 'src': rng.choice(['#[typeshare]\n', '', '#[typeshare(', '//#[typeshare]\n']) + g, 'tos': [], 'deep': 0,
                  'desc': 'seeded character soup'})
    return U


# ---- multi-file mode: `use` forms ------------------------------------------------------------------------
USE_FORMS = ['use foo;', 'use foo as bar;', 'use ::foo;', 'use {a, b};', 'use {a::B, c};', 'use {c, a::B};', 'use *;', 'use foo::*;', 'use crate::x::Y;', 'use super::Y;',
             'use self::Y;', 'use std::{fmt, io::{self, Read}};', 'use ::{a::B};', 'use {};', 'use a::{};', 'use a::{self};', 'use a::{self as b};', 'use {a as b};',
             'use {{a::B}, c};', 'use a::B as _;', 'use Foo;', 'use ::Foo as F;', 'pub use foo;', 'pub(crate) use {self::a, b};', 'use r#type;', 'use étoile;',
             'use other_crate::Thing;', 'use other_crate::{Thing, sub::*};']


def multi_cases(rng, tier):
    M = []

    def add(name, src, deep=0):
        M.append({'name': 'multi:' + name, 'kind': 'multi', 'src': src, 'tos': [], 'deep': deep, 'desc': name})
    for u in USE_FORMS:
        add(f'{u} before an item', u + '\n' + OKS)
        add(f'{u} after an item', OKS + u + '\n')
        add(f'{u} without a marker', u + '\nstruct Plain { a: u8 }\n')
        add(f'{u} inside a module', OKS + f'mod m {{ {u} }}\n')
        add(f'{u} inside a function body', OKS + f'fn f() {{ {u} }}\n')
        add(f'{u} in a file with nothing to generate', f'// #[typeshare]\n{u}\n')
        # an item that REFERS to what the use statement may import: reconcile_referenced_types keeps those imports
        add(f'{u} before an item that refers to the imported names', u + '\n' + TS + 'struct Refs { a: Thing, b: B, c: Y, d: Foo, e: F, g: Read, h: Vec<Option<Thing>> }\n')
    add('path references', TS + 'struct S { a: other_crate::Thing, b: crate::m::X, c: super::Y, d: ::abs::Z, e: std::string::String, f: Vec<foo::Bar>, g: self::Q }\n')
    add('const in multi-file mode', TS + 'const K: u32 = 1;\n')
    add('plain struct', OKS)
    add('empty file', '')
    add('unparsable with marker', TS + 'struct S { a: ')
    add('unparsable without marker', 'struct S { a: ')
    return M
