"""C10 - generated files are syntactically well-formed in their target language.
Proof: Props/C10.v (lexical half proved over the layout layer of the byte-faithful back-end models;
keyword escapes over the Decl observation; grammar validated, not proved).
Correspondence, per case (language, configuration, Rust source):
  * the REAL generator (libdrive `generate`: parse -> reconcile -> Language::generate_types) and the
    extracted model (`gen_src`) on the same source; the bytes must be equal (fidelity is decisive here);
  * the judgement runs on the REAL bytes: the extracted Gallina lexer of the language (c10_lex), the
    extracted keyword predicates (good_C10_kw, good_C10_swift_labels) on the declaring positions that
    lib/extract.py finds in the real text, and the grammar validators: the extracted Gallina recognisers of the
    table GRAMMAR below - of the TypeScript declaration grammar (Spec/C10TsGrammar.v), of the Go declaration grammar
    (Spec/C10GoGrammar.v: tokenizer with semicolon insertion + recursive descent, run on every real Go file), of the Kotlin
    declaration grammar (Spec/C10KtGrammar.v, on every real Kotlin file, single-file and folder mode) and of the Swift
    declaration grammar (Spec/C10SwGrammar.v: tokenizer + recursive descent, run on every real Swift file), of the Scala declaration
    grammar (Spec/C10ScGrammar.v: tokenizer, the newline rule of SLS 1.2, recursive descent after SLS chapter 13; every real Scala file) -, CPython ast.parse
    + a declaration grammar over its AST + import against lib/pydantic_stub for Python, the template recognisers of lib/extract.py
    (nothing unparsed, no anomaly) for all six, plus `= _` in a Scala parameter list;
  * dom_C10 / known_C10 (extracted) on the IR the REAL parser produced classify the case.
Also lexed: every snapshot expectation file of /repo/core/data/tests."""
import ast, glob, json, os, pathlib, re, sys, types
import vf, back, progs, extract, ir
from vf import S, Lst, B

LANGS = ('typescript', 'kotlin', 'swift', 'scala', 'go', 'python')
EXT = {'typescript': 'ts', 'kotlin': 'kt', 'swift': 'swift', 'scala': 'scala', 'go': 'go', 'python': 'py'}
STUB = str(vf.ROOT / 'lib' / 'pydantic_stub')
XCHECK = []        # (lang, real text, extracted lexer verdict) samples for the in-Coq cross-check of the thorough tier
COLLISIONS = []    # Python Enum classes with two members of the same name (naming collision: C02)
NAME_ERRORS = []   # Python modules that only import after an unbound name is pre-bound (name resolution: C09 / C11 / C12)

# The extracted Gallina recognisers of the declaration grammars: language -> (driver command, failure kind, specification).
# (CMD TEXT) answers `(some nN)` (N declarations recognised) or `none` (rejected).  judge(), phase_folder(), lex_expectations()
# and replay() all go through grammar_verdicts(): a further language is ONE more line here (plus its PREDICTS entries, if a
# finding class of the unchanged tree makes its recogniser reject).
GRAMMAR = {
    'typescript': ('c10_ts_parse', 'ts-grammar', 'Spec/C10TsGrammar.v'),
    'go': ('c10_go_parse', 'go-grammar', 'Spec/C10GoGrammar.v'),
    'kotlin': ('c10_kt_parse', 'kt-grammar', 'Spec/C10KtGrammar.v'),
    'swift': ('c10_sw_parse', 'sw-grammar', 'Spec/C10SwGrammar.v'),
    'scala': ('c10_sc_parse', 'sc-grammar', 'Spec/C10ScGrammar.v'),
}
# recognisers that only know single-file output: the TypeScript grammar of Spec/C10TsGrammar.v has no import statement (the
# import blocks of folder-mode files are judged by import_block_grammar below); the others parse their folder-mode files too
GRAMMAR_NOT_IN_FOLDER_MODE = {'typescript'}
LANG_NAME = {'typescript': 'TypeScript', 'kotlin': 'Kotlin', 'swift': 'Swift', 'scala': 'Scala', 'go': 'Go', 'python': 'Python'}


def grammar_verdicts(pairs):
    """pairs: [(lang, text)] -> one verdict per pair: None (no recogniser for the language), True (accepted), False (rejected);
    one batch of driver calls for all languages"""
    pairs = list(pairs)
    at = [i for i, (l, _) in enumerate(pairs) if l in GRAMMAR]
    out = [None] * len(pairs)
    for i, a in zip(at, vf.model([f'({GRAMMAR[pairs[i][0]][0]} {S(pairs[i][1])})' for i in at])):
        out[i] = a != 'none'
    return out


def grammar_judge(chk, lang, verdict, fails, why, where='', counter=''):
    """the verdict of grammar_verdicts on one text -> failure kind + reason appended, or the per-language counter of accepted texts
    (ts_grammar_accepted, go_grammar_accepted, kt_grammar_accepted ...; `counter` = suffix, e.g. _folder)"""
    if verdict is None:
        return
    cmd, kind, spec = GRAMMAR[lang]
    if verdict:
        if chk is not None:
            chk.count(kind.replace('-', '_') + '_accepted' + counter)
        return
    fails.append(kind)
    why.append(f'{where}the extracted recogniser of the {LANG_NAME[lang]} declaration grammar ({spec}) rejects the text')


# what each finding class predicts to fail (a failure of another kind on a case of the class is NEW)
# (C10-scala-package-brace - `}` without opener under a dotless Scala package - was repaired in /repo: no entry, nothing is
#  suppressed; its witness stays in WITNESSES below and must pass, dotless packages stay in configs(): a regression is a violation)
# (C10-python-generic-alias - `Name[T] = List[T]`, a subscript assignment to an unbound name - was repaired in /repo (the alias is
#  the plain assignment `Name = List[T]` and T is declared as a TypeVar): no entry; a 'py-grammar' complaint (assignment to a
#  Subscript) or an import failure at such a statement ('py-import-at-generic-alias') is a plain violation again; the witness stays
#  in WITNESSES with label None and must pass every judgement, the import of the module included)
# (C10-scala-toplevel-alias - under a dotless Scala package neither `package object p {` nor `package p {` was printed, the type
#  aliases stood at the top level of the compilation unit - was repaired in /repo (begin_package_object / begin_package always open a
#  block named by the last segment of the package name): no entry, an 'sc-grammar' rejection under a dotless package is a plain
#  violation again; the witness stays in WITNESSES with label None and must pass; dotless packages stay in configs())
# (C10-swift-key-keyword - a tag / content key that is a Swift keyword printed bare as a ContainerCodingKeys case, `case case, default` -
#  was repaired in /repo (fix 29: both keys go through swift_keyword_aware_rename): no entry; 'sw-grammar' / 'keyword' on such an enum is
#  a plain violation; the witness is in WITNESSES with label None and decorate() draws keyword keys)
PREDICTS = {
    'C10-scala-default': {'scala-default', 'sc-grammar'},
    'C10-scala-keyword-name': {'sc-grammar'},
    'C10-scala-content-key': {'sc-grammar', 'identifier', 'template'},
    'C10-swift-label': {'swift-label', 'sw-grammar'},
    'C10-python-empty-union': {'py-syntax'},
    'C10-python-key-keyword': {'py-syntax', 'template', 'keyword'},
    'C10-python-digit-name': {'py-syntax', 'identifier', 'template'},
    'C10-digit-name': {'identifier', 'template', 'ts-grammar', 'go-grammar', 'kt-grammar', 'sw-grammar', 'sc-grammar'},
    'C10-python-generic-enum-arg': {'py-import-not-subscriptable'},
    'C10-go-keyword-name': {'go-grammar'},
}

OVERRIDE = ('#[typeshare(typescript(type = "Record<string, number[]>"), kotlin(type = "Map<String, List<Int>>"), '
            'swift(type = "[String: [Int]]"), go(type = "map[string][]int"), python(type = "Dict[str, List[int]]"), '
            'scala(type = "Map[String, Vector[Int]]"))]')


def configs(version):
    hv = {'no_version_header': False, 'version': version}
    return {
        'typescript': [{}, dict(hv), dict(hv, type_mappings={'Vec<u8>': 'Uint8Array', 'Url': 'string', 'DateTime': 'Date'})],
        'kotlin': [{'package': 'com.agilebits.onepassword', 'module_name': 'colorsModule'},
                   dict(hv, package='com.agilebits.onepassword', prefix='OP', type_mappings={'Url': 'String', 'DateTime': 'String'})],
        'swift': [{}, dict(hv, prefix='OP', default_decorators=['Sendable', 'Identifiable'], default_generic_constraints=['Sendable'],
                           type_mappings={'Url': 'String', 'DateTime': 'Date'})],
        'scala': [{'package': 'com.agilebits.onepassword'}, dict(hv, package='com.agilebits.onepassword', type_mappings={'Url': 'String', 'DateTime': 'String'}),
                  {'package': 'onepassword'}],
        'go': [{'package': 'proto'}, dict(hv, package='proto', uppercase_acronyms=['ID', 'URL'], type_mappings={'Url': 'string', 'DateTime': 'string', 'Vec<u8>': '[]byte'}),
               {'package': 'proto', 'no_pointer_slice': True}],
        'python': [{}, dict(hv, type_mappings={'Url': 'AnyUrl', 'DateTime': 'datetime', 'Vec<u8>': 'bytes'})],
    }


# ------------------------------------------------------------------ generators
# doc lines that are SAFE (c10_doc_ok) but full of characters that mean something to some lexer
SAFE_DOCS = ['has { brace ( paren [ bracket', 'closes } ) ] nothing', "uses 'single' quotes and one '", 'star * and slash / apart, ** twice',
             'hash # tag and // slashes', 'ends with a quote"', 'two "" quotes and `one tick', 'dollar ${x} template', 'x /', '* leading star',
             'unicode \u00e9\u4e2d ok', "it's <b>html</b> & more"]


# (tag, content) pairs drawn from SWIFT_KEYWORDS (core/src/language/swift.rs:24).  The programs are shared by the six languages: Go uses the
# content key verbatim as a struct field name (`type interface{}`: inside the open class C10-go-keyword-name since the class covers the
# content key), Python declares both keys verbatim as attributes of a class (`class: Literal[..]`, `in: int`: the open class
# C10-python-key-keyword); the last three pairs are there for these two classes.
KEYWORD_KEYS = [('case', 'let'), ('default', 'self'), ('func', 'inout'), ('struct', 'init'), ('var', 'private'), ('switch', 'where'),
                ('enum', 'static'), ('let', 'nil'), ('type', 'guard'), ('self', 'throws'),
                # keys that are keywords of Python / Go as well: inside the open classes C10-python-key-keyword, C10-go-keyword-name (content key)
                ('class', 'in'), ('kind', 'type'), ('from', 'import')]


def decorate(rng, prog):
    """plant decorators, redaction, read-only markers and balanced type overrides; make some doc lines nasty but safe"""
    for it in prog.items:
        for holder in [it] + list(it.fields) + list(it.variants) + [f for v in it.variants for f in v.fields]:
            if holder.docs and rng.random() < 0.5:
                holder.docs = [rng.choice(SAFE_DOCS) if rng.random() < 0.7 else d for d in holder.docs]
    for it in prog.items:
        if not it.annotated:
            continue
        if it.tag is not None and rng.random() < 0.25:
            # tag / content keys that are keywords of Swift (fix 29 of /repo: Swift prints them as enum cases and member accesses, in back
            # ticks; the other languages put the key in a string literal / annotation argument)
            it.tag, it.content = rng.choice(KEYWORD_KEYS)
        c = rng.random()
        if c < 0.12:
            it.extra_attrs.append('#[typeshare(swift = "Equatable, Hashable")]')
        elif c < 0.2:
            it.extra_attrs.append('#[typeshare(redacted)]')
        elif c < 0.26 and it.kind in ('struct', 'newtype', 'alias'):
            it.extra_attrs.append('#[typeshare(kotlin = "JvmInline")]')
        if it.generics and rng.random() < 0.3:
            it.extra_attrs.append(f'#[typeshare(swiftGenericConstraints = "{it.generics[0]}: Equatable & Hashable")]')
        fields = list(it.fields) + [f for v in it.variants for f in v.fields]
        for f in fields:
            if rng.random() < 0.02:
                f.rename = rng.choice(['1st', '2-fa', '3_d'])
            c = rng.random()
            if c < 0.08:
                f.extra_attrs.append(OVERRIDE)
            elif c < 0.14:
                f.extra_attrs.append('#[typeshare(typescript(readonly))]')


def gen_programs(rng, n, consts):
    prof = progs.Profile(p_doc=0.45, p_rename_type=0.1, allow_const=consts, p_unannotated=0.1, n_items=(1, 6), p_digit_variant=0.08)
    g = progs.ProgGen(rng, prof)
    out = []
    for _ in range(n):
        p = g.program()
        decorate(rng, p)
        if rng.random() < 0.15:     # empty struct with braces
            p.prelude += '#[typeshare]\npub struct EmptyBraces {}\n'
        c = rng.random()
        if c < 0.08:       # generic structs that end up WITHOUT members (seeded C10_c: `object Tag<T>` in Kotlin)
            p.prelude += '#[typeshare]\npub struct EmptyGeneric<T> {\n    #[serde(skip)]\n    pub marker: std::marker::PhantomData<T>,\n}\n'
        elif c < 0.14:
            p.prelude += '#[typeshare]\npub struct EmptyGenericBraces<T, U> {}\n'
        elif c < 0.18:
            p.prelude += '#[typeshare]\npub struct UnitGeneric<T>;\n'
        out.append(p)
    return out


# ------------------------------------------------------------------ grammar validators on real text
def py_decl_grammar(tree):
    """the declaration subset the Python back end emits, over CPython's own AST:
       module  := (docstring | from-import | NAME '=' expr | NAME ':' type '=' expr | class | def)*
       class   := 'class' NAME '(' bases ')' ':' (docstring | NAME '=' expr | NAME ':' type ['=' expr] | 'pass')+
    -> list of complaints"""
    bad = []

    def is_doc(n):
        return isinstance(n, ast.Expr) and isinstance(n.value, ast.Constant) and isinstance(n.value.value, str)

    def simple_assign(n):
        return isinstance(n, ast.Assign) and len(n.targets) == 1 and isinstance(n.targets[0], ast.Name)

    for n in tree.body:
        if is_doc(n) or isinstance(n, (ast.ImportFrom, ast.FunctionDef)) or simple_assign(n):
            continue
        if isinstance(n, ast.AnnAssign) and isinstance(n.target, ast.Name) and n.value is not None:
            continue
        if isinstance(n, ast.ClassDef):
            if n.keywords or n.decorator_list or not n.bases:
                bad.append(f'line {n.lineno}: class header of {n.name}')
            for m in n.body:
                if is_doc(m) or isinstance(m, ast.Pass) or simple_assign(m):
                    continue
                if isinstance(m, ast.AnnAssign) and isinstance(m.target, ast.Name) and m.simple:
                    continue
                bad.append(f'line {m.lineno}: {type(m).__name__} in the body of class {n.name}')
            continue
        what = type(n).__name__
        if isinstance(n, ast.Assign):
            what = 'assignment to ' + ', '.join(type(t).__name__ for t in n.targets)
        bad.append(f'line {n.lineno}: {what} is not a declaration')
    return bad


class _Placeholder(type):
    """stands for an unbound name while the import is repeated: subscriptable, item-assignable"""
    def __getitem__(cls, item):
        return cls

    def __setitem__(cls, key, value):
        pass


def python_verdict(text):
    """CPython's parser, the declaration grammar over its AST, then import (module body executed) against
    the stub pydantic.  A NameError is name resolution, not syntax (C09 / C11 / C12): the name is pre-bound
    to a placeholder and the import is repeated, so that any OTHER failure still surfaces; counted."""
    try:
        tree = ast.parse(text)
    except SyntaxError as e:
        return ['py-syntax'], f'SyntaxError: {e.msg} (line {e.lineno})'
    fails, why = [], []
    g = py_decl_grammar(tree)
    if g:
        fails.append('py-grammar')
        why += g[:3]
    saved = list(sys.path)
    mods = {k: sys.modules.pop(k) for k in list(sys.modules) if k == 'pydantic' or k.startswith('pydantic.')}
    sys.path.insert(0, STUB)
    code = compile(tree, '<generated>', 'exec')
    late = {}
    try:
        for _ in range(60):
            m = types.ModuleType('generated_by_typeshare')
            m.__dict__.update(late)
            try:
                exec(code, m.__dict__)
                break
            except NameError as e:
                name = getattr(e, 'name', None)
                if name and name not in late:
                    late[name] = _Placeholder(name, (), {})
                    continue
                raise
        if late:
            NAME_ERRORS.append(sorted(late))
    except Exception as e:      # noqa: any other failure of the import is the observation
        import traceback
        lines = [fr.lineno for fr in traceback.extract_tb(e.__traceback__) if fr.filename == '<generated>']
        sub = {n.lineno for n in tree.body if isinstance(n, ast.Assign) and any(isinstance(t, ast.Subscript) for t in n.targets)}
        # a failure raised BY a `Name[T] = ..` statement (the repaired generic-alias defect) keeps a kind of its own in the report
        if isinstance(e, TypeError) and 'already defined as' in str(e):
            # two variants whose <Enum>Types member names collide (fooBar / foo_bar -> FOO_BAR): a naming collision
            # (C02's subject), not syntax; the import stops here, so later statements are not executed: counted
            COLLISIONS.append(str(e))
            return fails, '; '.join(why)
        kind = 'py-import-at-generic-alias' if lines and lines[-1] in sub else 'py-import'
        if kind == 'py-import' and isinstance(e, TypeError) and ('not subscriptable' in str(e) or 'is not a generic class' in str(e)):
            kind = 'py-import-not-subscriptable'
        fails.append(kind)
        why.append(f'{type(e).__name__}: {e}')
    finally:
        sys.path[:] = saved
        for k in [k for k in sys.modules if k == 'pydantic' or k.startswith('pydantic.')]:
            del sys.modules[k]
        sys.modules.update(mods)
    return fails, '; '.join(why)


def param_separators(lang, text):
    """Kotlin / Scala primary-constructor parameter lists: `Name (` ... `)` with one parameter per line; every
    parameter but the last is followed by a comma, the last is not (the line-oriented template recognisers of
    lib/extract.py do not look at the separators)."""
    bad = []
    lines = text.split('\n')
    i = 0
    head = re.compile(r'^(data class|value class|case class) [^\n]*\($')
    while i < len(lines):
        if head.match(lines[i]):
            j = i + 1
            params = []
            while j < len(lines) and not lines[j].startswith(')'):
                l = lines[j]
                st = l.strip()
                if st and not st.startswith('//') and not st.startswith('@'):
                    params.append((j + 1, l))
                j += 1
            for k, (no, l) in enumerate(params):
                last = k == len(params) - 1
                if l.rstrip().endswith(',') == last:
                    bad.append(f'line {no}: {"unexpected" if last else "missing"} `,` after a constructor parameter')
            i = j
        i += 1
    return bad



_ID = r'(?:`[^`\n]+`|[A-Za-z_][A-Za-z0-9_]*)'
_KT_MOD = r'(?:(?:public|private|internal|protected|open|abstract|sealed|data|value|inline|enum|annotation|inner|final)\s+)*'


def _balanced_angle(rest, open_c, close_c):
    """rest starts with open_c: index just after the matching close_c, or None"""
    depth = 0
    for i, ch in enumerate(rest):
        if ch == open_c:
            depth += 1
        elif ch == close_c:
            depth -= 1
            if depth == 0:
                return i + 1
    return None


def head_grammar(lang, text):
    """DEFINITE violations of the declaration-head grammar of Kotlin / Scala (no compiler for them is installed; the line-oriented
    templates of lib/extract.py only say `unreadable`).  Kotlin (grammar: objectDeclaration := modifiers? 'object' simpleIdentifier
    (':' delegationSpecifiers)? classBody? - NO typeParameters, no constructor; classDeclaration := modifiers? 'class' simpleIdentifier
    typeParameters? primaryConstructor? (':' ..)? classBody?; typeAlias := 'typealias' simpleIdentifier typeParameters? '=' type).
    Scala 2 (ObjectDef := id ClassTemplateOpt - no type parameters, no parameters; ClassDef := id [TypeParamClause] ..;
    TypeDef := id [TypeParamClause] '=' Type).  Comments and string literals are skipped by only looking at lines that START
    (after indentation, annotations on their own lines excluded) with the declaration keyword."""
    bad = []
    if lang not in ('kotlin', 'scala'):
        return bad
    op, cl = ('<', '>') if lang == 'kotlin' else ('[', ']')
    mods = _KT_MOD if lang == 'kotlin' else r'(?:(?:sealed|case|final|abstract|private|implicit)\s+)*'
    alias_kw = 'typealias' if lang == 'kotlin' else 'type'
    for no, line in enumerate(text.split('\n'), 1):
        m = re.match(r'^\s*' + mods + r'(object|class|trait|interface|' + alias_kw + r')\s+(' + _ID + r')(.*)$', line)
        if not m:
            continue
        kw, name, rest = m.group(1), m.group(2), m.group(3)
        r = rest.lstrip()
        if kw == 'object':
            if r.startswith(op) or r.startswith('('):
                bad.append(f'line {no}: `object {name}` followed by `{r[:12]}`: an object declaration takes neither type parameters nor a constructor')
            continue
        if r.startswith(op):
            end = _balanced_angle(r, op, cl)
            if end is None:
                bad.append(f'line {no}: unclosed type-parameter list after `{kw} {name}`')
                continue
            if r[1:end - 1].strip() == '':
                bad.append(f'line {no}: empty type-parameter list after `{kw} {name}`')
            r = r[end:].lstrip()
        if kw == alias_kw and not r.startswith('='):
            bad.append(f'line {no}: `{kw} {name}` is not followed by `=`')
    return bad


GO_ESC = re.compile(r'\\(?:[abfnrtv\\"]|[0-7]{3}|x[0-9a-fA-F]{2}|u[0-9a-fA-F]{4}|U[0-9a-fA-F]{8})')


def go_string_escapes(text):
    """Go interpreted string literals ("..." outside comments, raw strings and rune literals): every backslash must start one of
    the escapes of the language specification (\\a \\b \\f \\n \\r \\t \\v \\\\ \\" \\ooo \\xhh \\uhhhh \\Uhhhhhhhh); \\' is legal in a rune literal only and
    \\u{..} is Rust, not Go.  The reference lexer of Spec/C10Spec.v only finds the END of a literal; this finds ill-formed insides."""
    bad, i, n, line = [], 0, len(text), 1
    while i < n:
        c = text[i]
        if c == '\n':
            line += 1
            i += 1
        elif text.startswith('//', i):
            j = text.find('\n', i)
            i = n if j < 0 else j
        elif text.startswith('/*', i):
            j = text.find('*/', i + 2)
            line += text.count('\n', i, n if j < 0 else j)
            i = n if j < 0 else j + 2
        elif c == '`':
            j = text.find('`', i + 1)
            line += text.count('\n', i, n if j < 0 else j)
            i = n if j < 0 else j + 1
        elif c == "'":
            j = i + 1
            while j < n and text[j] != "'" and text[j] != '\n':
                j += 2 if text[j] == '\\' else 1
            i = j + 1
        elif c == '"':
            j = i + 1
            while j < n and text[j] != '"' and text[j] != '\n':
                if text[j] == '\\':
                    m = GO_ESC.match(text, j)
                    if not m:
                        bad.append(f'line {line}: `{text[j:j + 6]}` is not an escape sequence of a Go string literal')
                        j += 2
                    else:
                        j = m.end()
                else:
                    j += 1
            i = j + 1
        else:
            i += 1
    return bad

def swift_member_names(text):
    """Swift: the name after a `.` (implicit member `case .a:`, `self = .a(content)`, `CodingKeys.a`, `forKey: .key`) is an identifier or a
    back-ticked one - never a digit run followed by letters (`.2FaCode`: the lexer reads `.2` as a number and the rest as a second token).
    Strings and comments are blanked first. (seeded C10_h: the `_` put in front of a digit-initial variant name was kept at the
    declaration but lost in the switch bodies of init(from:) / encode(to:), which the declaration grammar reads as balanced token runs)"""
    t = re.sub(r'"(?:\\.|[^"\\\n])*"', '""', text)
    t = re.sub(r'/\*.*?\*/', ' ', t, flags=re.S)
    t = re.sub(r'//[^\n]*', '', t)
    out = []
    for m in re.finditer(r'(?<![0-9])\.([0-9]+[A-Za-z_][A-Za-z0-9_]*)', t):
        out.append(f'member name `.{m.group(1)}` starts with a digit')
    return out


KEYDECLS = {}      # (lang, text) -> the ContainerCodingKeys pseudo-declarations of a Swift text (see observe)


def observe(lang, text):
    """declaring positions + template conformance from the REAL text"""
    o = extract.extract(lang, text)
    decls, labels, fails, why = [], [], [], []
    keydecls = KEYDECLS[(lang, text)] = []
    for d in o['definitions']:
        # every declared name must be an identifier (TypeScript: a quoted property name and the wire strings of an
        # algebraic enum's alternatives are not identifier positions)
        names = [(d['name'], d.get('ident_ok', True))]
        names += [(m['name'], m.get('ident_ok', True)) for m in d['members'] if not (lang == 'typescript' and m.get('key_binding') == 'quoted')]
        if not (lang == 'typescript' and d['kind'] == 'enum' and d.get('algebraic')):
            names += [(v['name'], v.get('ident_ok', True)) for v in d['variants']]
        for n, okk in names:
            if not okk:
                fails.append('identifier')
                why.append(f'declared name {n!r} in {d["name"]} is not an identifier')
        if d['kind'] == 'helper':
            continue
        decls.append((d['name'], bool(d['escaped']), [(m['name'], bool(m['escaped'])) for m in d['members']]))
        if lang == 'swift' and d.get('container_keys'):
            # the two cases of ContainerCodingKeys declare the tag / content key: judged by the same extracted predicate, as the
            # members of the nested enum (kept apart from `decls`, which is compared with the model's Decl observation)
            keydecls.append(('ContainerCodingKeys', False, [(c['name'], bool(c['escaped'])) for c in d['container_keys']]))
        for p in d.get('init_params') or []:
            labels.append(p[0])
        if lang == 'scala':
            for m in d['members']:
                if (m.get('default') or '').strip() == '_':
                    fails.append('scala-default')
                    why.append(f'{d["name"]}.{m["name"]}: `= _` in a parameter list')
    if o['unparsed'] or o['anomalies']:
        fails.append('template')
        why += [str(x) for x in (o['unparsed'] + o['anomalies'])[:4]]
    if lang in ('kotlin', 'scala'):
        ps = param_separators(lang, text)
        if ps:
            fails.append('separators')
            why += ps[:3]
        hg = head_grammar(lang, text)
        if hg:
            fails.append('head-grammar')
            why = hg[:3] + why
    if lang == 'swift':
        sm = swift_member_names(text)
        if sm:
            fails.append('identifier')
            why = sm[:3] + why
    if lang == 'go':
        ge = go_string_escapes(text)
        if ge:
            fails.append('go-escape')
            why = ge[:3] + why
    if lang == 'python':
        f, w = python_verdict(text)
        fails += f
        if w:
            why.append(w)
    return decls, labels, sorted(set(fails)), why


def python_key_keyword_class(lang, items):
    """Python twin (cross-check only) of the extracted Gallina class Spec.C10PyKeys.known_C10_py_keys, which is what classifies a case:
    the class of the open finding C10-python-key-keyword, decided on the IR the REAL parser produced: Python, an adjacently tagged enum whose
    tag key or content key is a Python keyword - write_algebraic_enum declares both keys verbatim as class attributes (`class: Literal[..]`,
    `in: int`), while every field name goes through python_property_aware_rename (`class_: .. = Field(alias="class")`)"""
    import keyword
    if lang != 'python':
        return []
    for e in (items or {}).get('enums', []):
        if e.get('algebraic') and (keyword.iskeyword(e.get('tag') or '') or (keyword.iskeyword(e.get('content') or '') and any(v.get('k') != 'unit' for v in e.get('variants', [])))):
            return ['C10-python-key-keyword']
    return []


def kw_request(lang, decls, labels, text=None):
    decls = list(decls) + (KEYDECLS.get((lang, text)) or [])
    ds = Lst(decls, lambda d: f'({S(d[0])} {B(d[1])} {Lst(d[2], lambda m: f"({S(m[0])} {B(m[1])})")})')
    return f'(c10_kw {lang} {ds} {Lst(labels, S)})'


# ------------------------------------------------------------------ one batch of cases
def judge(chk, cases, tag):
    """cases: list of (lang, cfg, src, meta). Runs both sides, judges the real bytes."""
    res = back.run_src([(l, c, s, []) for l, c, s, _ in cases])
    # extracted judgements on the real bytes / real IR
    lexq, clsq, kwq, gocq, idx = [], [], [], [], []
    obs = {}
    for k, (r, (lang, cfg, src, meta)) in enumerate(zip(res, cases)):
        if r['impl'][0] != 'ok':
            continue
        text = r['impl'][1]
        idx.append(k)
        lexq.append(f'(c10_lex {lang} {S(text)})')
        clsq.append(f'(c10_cls {lang} {S(cfg.get("package", ""))} {back.items_sx(r["ir"])})')
        obs[k] = observe(lang, text)
        kwq.append(kw_request(lang, obs[k][0], obs[k][1], text))
        if lang == 'go':       # Go's own classifier: the finding class of the Go declaration grammar, on the IR the REAL parser produced
            gocq.append((k, f'(c10_go_cls {back.items_sx(r["ir"])})'))
        if lang == 'python':   # the class of the open finding C10-python-key-keyword (Spec.C10PyKeys.known_C10_py_keys)
            gocq.append((k, f'(c10_py_keys_cls {back.items_sx(r["ir"])})'))
        if lang == 'scala':    # likewise the finding classes of the Scala declaration grammar (Spec.C10ScGrammar.known_C10_sc_grammar)
            gocq.append((k, f'(c10_sc_cls {S(cfg.get("package", ""))} {back.items_sx(r["ir"])})'))
    cfgkeys = sorted(set((cases[k][0], json.dumps(cases[k][1], sort_keys=True)) for k in idx))
    cfgq = [f'(c10_cfg {l} {back.cfg_sx(json.loads(c))})' for l, c in cfgkeys]
    gocls = dict(zip([k for k, _ in gocq], vf.model([q for _, q in gocq])))
    ans = vf.model(lexq + clsq + kwq + cfgq)
    # the extracted recognisers of the declaration grammars (table GRAMMAR) on every real file of their language
    gra = dict(zip(idx, grammar_verdicts((cases[k][0], res[k]['impl'][1]) for k in idx)))
    n = len(idx)
    lexa, clsa, kwa = ans[:n], ans[n:2 * n], ans[2 * n:3 * n]
    cfg_ok = dict(zip(cfgkeys, [a == 'true' for a in ans[3 * n:]]))
    # the model's own observation of the declaring positions (extractor self-check + correspondence)
    srcs = sorted(set(cases[k][2] for k in idx))
    asts = dict(zip(srcs, vf.impl([{'cmd': 'ast', 'src': s} for s in srcs])))
    mq, midx = [], []
    for k in idx:
        lang, cfg, src, meta = cases[k]
        if lang in ('swift', 'python') and 'ok' in asts[src]:
            mq.append(f'(c10_kw_model {lang} {back.cfg_sx(cfg)} {asts[src]["ok"]} {asts[src]["tstrs"]} ())')
            midx.append(k)
    mkw = dict(zip(midx, vf.model(mq)))
    drift = []
    for j, k in enumerate(idx):
        lang, cfg, src, meta = cases[k]
        r = res[k]
        text = r['impl'][1]
        chk.evaluations += 1
        chk.count(f'{tag}.{lang}')
        payload = {'lang': lang, 'cfg': cfg, 'src': src, 'meta': meta}
        equal = back.same(r['impl'], r['model'])
        dom = vf.sx_get(clsa[j], 'dom') == 'true' and cfg_ok[(lang, json.dumps(cfg, sort_keys=True))]
        if not cfg_ok[(lang, json.dumps(cfg, sort_keys=True))]:
            chk.count('inadmissible_configuration')
        known = list(vf.sx_get(clsa[j], 'known')) + list(gocls.get(k, []))
        if lang == 'python' and sorted(vf.unS(c) if isinstance(c, str) and c.startswith('"') else c for c in gocls.get(k, [])) != python_key_keyword_class(lang, r['ir']):
            # the extracted class (Spec/C10PyKeys.v) and the check's own reading of the same definition disagree: one of them is wrong
            chk.violation(f'{tag}-{lang}-{k}-class', dict(payload, extracted=list(gocls.get(k, [])), python=python_key_keyword_class(lang, r['ir'])),
                          'the extracted class known_C10_py_keys and its Python twin disagree on this input', no_input=True)
        decls, labels, fails, why = obs[k]
        fails = list(fails)
        lex = lexa[j]
        if len(text) < 900 and len(XCHECK) < 200 and (k % 37 == 0 or lex[0] != 'balanced'):
            XCHECK.append((lang, text, lex[0] == 'balanced'))
        if lex[0] != 'balanced':
            fails.append('lex')
            pos = int(lex[1][1:]) if lex[0] == 'error' else len(text)
            why.append(f'lexer: {lex[0]} at offset {pos} in state {vf.dump_sx(lex[-1])}: ...{text[max(0, pos - 40):pos + 10]!r}')
        grammar_judge(chk, lang, gra[k], fails, why)
        if vf.sx_get(kwa[j], 'kw') != 'true':
            fails.append('keyword')
            why.append('a declared name that is a keyword of the language is not escaped' +
                       ''.join(f' (ContainerCodingKeys case {m[0]})' for kd in KEYDECLS.get((lang, text)) or [] for m in kd[2] if not m[1]))
        if vf.sx_get(kwa[j], 'labels') != 'true':
            fails.append('swift-label')
            why.append('init label among inout/var/let: ' + ' '.join(l for l in labels if l in ('inout', 'var', 'let')))
        if k in mkw:
            m = mkw[k]
            if m[0] == 'ok':
                mdecls = [(vf.unS(d[0]), d[1] == 'true', [(vf.unS(x[0]), x[1] == 'true') for x in d[2]]) for d in m[2]]
                if mdecls != decls:
                    drift.append((payload, f'declaring positions differ: model {mdecls[:3]} real text {decls[:3]}'))
        if not equal:
            drift.append((payload, 'bytes of the model and of the real generator differ'))
        if not dom:
            chk.count('outside_dom')
            if fails:
                chk.count('outside_dom_failing')
            continue
        explained = set()
        for c in known:
            explained |= PREDICTS.get(c, set())
        new = [f for f in fails if f not in explained]
        if new and all(f == 'template' for f in new) and lang not in ('typescript', 'python'):
            # the text is lexically closed (the Gallina lexer accepts it) and every specific judgement passes, but lines lie outside the
            # declaration TEMPLATES lib/extract.py knows for this language (no grammar or compiler for it is available here): either
            # ill-formed in a way only a parser would see, or merely a layout the templates do not know - not a failing input
            chk.unreadable(lang, dict(payload, failures=fails), why)
            continue
        if new:
            chk.violation(f'{tag}-{lang}-{k}', dict(payload, failures=fails, why=why, known=known),
                          f'{lang} output is not well-formed: {", ".join(new)}: {"; ".join(why)[:600]}')
            continue
        for c in known:
            if PREDICTS.get(c, set()) & set(fails):
                # the failure kinds of the REAL text are the ones the class predicts (anything else is `new` above); whether the model
                # prints the same bytes is the correspondence's business (drift, reported without a failing input below)
                if not chk.known(c, payload):
                    chk.violation(f'{tag}-{lang}-{k}', dict(payload, failures=fails, why=why, known=known), f'unlisted finding class {c}')
            else:
                chk.count(f'class_without_failure.{c}')
        if not known and not fails:
            chk.count('good')
            if decls:
                chk.nontrivial.add((lang, json.dumps(cfg, sort_keys=True), src))
            if len(chk.samples) < 4 and len(text) < 700:
                chk.sample({'lang': lang, 'cfg': cfg, 'src': src, 'output': text})
    for k, (r, c) in enumerate(zip(res, cases)):
        if r['impl'][0] != 'ok':
            chk.count(f'no_output.{r["impl"][0]}')
            if not back.same(r['impl'], r['model']):
                drift.append(({'lang': c[0], 'cfg': c[1], 'src': c[2]}, f'outcome differs: real {r["impl"][0]} model {r["model"][0]}'))
    return drift



ODD_WIRE = ["don't know", 'cr\u00e9\u00e9e', "it's", 'na\u00efve', '\u4e2d\u6587', "l'\u00e9t\u00e9", 'a b', 'tab\there']


def phase_go_strings(chk, n):
    """Go only: wire names with an apostrophe, non-ASCII letters, blanks (outside the identifier domain of the lexical theorem, so
    the other judgements are not applied): what Go prints between double quotes must consist of Go escapes only, and the bytes
    must be the model's (seeded C10_e: literals built with str::escape_default, which writes \\' and \\u{e9})."""
    rng = chk.rng
    cases = []
    for p in gen_programs(rng, n, True):
        vs = [v for it in p.items if it.annotated for v in it.variants]
        if not vs:
            continue
        for v in rng.sample(vs, min(len(vs), rng.randint(1, 2))):
            v.rename = rng.choice(ODD_WIRE)
        cases.append(('go', rng.choice(configs('1.13.2')['go']), progs.source(p), []))
    res = back.run_src(cases)
    drift = []
    for k, ((lang, cfg, src, _), r) in enumerate(zip(cases, res)):
        chk.evaluations += 1
        chk.count('go_string_cases')
        payload = {'lang': lang, 'cfg': cfg, 'src': src}
        if r['impl'][0] == 'ok':
            ge = go_string_escapes(r['impl'][1])
            if ge:
                chk.violation(f'go-strings-{k}', dict(payload, why=ge[:4]), 'go output is not well-formed: ' + '; '.join(ge[:3]))
                continue
        if not back.same(r['impl'], r['model']):
            drift.append((payload, 'bytes of the model and of the real Go generator differ on a wire name outside the identifier alphabet'))
    return drift


TS_IMPORT_STMT = re.compile(r'import\s*\{([^}]*)\}\s*from\s*"([^"\n]*)"\s*;')
TS_IMPORT_NAMES = re.compile(r'^\s*[A-Za-z_$][A-Za-z0-9_$]*(\s*,\s*[A-Za-z_$][A-Za-z0-9_$]*)*\s*,?\s*$')


def import_block_grammar(lang, text):
    """folder-output files: every import statement is one of the language (TypeScript: import { A, B } from "./m"; - a comma
    between any two names, whatever the line breaks; Kotlin: one `import a.b.C` per line)"""
    bad = []
    if lang == 'typescript':
        stmts = TS_IMPORT_STMT.findall(text)
        for names, mod in stmts:
            if names.strip() and not TS_IMPORT_NAMES.match(names):
                bad.append(f'import list of "{mod}" is not a comma-separated list of names: {names.strip()[:120]!r}')
        nimport = len(re.findall(r'^\s*import\b', text, re.M))
        if nimport != len(stmts):
            bad.append(f'{nimport} lines start an import but {len(stmts)} complete import statements were found')
    if lang == 'kotlin':
        for ln in text.split('\n'):
            if ln.startswith('import ') and not re.fullmatch(r'import [A-Za-z_][A-Za-z0-9_]*(\.[A-Za-z_][A-Za-z0-9_]*)*', ln.rstrip()):
                bad.append(f'not an import directive: {ln[:120]!r}')
    return bad


def phase_folder(chk, n):
    """folder-output mode through the real binary: a library crate with 1-40 types (short and long names) and an application crate
    that imports them - explicitly in one or several use statements, or by a glob - and refers to all of them; TypeScript and
    Kotlin print import blocks, every language prints per-crate files.  Judged: the extracted reference lexer on every real file,
    the import statements against the grammar of the language (seeded C10_f: long TypeScript import lists wrapped over several
    lines, the comma lost at each break), the usual template / head-grammar observations."""
    import subprocess
    rng = chk.rng
    for k in range(n):
        nt = rng.choice([1, 2, 5, 12, 20, 30, 40])
        names = []
        while len(names) < nt:
            nm = rng.choice(['Item', 'Node', 'Account', 'Configuration', 'VeryLongTypeNameForImports', 'Shape', 'Kind', 'Payload', 'Settings', 'Envelope']) + str(len(names))
            names.append(nm)
        lib = ''.join(f'#[typeshare]\npub struct {nm} {{ pub x: u8 }}\n' for nm in names)
        how = rng.choice(['one-use', 'many-uses', 'glob', 'paths'])
        if how == 'one-use':
            uses = 'use lib_crate::{' + ', '.join(names) + '};\n'
        elif how == 'many-uses':
            uses = ''.join(f'use lib_crate::{nm};\n' for nm in names)
        elif how == 'glob':
            uses = 'use lib_crate::*;\n'
        else:
            uses = ''
        q = 'lib_crate::' if how == 'paths' else ''
        app = uses + '#[typeshare]\npub struct App {\n' + ''.join(f'    pub f{i}: {q}{nm},\n' for i, nm in enumerate(names)) + '}\n'
        d = vf.tmpdir('verif-c10-')
        for c, src in (('lib-crate', lib), ('app', app)):
            (d / 'ws' / c / 'src').mkdir(parents=True)
            (d / 'ws' / c / 'src' / 'lib.rs').write_text(src)
        # Kotlin twice: the second time under a prefix - the import lines then carry it (`import com.p.lib_crate.KPItem0`, fix 26 of /repo)
        for label, extra in (('typescript', []), ('kotlin', ['--java-package', 'com.p']), ('kotlin+prefix', ['--java-package', 'com.p', '--kotlin-prefix', 'KP']),
                             ('swift', []), ('python', []), ('go', ['--go-package', 'p']), ('scala', ['--scala-package', 'com.p'])):
            lang = label.split('+')[0]
            out = d / f'out_{label}'
            out.mkdir()
            p = subprocess.run(['timeout', '30', str(vf.TYPESHARE), '--lang', lang] + extra + ['--output-folder', str(out), str(d / 'ws')], capture_output=True, text=True)
            chk.evaluations += 1
            chk.count(f'folder.{label}')
            payload = {'phase': 'folder', 'lang': lang, 'configuration': label, 'imports_written_as': how, 'types': nt, 'lib-crate/src/lib.rs': lib, 'app/src/lib.rs': app}
            if p.returncode != 0:
                chk.violation(f'folder-{k}-{label}', dict(payload, rc=p.returncode, stderr=p.stderr[-300:]), f'{lang}: the real binary fails on a plain two-crate workspace in folder mode')
                continue
            files = {f.name: f.read_text(errors='replace') for f in sorted(out.iterdir()) if f.is_file()}
            lex = vf.model([f'(c10_lex {lang} {S(t)})' for t in files.values()])
            gra = grammar_verdicts((lang, t) for t in files.values()) if lang not in GRAMMAR_NOT_IN_FOLDER_MODE else [None] * len(files)
            for (fn, t), lx, gv in zip(files.items(), lex, gra):
                fails, why = [], []
                grammar_judge(chk, lang, gv, fails, why, where=f'{fn}: ', counter='_folder')
                if lx[0] != 'balanced':
                    fails.append('lex')
                    why.append(f'lexer: {lx[0]} in {fn}')
                ib = import_block_grammar(lang, t)
                if ib:
                    fails.append('import-grammar')
                    why += [f'{fn}: {x}' for x in ib[:3]]
                hg = head_grammar(lang, t)
                if hg:
                    fails.append('head-grammar')
                    why += hg[:2]
                if fails:
                    chk.violation(f'folder-{k}-{label}', dict(payload, file=fn, text=t[:3000], failures=fails, why=why), f'{lang} folder-mode file {fn} is not well-formed: ' + '; '.join(why)[:400])
                    break
            else:
                chk.nontrivial.add(('folder', label, how, nt))

# label None = witness of a REPAIRED class (fixed in /repo): the case is in no class and every judgement must pass
WITNESSES = [
    ('scala', {'package': 'onepassword'}, '#[typeshare]\npub struct A { pub x: String }\n', None),
    ('scala', {'package': 'p'}, '#[typeshare]\npub struct A { pub x: i8 }\n#[typeshare]\npub enum E { U, V }\n', None),
    ('scala', {'package': 'p'}, '#[typeshare]\npub type Al = Vec<u32>;\n#[typeshare]\npub struct A { pub x: u8 }\n#[typeshare]\npub enum E { U, V }\n', None),
    ('scala', {'package': 'com.x'}, '#[typeshare]\npub struct S { pub r#type: String, pub val: u8 }\n', 'C10-scala-keyword-name'),
    ('scala', {'package': 'com.x'}, '#[typeshare]\n#[serde(tag = "t", content = "my-content")]\npub enum E { A(String), B { x: u8 } }\n', 'C10-scala-content-key'),
    ('scala', {'package': 'com.x'}, '#[typeshare]\npub struct A { #[serde(default)] pub x: String }\n', 'C10-scala-default'),
    ('swift', {}, '#[typeshare]\npub struct A { pub r#let: String, pub inout: u8 }\n', 'C10-swift-label'),
    # digit-initial variant names get `_` in front - at the declaration, in CodingKeys and in every switch arm alike (seeded C10_h)
    ('swift', {}, '#[typeshare]\n#[serde(tag = "t", content = "c")]\npub enum E { _2FaCode(String), _3rdParty { x: u8 }, _4Unit, Plain(u8) }\n', None),
    # fix 31 of /repo: the String-backed (unit) enum does the same (`case _1st`, with a rename `case _3rd = "x"`); before: `case 1st = "_1st"`
    ('swift', {}, '#[typeshare]\npub enum U { _1st, _2nd }\n', None),
    ('swift', {}, '#[typeshare]\npub enum U { _1st, _2nd, #[serde(rename = "x")] _3rd, Plain }\n', None),
    ('python', {}, '#[typeshare]\npub type A<T> = Vec<T>;\n', None),
    ('python', {}, '#[typeshare]\npub type A<T> = Vec<T>;\n#[typeshare]\npub type B<K> = HashMap<String, Vec<K>>;\n#[typeshare]\npub struct S<T> { pub a: A<T>, pub b: B<u8> }\n'
                   '#[typeshare]\npub type C = A<u8>;\n', None),
    # fix 29 of /repo: tag / content keys that are Swift keywords are back-ticked (``case `case`, `default` ``); before: `case case, default`
    ('swift', {}, '#[typeshare]\n#[serde(tag = "case", content = "default")]\npub enum E { A(u8), B }\n', None),
    ('kotlin', {'package': 'com.x'}, '#[typeshare]\npub struct S { #[serde(rename = "1st")] pub first: u8 }\n', 'C10-digit-name'),
    ('typescript', {}, '#[typeshare]\npub struct S { #[serde(rename = "1st")] pub first: u8, #[serde(rename = "2-fa")] pub two: u8 }\n', 'C10-digit-name'),
    ('go', {'package': 'p'}, '#[typeshare]\npub struct S { pub _1x: u8 }\n', 'C10-digit-name'),
    ('go', {'package': 'p'}, '#[typeshare]\n#[serde(tag = "type", content = "content")]\npub enum switch { default(String) }\n', 'C10-go-keyword-name'),
    ('go', {'package': 'p'}, '#[typeshare]\n#[serde(tag = "kind", content = "type")]\npub enum E { A(u8), B }\n', 'C10-go-keyword-name'),
    ('python', {}, '#[typeshare]\n#[serde(tag = "class", content = "in")]\npub enum E { A(u8), B }\n', 'C10-python-key-keyword'),
    ('python', {}, '#[typeshare]\n#[serde(tag = "t", content = "c")]\npub enum G { #[serde(rename = "1a")] V(u8) }\n#[typeshare]\npub struct S { pub _1x: u8 }\n', 'C10-python-digit-name'),
    ('python', {}, '#[typeshare]\n#[serde(tag = "t", content = "c")]\npub enum G<T> { V(T) }\n#[typeshare]\npub type Al = Vec<G<u8>>;\n', 'C10-python-generic-enum-arg'),
]


def fixed_witness_label(lang, src):
    """the repaired class a witness with label None belongs to (only a name in the payload)"""
    if lang == 'python':
        return 'fixed:C10-python-generic-alias'
    if lang == 'swift':
        if 'pub enum U' in src:
            return 'fixed:C10-swift-unit-digit-case'
        return 'fixed:C10-swift-key-keyword' if 'tag = "case"' in src else 'fixed:swift-digit-variant'
    return 'fixed:C10-scala-toplevel-alias' if 'pub type' in src else 'fixed:C10-scala-package-brace'


def lex_expectations(chk):
    """the snapshot expectation files are themselves judged (an ill-formed expectation is a finding): extracted
    lexer, extracted recogniser of the declaration grammar (table GRAMMAR), template recogniser, CPython parser /
    declaration grammar / import"""
    files = []
    for lang in LANGS:
        files += [(lang, f) for f in sorted(glob.glob(str(vf.REPO / 'core' / 'data' / 'tests' / '*' / f'output.{EXT[lang]}')))]
    texts = [open(f, encoding='utf-8').read() for _, f in files]
    ans = vf.model([f'(c10_lex {l} {S(t)})' for (l, _), t in zip(files, texts)])
    gra = grammar_verdicts((l, t) for (l, _), t in zip(files, texts))
    blame = {'scala-default': 'C10-scala-default'}
    for (lang, f), t, a, gv in zip(files, texts, ans, gra):
        chk.count('expectation_files')
        decls, labels, fails, why = observe(lang, t)
        if a[0] != 'balanced':
            fails = fails + ['lex']
            why = why + [vf.dump_sx(a)]
        fails, why = list(fails), list(why)
        grammar_judge(chk, lang, gv, fails, why, counter='_expectation')
        name = pathlib.Path(f).parent.name
        for k in fails:
            if k == 'sc-grammar' and 'scala-default' in fails and chk.known('C10-scala-default', {'file': f}):
                chk.count('expectation_file_in_class.C10-scala-default')
                continue
            if k == 'py-grammar' and not any('Subscript' in w for w in why):
                k = 'py-grammar-other'
            if k in blame and chk.known(blame[k], {'file': f}):
                chk.count(f'expectation_file_in_class.{blame[k]}')
            else:
                chk.violation(f'expectation-{lang}-{name}', {'lang': lang, 'file': f, 'failures': fails, 'why': why},
                              f'snapshot expectation {f} is not well-formed: {k}: {"; ".join(why)[:400]}')


def run(chk):
    chk.rule = ('programs of lib/progs.py (all item kinds, generics, renames incl. dashed keys, optionals, defaults, empty structs and '
                'enums, keyword-named fields, docs on every level, consts where the back end has them) decorated with Swift/Kotlin '
                'decorators, redaction, read-only and balanced type overrides, under 2-3 configurations per language (header, package '
                'with and without dot, prefix, type mappings); plus every snapshot input and every snapshot expectation file. '
                'A case is non-trivial when it is inside dom_C10, in no finding class, and declares at least one definition.')
    chk.assumptions = [
        'the six lexers of Spec/C10Spec.v are the definition of "delimiters, string literals and comments are closed" (no compiler of the five non-Python languages is installed)',
        'the Go declaration grammar is the recogniser of Spec/C10GoGrammar.v (written from the language specification; function bodies are only checked to be balanced token runs)',
        'the Scala declaration grammar is the recogniser of Spec/C10ScGrammar.v (written from the Scala 2.13 Language Specification, chapters 1 and 13: operator identifiers, expressions beyond literals and stable identifiers, bounds and imports are outside the subset)',
        'the Swift declaration grammar is the recogniser of Spec/C10SwGrammar.v (written from the Summary of the Grammar of The Swift Programming Language; the bodies of init / func are only checked to be balanced token runs; line breaks are admitted between declarations / members, after `{`, before `}` and after a comma of a case / parameter list only)',
        'grammar conformance of ' + ', '.join(LANG_NAME[l] for l in GRAMMAR) + ' files is judged by the extracted Gallina recognisers of their declaration grammars (' + ', '.join(g[2] for g in GRAMMAR.values()) + '; proved in Props/C10.v to accept what the models print, on the domain of each theorem); for the others it is validated, not proved: CPython ast.parse + import against lib/pydantic_stub for Python; template recognisers of lib/extract.py for the others',
        'doc text is restricted to the safe predicate c10_doc_ok (doc-induced breakage is C15)',
        'a Python NameError at import is name resolution (C09 / C11 / C12) and a duplicate Enum member name is a naming collision (C02): both counted, not judged here; any other import failure is judged',
    ]
    chk.prepare(need_cli=True)
    if not chk.harness_ok:
        return
    rng = chk.rng
    cfgs = configs(vf.core_version())
    drift = []
    # 1. one witness per finding class (and the witnesses of the repaired classes, which must pass), against the real code
    wcases = [(l, c, s, {'witness': k or fixed_witness_label(l, s)}) for l, c, s, k in WITNESSES]
    good0 = chk.counters.get('good', 0)
    drift += judge(chk, wcases, 'witness')
    fixed_w = sum(1 for w in WITNESSES if w[3] is None)
    chk.counters['fixed_witnesses_passing'] = chk.counters.get('good', 0) - good0
    if chk.counters['fixed_witnesses_passing'] != fixed_w and not chk.violations:
        # judge() reports a failing / classified witness itself; this catches the one it would skip (no output, outside dom)
        chk.violation('witness-fixed', {'expected': fixed_w, 'passing': chk.counters['fixed_witnesses_passing']},
                      'a witness of a repaired class (C10-scala-package-brace, C10-scala-toplevel-alias, C10-python-generic-alias, C10-swift-key-keyword) is no longer generated, inside dom_C10, in no class and well-formed', no_input=True)
    # 1b. the class that only the IR can reach (the parser rejects tag/content on an enum without data variants)
    empty = {'kind': 'enum', 'algebraic': True, 'tag': 't', 'content': 'c', 'id': ir.mk_id('E'), 'generics': [], 'comments': [], 'variants': [],
             'decorators': [], 'is_recursive': False, 'is_redacted': False}
    r = back.run_ir([('python', {}, {'enums': [empty]}, False)])[0]
    chk.evaluations += 1
    if r['impl'][0] == 'ok':
        fl, w = python_verdict(r['impl'][1])
        cls = vf.model([f'(c10_cls python s {back.items_sx({"enums": [empty]})})'])[0]
        known = list(vf.sx_get(cls, 'known'))
        if 'py-syntax' in fl and known == ['C10-python-empty-union'] and back.same(r['impl'], r['model']):
            if not chk.known('C10-python-empty-union', {'ir': 'empty algebraic enum'}):
                chk.violation('ir-empty-union', {'items': {'enums': [empty]}}, 'unlisted finding class C10-python-empty-union')
        elif fl or not back.same(r['impl'], r['model']):
            chk.violation('ir-empty-union', {'items': {'enums': [empty]}, 'failures': fl, 'why': w, 'known': known},
                          f'IR witness of C10-python-empty-union behaves differently: {fl} {w} known={known}')
    # 2. generated programs
    n = 200 if chk.tier == 'quick' else 6000
    cases = []
    with_consts = gen_programs(rng, n, True)
    without = gen_programs(rng, n, False)
    for lang in LANGS:
        for p in (with_consts if lang in ('typescript', 'go', 'python') else without):
            src = progs.source(p)
            for cfg in cfgs[lang]:
                cases.append((lang, cfg, src, {'seed': p.seed}))
    drift += judge(chk, cases, 'gen')
    drift += phase_go_strings(chk, 60 if chk.tier == 'quick' else 1200)
    if chk.cli_ok:
        phase_folder(chk, 14 if chk.tier == 'quick' else 150)
    # 3. snapshot inputs
    snaps = []
    for f in sorted(glob.glob(str(vf.REPO / 'core' / 'data' / 'tests' / '*' / 'input.rs'))):
        src = open(f, encoding='utf-8').read()
        for lang in LANGS:
            snaps.append((lang, cfgs[lang][1], src, {'snapshot': pathlib.Path(f).parent.name}))
    drift += judge(chk, snaps, 'snapshot')
    # 4. expectation files
    lex_expectations(chk)
    # 5. thorough: the extracted lexer / recogniser verdicts re-computed inside Coq on a sample of real outputs
    if chk.tier == 'thorough' and XCHECK:
        ctor = {'typescript': 'CTS', 'kotlin': 'CKT', 'swift': 'CSW', 'scala': 'CSC', 'go': 'CGO', 'python': 'CPY'}
        eqs = [f'good_C10_lex {ctor[l]} {vf.coq_lit_str(t)} = {"true" if ok else "false"}' for l, t, ok in XCHECK[:18]]
        bad = vf.coq_check_equalities('From TS Require Import Model.Str Spec.C10Spec.\nOpen Scope N_scope.', eqs, shard=6)
        chk.counters['in_coq_recomputations'] = len(eqs)
        if bad:
            chk.violation('extraction-crosscheck', {'failures': [list(b) for b in bad][:3]},
                          'the extracted lexer and the lexer evaluated inside Coq disagree on a real output', no_input=True)
    if drift and not [v for v in chk.violations if not v[2]]:
        payload, what = drift[0]
        chk.violation('correspondence', dict(payload, disagreements=len(drift)),
                      f'model and real generator disagree on {len(drift)} case(s) although every real output is well-formed: {what}', no_input=True)
    chk.counters['render_drift'] = len(drift)
    chk.counters['python_name_errors_left_to_C09_C11_C12'] = len(NAME_ERRORS)
    chk.counters['python_enum_member_collisions_left_to_C02'] = len(COLLISIONS)
    if NAME_ERRORS:
        chk.notes.append(f'{len(NAME_ERRORS)} Python module(s) raise NameError at import (e.g. on {NAME_ERRORS[0]}): a name used before / without its definition is name resolution (C09, C11, C12), not syntax; counted, not judged here')


def replay(chk, path):
    d = json.loads(pathlib.Path(path).read_text())
    chk.prepare(need_cli=False)
    if 'src' not in d:
        print(json.dumps(d, indent=1)[:3000])
        return 1
    r = back.run_src([(d['lang'], d['cfg'], d['src'], [])])[0]
    print('real generator :', r['impl'][0])
    print('model          :', r['model'][0], '(bytes equal)' if back.same(r['impl'], r['model']) else '(BYTES DIFFER)')
    if r['impl'][0] == 'ok':
        text = r['impl'][1]
        print(text)
        lex = vf.model([f'(c10_lex {d["lang"]} {S(text)})'])[0]
        cls = vf.model([f'(c10_cls {d["lang"]} {S(d["cfg"].get("package", ""))} {back.items_sx(r["ir"])})'])[0]
        decls, labels, fails, why = observe(d['lang'], text)
        kw = vf.model([kw_request(d['lang'], decls, labels, text)])[0]
        print('lexer verdict  :', vf.dump_sx(lex))
        print('classification :', vf.dump_sx(cls))
        print('keywords       :', vf.dump_sx(kw))
        fails, why = list(fails), list(why)
        gv = grammar_verdicts([(d['lang'], text)])[0]
        if gv is not None:
            print(f'{LANG_NAME[d["lang"]]} grammar'.ljust(15) + ':', 'accepted' if gv else 'REJECTED', f'({GRAMMAR[d["lang"]][0]}, {GRAMMAR[d["lang"]][2]})')
        grammar_judge(None, d['lang'], gv, fails, why)
        print('grammar        :', fails, why)
        bad = lex[0] != 'balanced' or fails or vf.sx_get(kw, 'kw') != 'true' or vf.sx_get(kw, 'labels') != 'true'
        return 1 if bad else 0
    return 0
