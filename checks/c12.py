"""C12 - every helper name typeshare introduces into a file is defined or imported there.
Proof: Props/C12.v (Swift, Scala, Python, Go, Kotlin; per language `uses <= defs` outside the recorded
classes, for every program, trigger type at any depth and position).
Correspondence: seeded programs built around the trigger types ((), unsigned integers, Option, Vec,
HashMap, OffsetDateTime, generics, mapped Vec<u8>) nested to depth 0-5 in fields, payloads,
struct-variant fields, aliases, newtypes and generic arguments, alone and combined, under several
configurations; each program goes through the REAL generator (libdrive `generate`; multi-file Swift:
the real binary) and through the extracted model.  Observation = (helper names used, helper names
defined/imported): for the real side it is recovered from the generated TEXT (identifier tokens of the
code, strings and comments removed by the target language's lexer, intersected with the language's
helper vocabulary; definition / import lines), for the model side it is the extracted reader of
Spec/C12Spec.v on the model's declarations.  The real observation is judged by the extracted
`c12_good`; for Python the real output is additionally parsed with `ast` and every helper name that is
loaded must resolve to a module-level binding."""
import ast, builtins, concurrent.futures, json, re, subprocess
import vf, back, extract
from vf import S, Lst

LANGS = ['swift', 'scala', 'python', 'go', 'kotlin']
VOCAB = {
    'swift': ['CodableVoid'],
    'scala': ['UByte', 'UShort', 'UInt', 'ULong'],
    'go': ['time', 'json'],
    'kotlin': ['Serializable', 'SerialName', 'JvmInline'],
    'python': ['Optional', 'List', 'Dict', 'datetime', 'BaseModel', 'Generic', 'ConfigDict', 'Field', 'Annotated', 'BeforeValidator',
               'PlainSerializer', 'Enum', 'Literal', 'Union', 'TypeVar', 'AnyUrl', 'serialize_binary_data', 'deserialize_binary_data',
               'serialize_datetime_data', 'parse_rfc3339'],
}
UNSIGNED = ['u8', 'u16', 'u32', 'U53']
PLAIN = ['String', 'i32', 'bool', 'f64', 'I54', 'char', 'i8']
TYPE_NAMES = ['Foo', 'Bar', 'Baz', 'Item', 'Point', 'Node', 'Shape', 'Event', 'Account', 'Vault']
FIELD_NAMES = ['id', 'name', 'value', 'items', 'count', 'data', 'flag', 'x', 'created_at', 'user-id']
VARIANT_NAMES = ['A', 'B', 'Red', 'Ready', 'Failed', 'Leaf', 'Branch']
GENERIC_NAMES = ['T', 'U', 'K']
# per-language type overrides on a field (texts outside every helper vocabulary): an override for ANOTHER language must not
# change which helpers this language's file needs (seeded C12_d: Scala's unsigned scan skipped fields overridden for Kotlin)
OVERRIDES = {'typescript': 'bigint', 'kotlin': 'Long', 'swift': 'Int64', 'go': 'int64', 'python': 'int', 'scala': 'Long'}


def override_attr(rng, indent):
    if rng.random() >= 0.15:
        return ''
    l = rng.choice(sorted(OVERRIDES))
    return f'{indent}#[typeshare({l}(type = "{OVERRIDES[l]}"))]\n'


# ------------------------------------------------------------------------------------------------ generator
class Gen:
    def __init__(self, rng, lang):
        self.rng, self.lang = rng, lang
        self.need_wrap = False
        self.triggers = set()

    def leaf(self, generics, want):
        r = self.rng
        if want == 'unit':
            self.triggers.add('unit'); return '()'
        if want == 'unsigned':
            self.triggers.add('unsigned'); return r.choice(UNSIGNED)
        if want == 'datetime':
            self.triggers.add('datetime'); return 'OffsetDateTime'
        if want == 'bytes':
            self.triggers.add('bytes'); return 'Vec<u8>'
        if want == 'generic' and generics:
            self.triggers.add('generic'); return r.choice(generics)
        return r.choice(PLAIN)

    def wrap(self, t, depth):
        r = self.rng
        for _ in range(depth):
            c = r.choice(['vec', 'vec', 'option', 'hashmap', 'array', 'slice', 'box', 'user'])
            if c == 'user':
                self.need_wrap = True
            t = {'vec': f'Vec<{t}>', 'option': f'Option<{t}>', 'hashmap': f'HashMap<String, {t}>', 'array': f'[{t}; 3]', 'slice': f"&'static [{t}]",
                 'box': f'Box<{t}>', 'user': f'Wrap<{t}>'}[c]
        return t

    def ty(self, generics, wants, maxdepth):
        r = self.rng
        want = r.choice(wants)
        depth = r.choice([0, 0, 1, 1, 2, 3, 4, 5][:maxdepth + 3])
        t = self.wrap(self.leaf(generics, want), depth)
        return t, depth, want


def program(rng, lang):
    """-> (source, info) ; info: generics (all generic parameter names), positions [(position, depth, want)]"""
    g = Gen(rng, lang)
    wants = ['unit', 'unsigned', 'unsigned', 'plain', 'generic', 'plain']
    if lang in ('python', 'go'):
        wants += ['datetime', 'datetime']
    if lang == 'python':
        wants += ['bytes']
    if rng.random() < 0.25:     # single-trigger programs
        wants = [rng.choice([w for w in wants if w != 'plain'])] + ['plain']
    names = rng.sample(TYPE_NAMES, 5)
    items, positions, all_generics = [], [], []
    n_items = rng.randint(1, 4)
    for k in range(n_items):
        name = names[k]
        kind = rng.choice(['struct', 'struct', 'alg_enum', 'alias', 'newtype', 'unit_enum'])
        generics = rng.sample(GENERIC_NAMES, rng.choice([0, 0, 0, 1, 2])) if kind in ('struct', 'alg_enum', 'alias') else []
        gtxt = f'<{", ".join(generics)}>' if generics else ''
        all_generics += generics
        attrs = '#[typeshare]\n'
        if kind == 'struct':
            fields = []
            used = set()
            for fname in rng.sample(FIELD_NAMES, rng.randint(1, 3)):
                t, d, w = g.ty(generics, wants, 5)
                fa = ''
                if rng.random() < 0.25:
                    fa = '    #[serde(default)]\n'
                if rng.random() < 0.2:
                    t = f'Option<{t}>'
                ident = fname.replace('-', '_')
                if '-' in fname:
                    fa += f'    #[serde(rename = "{fname}")]\n'
                fa += override_attr(rng, '    ')
                fields.append(f'{fa}    pub {ident}: {t},\n')
                positions.append(('field', d, w))
                used.add(t)
            for gp in generics:      # every declared parameter is used (rustc would demand it)
                if not any(re.search(rf'\b{gp}\b', f) for f in fields):
                    fields.append(f'    pub p_{gp.lower()}: {gp},\n')
            items.append(f'{attrs}pub struct {name}{gtxt} {{\n{"".join(fields)}}}\n')
        elif kind == 'alg_enum':
            vs = []
            for vname in rng.sample(VARIANT_NAMES, rng.randint(1, 3)):
                vk = rng.choice(['unit', 'tuple', 'tuple', 'struct'])
                if vk == 'unit':
                    vs.append(f'    {vname},\n')
                elif vk == 'tuple':
                    t, d, w = g.ty(generics, wants, 5)
                    vs.append(f'    {vname}({t}),\n')
                    positions.append(('payload', d, w))
                else:
                    fs = []
                    for fname in rng.sample(FIELD_NAMES[:9], rng.randint(1, 2)):
                        t, d, w = g.ty(generics, wants, 5)
                        fa = '        #[serde(default)]\n' if rng.random() < 0.2 else ''
                        fa += override_attr(rng, '        ')
                        fs.append(f'{fa}        {fname}: {t},\n')
                        positions.append(('variant_field', d, w))
                    vs.append(f'    {vname} {{\n{"".join(fs)}    }},\n')
            for gp in generics:
                if not any(re.search(rf'\b{gp}\b', v) for v in vs):
                    vs.append(f'    P{gp}({gp}),\n')
            items.append(f'{attrs}#[serde(tag = "type", content = "content")]\npub enum {name}{gtxt} {{\n{"".join(vs)}}}\n')
        elif kind == 'alias':
            t, d, w = g.ty(generics, wants, 5)
            for gp in generics:
                if not re.search(rf'\b{gp}\b', t):
                    t = f'HashMap<String, {gp}>' if len(generics) == 1 else f'Vec<{generics[0]}>'
            items.append(f'{attrs}pub type {name}{gtxt} = {t};\n')
            positions.append(('alias', d, w))
        elif kind == 'newtype':
            t, d, w = g.ty([], wants, 5)
            a = attrs
            if lang == 'kotlin' and rng.random() < 0.4:
                a = '#[typeshare(kotlin = "JvmInline")]\n'
                g.triggers.add('jvminline')
            items.append(f'{a}pub struct {name}({t});\n')
            positions.append(('newtype', d, w))
        else:
            vs = rng.sample(VARIANT_NAMES, rng.randint(1, 3))
            items.append(f'{attrs}pub enum {name} {{\n' + ''.join(f'    {v},\n' for v in vs) + '}\n')
    if g.need_wrap:
        items.insert(rng.randint(0, len(items)), '#[typeshare]\npub struct Wrap<W> {\n    pub inner: W,\n}\n')
        all_generics.append('W')
    return '\n'.join(items), {'generics': sorted(set(all_generics)), 'positions': positions, 'triggers': sorted(g.triggers)}


PY_LEAF = {'datetime': 'OffsetDateTime', 'bytes': 'Vec<u8>'}


def py_focus(rng):
    """Python programs on the boundary of the two REPAIRED classes C12-python-default-translation / C12-python-alias-typevar
    (fixed in /repo: c12_py_known is constantly None, every one of these inputs is judged like any other): a serde(default)
    OffsetDateTime / Vec<u8> field with or without something else in the file that registers the plain text (plain sibling
    field, field of another struct or of a struct variant, the formatter itself below Option / Vec / HashMap, a payload, an
    alias), and a generic alias with or without a struct / data-carrying enum (or only a unit enum, or a struct on ANOTHER
    parameter) declaring the TypeVar; and ('phantom') a generic struct / struct variant whose parameter is listed in the class
    header (`Generic[T]`) but never formatted as a type - it occurs only in a serde(skip) PhantomData marker, or only inside the
    arguments of a generic type that type_mappings replaces - so that its TypeVar exists only if the WRITER of the item declares it
    (seeded C12_f declares TypeVars where a parameter is formatted; since the repair of write_type_alias that change no longer differs
    from the code on aliases, only here).  -> (source, cfg, info)"""
    names = rng.sample(TYPE_NAMES, 6)
    items, generics, triggers = [], [], set()
    cfg = {'type_mappings': rng.choice([{}, {'Vec<u8>': 'bytes'}, {'Vec<u8>': 'bytes'}])}
    parts = rng.choice([['default'], ['alias'], ['default', 'alias'], ['phantom'], ['alias', 'phantom'], ['default', 'phantom']])
    if 'default' in parts:
        kinds = rng.sample(['datetime', 'bytes'], rng.choice([1, 1, 2]))
        fields = [f'    #[serde(default)]\n    pub d{i}: {PY_LEAF[kd]},\n' for i, kd in enumerate(kinds)]
        triggers.update(kinds)
        for kd in kinds:
            leaf = PY_LEAF[kd]
            comp = rng.choice(['none', 'none', 'plain_same', 'plain_other', 'variant_field', 'deep_field', 'deep_alias', 'option_default',
                               'payload', 'alias_plain', 'wrapped_other', 'const_like'])
            deep = rng.choice([f'Option<{leaf}>', f'Vec<{leaf}>', f'HashMap<String, {leaf}>', f'Option<Vec<{leaf}>>', f'Wrap<{leaf}>'])
            if comp == 'plain_same':
                fields.insert(rng.randint(0, len(fields)), f'    pub p_{kd}: {leaf},\n')
            elif comp == 'plain_other':
                items.append(f'#[typeshare]\npub struct {names[1]}{kd.capitalize()} {{\n    pub p: {leaf},\n}}\n')
            elif comp == 'variant_field':
                items.append(f'#[typeshare]\n#[serde(tag = "type", content = "content")]\npub enum {names[2]}{kd.capitalize()} {{\n    A {{\n        p: {leaf},\n    }},\n    B,\n}}\n')
            elif comp == 'deep_field':
                fields.append(f'    pub deep_{kd}: {deep},\n')
            elif comp == 'deep_alias':
                items.append(f'#[typeshare]\npub type {names[3]}{kd.capitalize()} = {deep};\n')
            elif comp == 'option_default':
                fields.append(f'    #[serde(default)]\n    pub o_{kd}: Option<{leaf}>,\n')
            elif comp == 'payload':
                items.append(f'#[typeshare]\n#[serde(tag = "type", content = "content")]\npub enum {names[2]}{kd.capitalize()}P {{\n    A({leaf}),\n    B({deep}),\n}}\n')
            elif comp == 'alias_plain':
                items.append(f'#[typeshare]\npub type {names[3]}{kd.capitalize()}P = {leaf};\n')
            elif comp == 'wrapped_other':
                items.append(f'#[typeshare]\npub struct {names[1]}{kd.capitalize()}W {{\n    #[serde(default)]\n    pub w: {leaf},\n}}\n')
            elif comp == 'const_like':
                items.append(f'#[typeshare]\npub struct {names[1]}{kd.capitalize()}N({leaf});\n')
            if 'Wrap<' in deep and comp in ('deep_field', 'deep_alias', 'payload'):
                triggers.add('wrap')
        items.insert(rng.randint(0, len(items)), f'#[typeshare]\npub struct {names[0]} {{\n{"".join(fields)}}}\n')
    if 'alias' in parts:
        g = rng.choice(GENERIC_NAMES)
        other = rng.choice([x for x in GENERIC_NAMES if x != g])
        body = rng.choice([f'Vec<{g}>', f'HashMap<String, {g}>', f'Option<{g}>', f'Vec<Option<{g}>>'])
        items.insert(rng.randint(0, len(items)), f'#[typeshare]\npub type {names[4]}<{g}> = {body};\n')
        generics.append(g); triggers.add('generic_alias')
        comp = rng.choice(['none', 'none', 'struct', 'alg_enum', 'struct_other', 'unit_enum', 'variant_struct', 'alias_other'])
        if comp == 'struct':
            items.insert(rng.randint(0, len(items)), f'#[typeshare]\npub struct {names[5]}<{g}> {{\n    pub v: {g},\n}}\n')
        elif comp == 'alg_enum':
            items.insert(rng.randint(0, len(items)), f'#[typeshare]\n#[serde(tag = "type", content = "content")]\npub enum {names[5]}<{g}> {{\n    A({g}),\n    B,\n}}\n')
        elif comp == 'struct_other':
            items.insert(rng.randint(0, len(items)), f'#[typeshare]\npub struct {names[5]}<{other}> {{\n    pub v: {other},\n}}\n'); generics.append(other)
        elif comp == 'unit_enum':
            items.insert(rng.randint(0, len(items)), f'#[typeshare]\npub enum {names[5]} {{\n    A,\n    B,\n}}\n')
        elif comp == 'variant_struct':
            # the struct variant's helper class declares the enum's parameter it mentions
            items.insert(rng.randint(0, len(items)), f'#[typeshare]\n#[serde(tag = "type", content = "content")]\npub enum {names[5]}<{g}> {{\n    A {{\n        v: {g},\n    }},\n}}\n')
        elif comp == 'alias_other':
            items.insert(rng.randint(0, len(items)), f'#[typeshare]\npub type {names[5]}Al<{g}> = Vec<{g}>;\n')
    if 'phantom' in parts:
        free = [x for x in GENERIC_NAMES if x not in generics] or GENERIC_NAMES
        g = rng.choice(free)
        generics.append(g); triggers.add('phantom_generic')
        shape = rng.choice(['skip', 'mapped_args', 'variant_skip'])
        if shape == 'skip':
            items.insert(rng.randint(0, len(items)), f'#[typeshare]\npub struct {names[2]}Ph<{g}> {{\n    #[serde(skip)]\n    pub marker: std::marker::PhantomData<{g}>,\n    pub n: u32,\n}}\n')
        elif shape == 'mapped_args':
            cfg = {'type_mappings': dict(cfg['type_mappings'], Boxed='int')}
            items.insert(rng.randint(0, len(items)), f'#[typeshare]\npub struct {names[2]}Mp<{g}> {{\n    pub b: Boxed<{g}>,\n    pub n: u32,\n}}\n')
        else:
            items.insert(rng.randint(0, len(items)), f'#[typeshare]\n#[serde(tag = "type", content = "content")]\npub enum {names[2]}Pv<{g}> {{\n    A {{\n        #[serde(skip)]\n        marker: std::marker::PhantomData<{g}>,\n        n: u32,\n    }},\n    B,\n}}\n')
    if 'wrap' in triggers:
        items.insert(rng.randint(0, len(items)), '#[typeshare]\npub struct Wrap<W> {\n    pub inner: W,\n}\n')
        generics.append('W')
    return '\n'.join(items), cfg, {'generics': sorted(set(generics)), 'positions': [], 'triggers': sorted(triggers | {'py_focus'})}


def config(rng, lang):
    if lang == 'swift':
        return {'prefix': rng.choice(['', '', 'OP']), 'codablevoid_constraints': rng.choice([[], ['Equatable']])}
    if lang == 'scala':
        # 'p': a package name without a dot - since the /repo fix of C10-scala-toplevel-alias the helper aliases stand inside
        # `package object p {` there as well
        return {'package': rng.choice(['com.p', 'com.agilebits.onepassword', 'p']), 'module_name': 'm'}
    if lang == 'kotlin':
        return {'package': rng.choice(['com.p', 'com.p', 'com.p', '']), 'module_name': 'm', 'prefix': rng.choice(['', 'OP'])}
    if lang == 'go':
        return {'package': 'p', 'uppercase_acronyms': rng.choice([[], [], ['id', 'url']]), 'no_pointer_slice': rng.random() < 0.3}
    if lang == 'python':
        return {'type_mappings': rng.choice([{}, {}, {'Vec<u8>': 'bytes'}])}
    return {}


# ------------------------------------------------------------------------------------------------ observation of real text
IDENT = re.compile(r'[A-Za-z_][A-Za-z0-9_]*')


def obs_text(lang, text, generics):
    """(uses, defs) as sorted lists, from generated text of `lang`"""
    lines, _ = extract.lex_py(text) if lang == 'python' else extract.lex_c(lang, text)
    uses, defs = set(), set()
    if lang == 'swift':
        for ln in lines:
            m = re.match(r'\s*public struct CodableVoid\b', ln.mask)
            if m:
                defs.add('CodableVoid')
                continue
            if 'CodableVoid' in IDENT.findall(ln.mask):
                uses.add('CodableVoid')
    elif lang == 'scala':
        for ln in lines:
            m = re.match(r'\s*type (UByte|UShort|UInt|ULong) = ', ln.mask)
            if m:
                defs.add(m.group(1))
                continue
            uses.update(t for t in IDENT.findall(ln.mask) if t in VOCAB['scala'])
    elif lang == 'go':
        in_block = False
        for ln in lines:
            code = ln.code.strip()
            m = re.match(r'import "([^"]*)"$', code)
            if m:
                defs.add(m.group(1).split('/')[-1]); continue
            if code == 'import (':
                in_block = True; continue
            if in_block:
                if code == ')':
                    in_block = False
                else:
                    m = re.match(r'"([^"]*)"$', code)
                    if m:
                        defs.add(m.group(1).split('/')[-1])
                continue
            uses.update(m.group(1) for m in re.finditer(r'(?<![A-Za-z0-9_.])(time|json)\.', ln.mask))
    elif lang == 'kotlin':
        for ln in lines:
            m = re.match(r'import ([A-Za-z0-9_.]+)$', ln.mask.strip())
            if m:
                defs.add(m.group(1).split('.')[-1]); continue
            uses.update(m.group(1) for m in re.finditer(r'@([A-Za-z_][A-Za-z0-9_]*)', ln.mask) if m.group(1) in VOCAB['kotlin'])
    elif lang == 'python':
        vocab = set(VOCAB['python']) | set(generics)
        for ln in lines:
            mask = ln.mask
            m = re.match(r'from ([A-Za-z0-9_.]+) import (.+)$', mask.strip())
            if m:
                if m.group(1) != '__future__':
                    defs.update(x.strip() for x in m.group(2).split(','))
                continue
            m = re.match(r'([A-Za-z_][A-Za-z0-9_]*) = TypeVar\(', mask)
            if m:
                defs.add(m.group(1)); uses.add('TypeVar'); continue
            m = re.match(r'def ([A-Za-z_][A-Za-z0-9_]*)\(', mask)
            if m:
                defs.add(m.group(1))
                mask = mask[m.end():]
            # attribute names (x.strftime) are not free identifiers
            uses.update(t.group(0) for t in IDENT.finditer(mask) if t.group(0) in vocab and (t.start() == 0 or mask[t.start() - 1] != '.'))
    return sorted(uses), sorted(defs)


def py_unresolved(text, vocab):
    """names of `vocab` that the module loads (anywhere, annotations included) without a module-level
    binding, a builtin, or a binding local to the function that loads them; None if it does not parse"""
    try:
        tree = ast.parse(text)
    except SyntaxError:
        return None
    bound = set(dir(builtins))
    for node in tree.body:
        if isinstance(node, (ast.Import, ast.ImportFrom)):
            bound.update((a.asname or a.name).split('.')[0] for a in node.names)
        elif isinstance(node, (ast.ClassDef, ast.FunctionDef)):
            bound.add(node.name)
        elif isinstance(node, ast.Assign):
            for t in node.targets:
                bound.update(n.id for n in ast.walk(t) if isinstance(n, ast.Name) and isinstance(n.ctx, ast.Store))
        elif isinstance(node, ast.AnnAssign) and isinstance(node.target, ast.Name):
            bound.add(node.target.id)
    missing = set()

    def visit(node, local):
        if isinstance(node, ast.FunctionDef):
            local = local | {a.arg for a in node.args.args} | {n.id for n in ast.walk(node) if isinstance(n, ast.Name) and isinstance(n.ctx, ast.Store)}
        if isinstance(node, ast.Name) and isinstance(node.ctx, ast.Load) and node.id in vocab and node.id not in bound and node.id not in local:
            missing.add(node.id)
        for c in ast.iter_child_nodes(node):
            visit(c, local)
    visit(tree, set())
    return sorted(missing)


# ------------------------------------------------------------------------------------------------ multi-file Swift through the real binary
def run_swift_multi(args):
    files, prefix = args
    d = vf.tmpdir()
    for crate, src in files.items():
        (d / 'ws' / crate / 'src').mkdir(parents=True)
        (d / 'ws' / crate / 'src' / 'lib.rs').write_text(src)
    (d / 'out').mkdir()
    cmd = ['timeout', '20', str(vf.TYPESHARE), '--lang', 'swift', '-d', str(d / 'out')] + (['--swift-prefix', prefix] if prefix else []) + [str(d / 'ws')]
    try:
        p = subprocess.run(cmd, capture_output=True, text=True, timeout=30, cwd=d)
        rc, err = p.returncode, p.stderr
    except subprocess.TimeoutExpired:
        rc, err = 124, ''
    outs = {f.name: f.read_text() for f in sorted((d / 'out').glob('*'))}
    return {'rc': rc, 'stderr': err[-300:], 'files': outs}


MULTI_ARGS = {'typescript': [], 'kotlin': ['--java-package', 'com.p'], 'scala': ['--scala-package', 'com.p'], 'go': ['--go-package', 'p'], 'python': []}
MULTI_CFG = {'typescript': {}, 'kotlin': {'package': 'com.p'}, 'scala': {'package': 'com.p'}, 'go': {'package': 'p'}, 'python': {}}


def run_multi(args):
    """one workspace (crate -> source) through the real binary in folder-output mode"""
    lang, files = args
    d = vf.tmpdir()
    for crate, src in files.items():
        (d / 'ws' / crate / 'src').mkdir(parents=True)
        (d / 'ws' / crate / 'src' / 'lib.rs').write_text(src)
    (d / 'out').mkdir()
    cmd = ['timeout', '20', str(vf.TYPESHARE), '--lang', lang, '-d', str(d / 'out')] + MULTI_ARGS[lang] + [str(d / 'ws')]
    try:
        p = subprocess.run(cmd, capture_output=True, text=True, timeout=30, cwd=d)
        rc, err = p.returncode, p.stderr
    except subprocess.TimeoutExpired:
        rc, err = 124, ''
    outs = {f.name: f.read_text() for f in sorted((d / 'out').glob('*'))}
    return {'rc': rc, 'stderr': err[-300:], 'files': outs}


def multi_file_all(chk, rng):
    """Folder-output mode, every language but Swift (handled above): each crate's file must define or import every helper it
    uses - whatever the OTHER crates of the run contain (generator state carried from one file to the next)."""
    nm = 10 if chk.tier == 'quick' else 120
    jobs, meta = [], []
    for k in range(nm):
        for lang in ('python', 'go', 'kotlin', 'scala'):
            crates = {}
            for c in ['alpha', 'beta', 'gamma'][:rng.randint(2, 3)]:
                src, info = program(rng, lang)
                # no two crates may define the same type: prefix the item names with the crate
                crates[c] = (src, info)
            # every other workspace ends with a crate that needs no helper at all
            if k % 2 == 0:
                crates['zeta'] = ('#[typeshare]\npub struct Plain {\n    pub flag: bool,\n    pub name: String,\n}\n', {'generics': [], 'positions': [], 'triggers': []})
            jobs.append((lang, {c: v[0] for c, v in crates.items()}))
            meta.append((lang, crates))
    if not chk.cli_ok:
        return
    with concurrent.futures.ThreadPoolExecutor(max_workers=vf.NPROC) as ex:
        outs = list(ex.map(run_multi, jobs))
    # classification of each crate's source by the model (dom / known), as for single files
    flat = [{'lang': lang, 'cfg': MULTI_CFG[lang], 'src': src, 'info': info} for lang, crates in meta for _, (src, info) in sorted(crates.items())]
    cls = evaluate(chk, flat)
    ci = 0
    for (lang, crates), o in zip(meta, outs):
        chk.evaluations += 1
        chk.count(f'multi_runs_{lang}')
        per = {}
        for cname, (src, info) in sorted(crates.items()):
            per[cname] = cls[ci]; ci += 1
        if o['rc'] != 0:
            chk.count(f'multi_rc_{o["rc"]}_{lang}')
            continue
        ext = {'python': 'py', 'go': 'go', 'kotlin': 'kt', 'scala': 'scala', 'typescript': 'ts'}[lang]
        for cname, (src, info) in sorted(crates.items()):
            text = o['files'].get(f'{cname}.{ext}')
            if text is None:
                continue
            u, d = obs_text(lang, text, info['generics'])
            good = vf.model([f'(c12_good {Lst(u, S)} {Lst(d, S)})'])[0] == 'true'
            single = per[cname]
            if u:
                chk.nontrivial.add(('multi', lang, cname, src))
            payload = {'lang': lang, 'mode': 'multi-file (-d)', 'workspace': {c: v[0] for c, v in crates.items()}, 'crate': cname, 'uses': u, 'defs': d,
                       'output': text, 'single_file_observation': single.get('impl'), 'known': single.get('known'), 'dom': single.get('dom')}
            if good:
                chk.count('multi_good_' + lang)
                continue
            undefined = sorted(set(u) - set(d))
            if not single.get('dom'):
                chk.count('multi_outside_dom_not_good'); continue
            if single.get('known') is not None and single.get('impl') and single['impl'][0] == 'ok' and set(undefined) <= set(single['impl'][1]) - set(single['impl'][2]):    # (state carried over from earlier crates may define some of them by accident)
                if not chk.known(single['known'], payload):
                    chk.violation(f'multi-{lang}-{chk.evaluations}-{cname}', payload, f'multi-file {lang}: {undefined} undefined in {cname}.{ext}; class {single["known"]} is not an open finding')
                continue
            chk.violation(f'multi-{lang}-{chk.evaluations}-{cname}', payload,
                          f'multi-file {lang}: {cname}.{ext} uses {undefined} without defining or importing them (the same crate alone generates {single.get("impl")})')


# ------------------------------------------------------------------------------------------------ the check
def cases_for(rng, n):
    cases = []
    for k in range(n):
        lang = LANGS[k % len(LANGS)]
        src, info = program(rng, lang)
        cases.append({'lang': lang, 'cfg': config(rng, lang), 'src': src, 'info': info})
    return cases


WITNESSES = [
    # (finding id, lang, cfg, source).  C12-scala-unsigned-depth is FIXED in /repo (recursive unsigned_integer_used): c12_sc_known is
    # constantly None, so its two witnesses are judged like any other input - an undefined UShort / UByte / UInt is a violation again.
    # C12-python-alias-typevar and C12-python-default-translation are FIXED in /repo as well (write_type_alias calls add_type_var for
    # the alias's parameters; write_field registers the unwrapped type): c12_py_known is constantly None, the two witnesses (and the
    # variations below) must pass - an undefined T / parse_rfc3339 / serialize_datetime_data is a violation again.
    ('C12-scala-unsigned-depth', 'scala', {'package': 'com.p', 'module_name': 'm'}, '#[typeshare]\npub type Grid = Vec<Vec<u16>>;\n'),
    ('C12-scala-unsigned-depth', 'scala', {'package': 'com.p', 'module_name': 'm'}, '#[typeshare]\npub struct S {\n    pub a: [u8; 2],\n    pub b: &\'static [u32],\n}\n'),
    # directed: the helper aliases under a package name without a dot (C10-scala-toplevel-alias, FIXED in /repo: `package object p {`
    # is opened around them); judged like any other input
    ('C10-scala-toplevel-alias', 'scala', {'package': 'p', 'module_name': 'm'}, '#[typeshare]\npub type Al = Vec<u32>;\n#[typeshare]\npub struct A {\n    pub x: u8,\n}\n'),
    ('C12-python-alias-typevar', 'python', {}, '#[typeshare]\npub type GA<T> = Vec<T>;\n'),
    ('C12-python-default-translation', 'python', {}, '#[typeshare]\npub struct S {\n    #[serde(default)]\n    pub at: OffsetDateTime,\n}\n'),
    ('C12-python-default-translation', 'python', {'type_mappings': {'Vec<u8>': 'bytes'}}, '#[typeshare]\npub struct S {\n    #[serde(default)]\n    pub raw: Vec<u8>,\n}\n'),
    ('C12-python-alias-typevar', 'python', {}, '#[typeshare]\npub type GA<T> = HashMap<String, Vec<T>>;\n#[typeshare]\npub type GB<U> = Option<U>;\n#[typeshare]\npub struct S<K> {\n    pub k: K,\n}\n'),
    ('C12-kotlin-empty-package', 'kotlin', {'package': '', 'module_name': 'm', 'prefix': ''}, '#[typeshare]\npub struct S {\n    pub a: u8,\n}\n'),
    ('C12-kotlin-jvminline', 'kotlin', {'package': 'com.p', 'module_name': 'm', 'prefix': ''}, '#[typeshare(kotlin = "JvmInline")]\npub struct Id(String);\n'),
]


# inputs that must lie INSIDE a theorem's hypotheses and exercise it (the non-vacuity examples as real source):
# (name, lang, cfg, source, helper names the real output must use)
PINS = [
    # Proofs/C12.v c12_py_full_pd / Props C12_python_nonvacuous
    ('C12_python_nonvacuous', 'python', {'type_mappings': {'Vec<u8>': 'bytes'}},
     '#[typeshare]\npub type GA<T> = Vec<T>;\n\n#[typeshare]\npub type GB<U> = Vec<U>;\n\n#[typeshare]\npub struct S<T> {\n    pub a: T,\n    #[serde(default)]\n    pub at: OffsetDateTime,\n    pub at2: OffsetDateTime,\n'
     '    #[serde(default)]\n    pub raw: Vec<u8>,\n    pub raw2: Option<Option<Vec<u8>>>,\n}\n'),
]
PIN_USES = {'C12_python_nonvacuous': ['T', 'U', 'TypeVar', 'parse_rfc3339', 'serialize_datetime_data', 'deserialize_binary_data', 'serialize_binary_data', 'datetime',
                                      'Annotated', 'Generic', 'Optional', 'List']}


def evaluate(chk, cases):
    """runs real generator and model on the cases; returns list of per-case dicts"""
    srcs = sorted(set(c['src'] for c in cases))
    asts = dict(zip(srcs, vf.impl([{'cmd': 'ast', 'src': s} for s in srcs])))
    ires = vf.impl([{'cmd': 'generate', 'lang': c['lang'], 'cfg': c['cfg'], 'src': c['src'], 'target_os': []} for c in cases])
    mres = vf.model([f'(c12 {c["lang"]} {back.cfg_sx(c["cfg"])} {asts[c["src"]]["ok"]} {asts[c["src"]]["tstrs"]})' if 'ok' in asts[c['src']] else '(c12_good () ())'
                     for c in cases])
    out = []
    judge_req, judge_idx = [], []
    for k, (c, ir, mr) in enumerate(zip(cases, ires, mres)):
        r = {'case': c, 'impl_raw': back.impl_canon(ir)}
        if 'ok' not in asts[c['src']]:
            r['skip'] = 'source does not parse'
            out.append(r); continue
        if isinstance(mr, list) and mr and isinstance(mr[0], list) and mr[0][0] == 'obs':
            o = mr[0][1]
            if o[0] == 'ok':
                r['model'] = ('ok', sorted(set(vf.unS(x) for x in o[1][0])), sorted(set(vf.unS(x) for x in o[1][1])))
            else:
                r['model'] = (o[0], None, None)
            r['dom'] = mr[1][1] == 'true'
            kn = mr[2][1]
            r['known'] = None if kn == 'none' else kn[1]
        else:
            r['model'] = (mr[0] if isinstance(mr, list) else str(mr), None, None)
            r['dom'], r['known'] = False, None
        if r['impl_raw'][0] == 'ok':
            u, d = obs_text(c['lang'], r['impl_raw'][1], c['info']['generics'])
            r['impl'] = ('ok', u, d)
            judge_req.append(f'(c12_good {Lst(u, S)} {Lst(d, S)})')
            judge_idx.append(len(out))
        else:
            r['impl'] = (r['impl_raw'][0], None, None)
        out.append(r)
    for i, j in zip(judge_idx, vf.model(judge_req)):
        out[i]['good'] = (j == 'true')
    return out


def payload_of(r):
    c = r['case']
    return {'lang': c['lang'], 'cfg': c['cfg'], 'source': c['src'], 'info': c['info'], 'impl': r.get('impl'), 'model': r.get('model'), 'known': r.get('known'),
            'dom': r.get('dom'), 'output': r['impl_raw'][1] if r['impl_raw'][0] == 'ok' else r['impl_raw']}


def run(chk):
    chk.rule = ('seeded programs (1-4 items: structs, data-carrying enums with tuple and struct variants, aliases, newtypes, unit enums; 0-2 generic '
                'parameters) whose member types are a trigger leaf ((), u8/u16/u32/U53, OffsetDateTime, Vec<u8>, a generic parameter) or a plain leaf '
                'wrapped 0-5 times in Vec/Option/HashMap/[T;3]/&[T]/Box/Wrap<T>; serde(default), Option, renamed keys; 25% single-trigger programs; '
                'configurations: Swift prefix, CodableVoid constraints, Kotlin empty package / prefix / JvmInline, Go acronyms / no_pointer_slice, Python '
                'Vec<u8> -> bytes mapping; plus Python programs on the boundary of the two repaired Python classes (py_focus: a serde(default) OffsetDateTime / '
                'Vec<u8> field with / without something else registering the plain text; a generic alias with / without a struct / data-carrying enum '
                'declaring its parameter - all judged without a class since the repairs; a generic struct / struct variant whose parameter is only in the class header: '
                'serde(skip) PhantomData marker, arguments of a mapped generic) and the non-vacuity input of C12_python as real source. non-trivial =distinct (language, configuration, program) inside dom with a non-empty use set')
    chk.assumptions = ['syn is not modelled: the model receives the AST libdrive produces from the same text',
                       'the real observation is recovered from text by a token-level reader (strings/comments removed by lib/extract.py lexers); '
                       'Python additionally through ast.parse + name resolution; no Swift/Scala/Kotlin/Go compiler is installed',
                       'a name inside verbatim user text (type overrides, type_mappings results) is the user\'s, not typeshare\'s']
    chk.prepare(need_cli=True)
    if not chk.harness_ok:
        return
    rng = chk.rng
    n = 6000 if chk.tier == "quick" else 90000
    wit = [{'lang': l, 'cfg': cfg, 'src': s, 'info': {'generics': ['T', 'U', 'K'], 'positions': [], 'triggers': ['witness']}, 'witness': fid} for fid, l, cfg, s in WITNESSES]
    # Python, the halves C12_python adds to the body theorem (TypeVar for every parameter, helper functions defined, header uses):
    # programs on the boundary of the two repaired classes, and the non-vacuity example of the theorem as real source
    focus = []
    for _ in range(800 if chk.tier == 'quick' else 12000):
        src, cfg, info = py_focus(rng)
        focus.append({'lang': 'python', 'cfg': cfg, 'src': src, 'info': info})
    pins = [{'lang': l, 'cfg': cfg, 'src': s, 'info': {'generics': ['T', 'U'], 'positions': [], 'triggers': ['pin']}, 'pin': name} for name, l, cfg, s in PINS]
    cases = wit + pins + focus + cases_for(rng, n)
    res = evaluate(chk, cases)
    corr = []
    for k, r in enumerate(res):
        c = r['case']
        chk.evaluations += 1
        chk.count('lang_' + c['lang'])
        if 'skip' in r:
            chk.count('skipped_unparsable'); continue
        for pos, d, w in c['info']['positions']:
            chk.count(f'pos_{pos}'); chk.count(f'depth_{d}'); chk.count(f'trigger_{w}')
        impl, model = r['impl'], r['model']
        equal = (impl[0] == model[0]) if impl[0] != 'ok' or model[0] != 'ok' else (impl[1:] == model[1:])
        if str(c.get('witness', '')).startswith('C12-python'):
            # witnesses of the two repaired Python classes: generated, inside the domain, in no class (the verdict itself is the
            # general judgement below: an undefined helper name is a violation with this input)
            chk.count('fixed_python_witnesses')
            if impl[0] != 'ok' or not r['dom'] or r['known'] is not None:
                chk.violation(f'witness-{k}', payload_of(r), f'the witness of the repaired class {c["witness"]} is no longer generated, inside c12_py_dom and in no class', no_input=True)
        if impl[0] != 'ok':
            chk.count('impl_' + impl[0])
            if model[0] == 'ok' or (impl[0] in ('panic', 'abort')) != (model[0] == 'panic'):
                corr.append(payload_of(r))
            continue
        good = r.get('good', False)
        if 'py_focus' in c['info']['triggers']:
            chk.count('py_focus'); chk.count('py_focus_known_' + str(r['known']))
        if 'pin' in c:
            chk.count('pins')
            want = PIN_USES[c['pin']]
            if not (r['dom'] and r['known'] is None and equal and set(want) <= set(impl[1])):
                chk.violation(f'pin-{c["pin"]}', dict(payload_of(r), expected_uses=want),
                              f'the non-vacuity input of {c["pin"]} is not inside the theorem\'s hypotheses on the real front end, or model and code disagree on it, or the real output does not use {want}',
                              no_input=good)
        if c['lang'] == 'python':
            missing = py_unresolved(r['impl_raw'][1], set(VOCAB['python']) | set(c['info']['generics']))
            tok_missing = sorted(set(impl[1]) - set(impl[2]))
            if missing is None:
                chk.count('python_ast_unparsable (C10)')
            elif missing != tok_missing:
                chk.violation(f'pyast-{k}', dict(payload_of(r), ast_unresolved=missing, token_unresolved=tok_missing),
                              'Python: ast name resolution and the token-level observation disagree on the undefined helper names', no_input=True)
        if impl[1] and r['dom'] and r['known'] is None:
            chk.nontrivial.add((c['lang'], json.dumps(c['cfg'], sort_keys=True), c['src']))
        if k % 197 == 0:
            chk.sample({'lang': c['lang'], 'cfg': c['cfg'], 'source': c['src'], 'uses': impl[1], 'defs': impl[2], 'known': r['known']})
        if good and equal:
            if r['known'] is not None:
                chk.count('known_class_but_good')     # the class predicate says it fails, the code does not
                chk.violation(f'class-{k}', payload_of(r), f'input classified {r["known"]} but the real output defines every helper it uses: the class is wider than the defect', no_input=True)
            continue
        if not good:
            undefined = sorted(set(impl[1]) - set(impl[2]))
            if not r['dom']:
                chk.count('outside_dom_not_good'); continue
            if r['known'] is None:
                chk.violation(f'{k}', payload_of(r), f'{c["lang"]}: generated code uses {undefined} but neither defines nor imports them')
            elif not equal:
                chk.violation(f'{k}', payload_of(r), f'{c["lang"]}: fails ({undefined} undefined) differently from what finding {r["known"]} predicts')
            elif not chk.known(r['known'], payload_of(r)):
                chk.violation(f'{k}', payload_of(r), f'{c["lang"]}: {undefined} undefined; class {r["known"]} is not an open finding')
            continue
        corr.append(payload_of(r))
    # multi-file Swift: the definition of CodableVoid lives in Codable.swift
    nm = 48 if chk.tier == "quick" else 600
    jobs = []
    for k in range(nm):
        a, _ = program(rng, 'swift')
        b, _ = program(rng, 'swift')
        # distinct type names per crate are not required: every crate gets its own file
        jobs.append(({'alpha': a, 'beta': b}, rng.choice(['', 'OP'])))
    if chk.cli_ok:
        with concurrent.futures.ThreadPoolExecutor(max_workers=vf.NPROC) as ex:
            outs = list(ex.map(run_swift_multi, jobs))
        for (files, prefix), o in zip(jobs, outs):
            chk.evaluations += 1
            chk.count('swift_multi_runs')
            if o['rc'] != 0:
                chk.count(f'swift_multi_rc_{o["rc"]}'); continue
            uses, defs = set(), set()
            for fname, text in o['files'].items():
                u, d = obs_text('swift', text, [])
                if u:
                    uses.add(fname)
                defs.update((fname, x) for x in d)
            judged = vf.model([f'(c12_good {Lst(["CodableVoid"] if uses else [], S)} {Lst(sorted(x for _, x in defs), S)})'])[0] == 'true'
            wrong_place = [f for f, _ in defs if f != 'Codable.swift']
            if uses:
                chk.nontrivial.add(('swift-multi', prefix, json.dumps(files, sort_keys=True)))
            if not judged or wrong_place:
                chk.violation(f'multi-{chk.evaluations}', {'files': files, 'prefix': prefix, 'outputs': o['files'], 'uses_in': sorted(uses), 'defs': sorted(defs)},
                              'multi-file Swift: CodableVoid is used by ' + ', '.join(sorted(uses)) + ' but Codable.swift does not define it' if not judged
                              else 'multi-file Swift: CodableVoid defined outside Codable.swift')
    multi_file_all(chk, rng)
    chk.count('correspondence_mismatches', len(corr))
    if corr and not [v for v in chk.violations if not v[2]]:
        chk.violation('correspondence', {'correspondence': 'extracted c12_<lang>_observe (Model.Lang.* declarations + Spec.C12Spec readers) vs the helper uses/definitions read from the real generated text',
                                         'cases': corr[:6]},
                      'model and implementation disagree on the helper uses/definitions of a generated file, yet every helper the real output uses is defined', no_input=True)


def replay(chk, path):
    chk.prepare(need_cli=False)
    d = json.load(open(path))
    if 'source' not in d:
        print(json.dumps(d, indent=1)[:3000])
        return 0
    c = {'lang': d['lang'], 'cfg': d['cfg'], 'src': d['source'], 'info': d.get('info', {'generics': [], 'positions': [], 'triggers': []})}
    r = evaluate(chk, [c])[0]
    print('impl :', r.get('impl'))
    print('model:', r.get('model'), 'dom', r.get('dom'), 'known', r.get('known'))
    print('good(impl):', r.get('good'))
    if r['impl_raw'][0] == 'ok':
        print(r['impl_raw'][1])
    return 0 if r.get('good') else 1
