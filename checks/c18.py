"""C18 - I54/U53 hold exactly the JavaScript-safe integers.
Proof: Props/C18.v (range, round trips, narrowing, serde literal classification, IEEE-754 binary64
via Flocq).  Correspondence: the real `typeshare` crate + serde_json on every value within 2^8
(quick) / 2^12 (thorough) of each power of two, of the limits and of zero, plus seeded draws
stratified by bit length; JSON number literals of every shape; node's Number.isSafeInteger as an
external cross-check of the spec on the boundary sweep."""
import json, re, shutil, subprocess
import vf

U64 = 1 << 64
SAFE = (1 << 53) - 1


def sweep(width, signed):
    vals = set()
    for k in range(0, 65):
        for d in range(-width, width + 1):
            for sgn in ((1, -1) if signed else (1,)):
                vals.add(sgn * (1 << k) + d)
    for c in (0, SAFE, -SAFE, SAFE + 1, -SAFE - 1):
        for d in range(-width, width + 1):
            vals.add(c + d)
    lo, hi = (-(1 << 63), (1 << 63) - 1) if signed else (0, U64 - 1)
    return sorted(v for v in vals if lo <= v <= hi)


def stratified(rng, n, signed):
    out = []
    for _ in range(n):
        bits = rng.randint(0, 63 if signed else 64)
        v = rng.getrandbits(bits) if bits else 0
        if signed and rng.random() < 0.5:
            v = -v - 1
        out.append(v)
    return out


LIT = re.compile(r'^(-?)(0|[1-9]\d*)(\.\d+)?([eE][+-]?\d+)?$')


def spec_ok(ty, v):
    return (0 <= v <= SAFE) if ty == 'u53' else (-SAFE <= v <= SAFE)


def run(chk):
    chk.rule = ('values: every integer within W of each power of two 2^0..2^64 (both signs for i64), of 0 and of +-(2^53-1) (W=2^8 quick, 2^12 thorough), '
                'plus seeded draws stratified by bit length; each through TryFrom, Into back, TryFrom to the three narrow types, serde_json '
                'to_string/from_str, double round trip, usize_from_u53_saturated; From<narrow> on all u8/i8/u16/i16 and sampled u32/i32; JSON '
                'literals (negative, fraction, exponent, -0, beyond 64 bits); ordering on pairs. non-trivial = distinct (type, value) within '
                '2^13 of a limit of the safe range or accepted')
    chk.assumptions = ['serde_json number classification is modelled by Model/Integer.v classify (validated here on literals of every shape)',
                       'pointer width 64 for usize_from_u53_saturated (the sandbox target)']
    chk.prepare()
    if not chk.harness_ok:
        return
    rng = chk.rng
    width = 256 if chk.tier == 'quick' else 4096
    nrand = 100000 if chk.tier == 'quick' else 5000000
    total_mismatch = []

    for ty, signed in (('u53', False), ('i54', True)):
        vals = sweep(width, signed) + stratified(rng, nrand, signed)
        chk.count(f'{ty}_values', len(vals))
        m = vf.run_lines(['bash', '-c', f'exec {vf.DRIVER}'], [f'(c18 {ty} z{v})' for v in vals])
        i = vf.run_lines([str(vf.LIBDRIVE)], ['{"cmd":"c18","ty":"%s","v":"%d"}' % (ty, v) for v in vals])
        for v, a, b in zip(vals, m, i):
            chk.evaluations += 1
            b = b[6:-2]  # {"r":"..."}
            accepted = not b.startswith('T:-')
            if accepted or abs(abs(v) - SAFE) <= 8192:
                chk.nontrivial.add((ty, v))
            if a != b:
                total_mismatch.append({'ty': ty, 'value': str(v), 'model': a, 'impl': b})
                # search: does the implementation violate the property on this value?
                ok = spec_ok(ty, v)
                if 'T:' not in b:          # the harness call itself died (panic / abort inside the library)
                    chk.violation(f'{ty}-{v}', total_mismatch[-1], f'{ty.upper()}: the library call panicked or aborted on {v}: {b[:200]}')
                    continue
                fields = dict(f.split(':', 1) for f in b.split('|') if ':' in f)
                bad = None
                if (fields['T'] != '-') != ok:
                    bad = f'{ty.upper()}::try_from({v}) is {"accepted" if fields["T"] != "-" else "rejected"}; the safe range says {"accept" if ok else "reject"}'
                elif ok:
                    for k in ('T', 'B', 'S', 'D', 'F', 'J'):
                        if fields.get(k) != str(v):
                            bad = f'{ty.upper()} value {v}: facet {k} gives {fields.get(k)}'
                    for k, bits in (('N8', 8), ('N16', 16), ('N32', 32)):
                        lo, hi = ((-(1 << (bits - 1)), (1 << (bits - 1)) - 1) if signed else (0, (1 << bits) - 1))
                        exp = str(v) if lo <= v <= hi else '-'
                        if fields.get(k) != exp:
                            bad = f'{ty.upper()} value {v}: narrowing to {bits} bits gives {fields.get(k)}, expected {exp}'
                if bad:
                    chk.violation(f'{ty}-{v}', total_mismatch[-1], bad)
        chk.sample({'type': ty, 'value': str(SAFE), 'impl': i[vals.index(SAFE)][6:-2]})

    # From<narrow>
    reqs = []
    for t, lo, hi in (('u8', 0, 255), ('i8', -128, 127), ('u16', 0, 65535), ('i16', -32768, 32767)):
        reqs += [(t, v) for v in range(lo, hi + 1)]
    for t, lo, hi in (('u32', 0, (1 << 32) - 1), ('i32', -(1 << 31), (1 << 31) - 1)):
        reqs += [(t, v) for v in [lo, lo + 1, hi - 1, hi, 0] + [rng.randint(lo, hi) for _ in range(20000)]]
    m = vf.run_lines(['bash', '-c', f'exec {vf.DRIVER}'], [f'(c18_from {t} z{v})' for t, v in reqs])
    i = vf.run_lines([str(vf.LIBDRIVE)], ['{"cmd":"c18_from","from":"%s","v":"%d"}' % (t, v) for t, v in reqs])
    for (t, v), a, b in zip(reqs, m, i):
        chk.evaluations += 1
        b = b[6:-2]
        if a != b:
            total_mismatch.append({'from': t, 'value': str(v), 'model': a, 'impl': b})
            if not b.startswith(f'T:{v}|B:{v}|'):
                chk.violation(f'from-{t}-{v}', total_mismatch[-1], f'From<{t}> of {v} does not preserve the value: {b}')
    chk.count('from_narrow', len(reqs))

    # JSON literals
    lits = set()
    base = [0, 1, 255, SAFE - 1, SAFE, SAFE + 1, (1 << 63) - 1, 1 << 63, (1 << 63) + 1, U64 - 1, U64, U64 + 1, 10 ** 30]
    base += [rng.getrandbits(rng.randint(1, 70)) for _ in range(3000 if chk.tier == 'quick' else 50000)]
    for n in base:
        for neg in ('', '-'):
            lits.add(f'{neg}{n}')
            if rng.random() < 0.15:
                lits.add(f'{neg}{n}.0')
                lits.add(f'{neg}{n}e0')
                lits.add(f'{neg}{n}.5')
                lits.add(f'{neg}{n}E+2')
    lits |= {'-0', '0', '0.0', '-0.0', '1e2', '9007199254740991.0', '9.007199254740991e15'}
    lits = sorted(lits)
    malformed = ['01', '+1', '.5', '1.', '', 'null', '"1"', '1 2', '0x10', '1_000', 'NaN', '[1]']
    for ty in ('u53', 'i54'):
        mreq = []
        for l in lits:
            g = LIT.match(l)
            mreq.append(f'(c18_json {ty} {"true" if g.group(1) else "false"} z{g.group(2)} {"true" if (g.group(3) or g.group(4)) else "false"})')
        m = vf.run_lines(['bash', '-c', f'exec {vf.DRIVER}'], mreq)
        i = vf.impl([{'cmd': 'c18_json', 'ty': ty, 'lit': l} for l in lits + malformed])
        for l, a, b in zip(lits, m, i):
            chk.evaluations += 1
            chk.nontrivial.add((ty, 'lit', l))
            if a != b['r']:
                total_mismatch.append({'ty': ty, 'literal': l, 'model': a, 'impl': b['r']})
                g = LIT.match(l)
                isint = not (g.group(3) or g.group(4))
                val = int(l) if isint else None
                if b['r'] != '-' and (not isint or not spec_ok(ty, val) or b['r'] != str(val)):
                    chk.violation(f'json-{ty}-{l}', total_mismatch[-1], f'JSON literal {l} deserialises into {ty.upper()} as {b["r"]}')
                elif b['r'] == '-' and isint and spec_ok(ty, val) and l != '-0':
                    chk.violation(f'json-{ty}-{l}', total_mismatch[-1], f'JSON literal {l} is in the safe range but is rejected for {ty.upper()}')
        for l, b in zip(malformed, i[len(lits):]):
            chk.evaluations += 1
            if b['r'] != '-':
                chk.violation(f'json-{ty}-malformed', {'ty': ty, 'literal': l, 'impl': b['r']}, f'malformed literal {l!r} accepted for {ty.upper()}')
    chk.count('json_literals', 2 * len(lits))
    chk.sample({'json_literal': '-0', 'note': 'serde_json classifies -0 as a float: rejected for both types (model agrees)'})

    # ordering / equality
    for ty, lo in (('u53', 0), ('i54', -SAFE)):
        pairs = [(rng.randint(lo, SAFE), rng.randint(lo, SAFE)) for _ in range(5000)] + [(x, x) for x in (lo, 0, SAFE)] + [(lo, SAFE), (SAFE, lo)]
        m = vf.run_lines(['bash', '-c', f'exec {vf.DRIVER}'], [f'(c18_cmp z{a} z{b})' for a, b in pairs])
        i = vf.impl([{'cmd': 'c18_cmp', 'ty': ty, 'a': str(a), 'b': str(b)} for a, b in pairs])
        for (a, b), x, y in zip(pairs, m, i):
            chk.evaluations += 1
            yy = y['r'].replace('Some(', '').replace(')', '')
            if x != yy:
                exp = 'Less' if a < b else ('Equal' if a == b else 'Greater')
                payload = {'ty': ty, 'a': str(a), 'b': str(b), 'model': x, 'impl': y['r']}
                total_mismatch.append(payload)
                if yy != f'{exp}|{"true" if a == b else "false"}|{exp}':
                    chk.violation(f'cmp-{ty}-{a}-{b}', payload, f'ordering/equality of {ty.upper()} {a} vs {b} disagrees with the integers: {y["r"]}')

    # external cross-check of Spec.js_safe against node on the boundary sweep
    node = shutil.which('node')
    if node:
        vals = [c + d for c in (0, SAFE, -SAFE) for d in range(-300, 301)]
        js = 'const vs=%s;console.log(JSON.stringify(vs.map(s=>Number.isSafeInteger(Number(BigInt(s)))&&BigInt(Number(BigInt(s)))===BigInt(s))))' % json.dumps([str(v) for v in vals])
        p = subprocess.run([node, '-e', js], capture_output=True, text=True, timeout=60)
        if p.returncode == 0:
            res = json.loads(p.stdout)
            bad = [v for v, r in zip(vals, res) if r != (-SAFE <= v <= SAFE)]
            chk.count('node_isSafeInteger_checked', len(vals))
            if bad:
                chk.violation('node', {'correspondence': 'Spec.JsSafe.js_safe vs node Number.isSafeInteger', 'values': [str(b) for b in bad[:10]]},
                              'the spec of "JavaScript-safe" disagrees with node', no_input=True)
    chk.count('mismatches', len(total_mismatch))
    if total_mismatch and not [v for v in chk.violations if not v[2]]:
        chk.violation('correspondence', {'correspondence': 'Model/Integer.v vs typeshare::{I54,U53} + serde_json', 'cases': total_mismatch[:10]},
                      'model and implementation disagree but no value violating the property was found', no_input=True)


def replay(chk, path):
    chk.prepare()
    d = json.load(open(path))
    if 'value' in d and 'ty' in d:
        print(vf.impl([{'cmd': 'c18', 'ty': d['ty'], 'v': d['value']}]), vf.model([f"(c18 {d['ty']} z{d['value']})"]))
    return 0
