"""C11 - definitions are emitted exactly once each and after the definitions they use.
Proof: Props/C11.v (toposort_impl is a permutation for every graph and topological on acyclic
ones; sort_by_indices computes data[indices[i]]; topsort is a permutation of the items; outside the
finding classes the collected graph IS the declarative reference relation, hence with acyclic
references every definition is emitted after all definitions it refers to).
Correspondence: (a) toposort_impl and (b) sort_by_indices through the cfg(typeshare_verif) hooks on
exhaustive small and random larger inputs; (c) topsort on generated item sets (<= 12 items, DAGs and
cycles, references in every position and container), verdict by the extracted Gallina predicate."""
import itertools, json
import vf, ir
from vf import S, Lst, sx_get, sx_opt


def N(i):
    return f'n{i}'


def gsx(g):
    return Lst(g, lambda row: Lst(row, N))


def out_nat(x):
    return ('ok', [int(a[1:]) for a in x[1]]) if x[0] == 'ok' else (x[0], None)


def out_impl(r):
    if 'ok' in r:
        return ('ok', r['ok'])
    return ('panic', None) if 'panic' in r else ('abort', None)


def graph_acyclic(g):
    n = len(g)
    color = [0] * n

    def dfs(u):
        color[u] = 1
        for v in g[u]:
            if v >= n:
                continue
            if color[v] == 1 or (color[v] == 0 and not dfs(v)):
                return False
        color[u] = 2
        return True
    return all(color[u] != 0 or dfs(u) for u in range(n))


def all_graphs(n):
    rows = []
    for mask in range(1 << n):
        rows.append([j for j in range(n) if mask >> j & 1])
    return itertools.product(rows, repeat=n)


def rand_graph(rng, n, dag):
    g = []
    perm = list(range(n))
    rng.shuffle(perm)
    rank = {v: i for i, v in enumerate(perm)}
    for u in range(n):
        k = rng.choice([0, 0, 1, 1, 2, 3])
        row = [rng.randrange(n) for _ in range(k)]
        if dag:
            row = [v for v in row if rank[v] < rank[u]]
        if rng.random() < 0.1 and row:
            row.append(row[0])
        g.append(row)
    return g


# ------------------------------------------------------------------ item-set generator
# every position a reference can stand in.  Since the repair of the Generic arm of get_dependencies_from_type (fix 25) the
# arguments of every generic type - typeshared or not, nested or not, second and later arguments - are followed, so all of
# these are ordinary shapes for the plain sets too.
CONTAINERS = ['plain', 'vec', 'option', 'hashmap', 'array', 'slice', 'known_generic', 'unknown_generic', 'deep_generic', 'nested',
              'two_args', 'generic_in_generic', 'deep_unknown']


def wrap(rng, how, target, gen_name):
    t = ir.simple(target)
    if how == 'plain':
        return t
    if how == 'vec':
        return ir.special('Vec', t)
    if how == 'option':
        return ir.special('Option', t)
    if how == 'hashmap':
        return ir.special('HashMap', ir.special('String'), t)
    if how == 'array':
        return ir.special('Array', t, n=3)
    if how == 'slice':
        return ir.special('Slice', t)
    if how == 'known_generic' and gen_name:
        return ir.generic(gen_name, [t])
    if how == 'unknown_generic':
        return ir.generic('Unknown', [t])
    if how == 'deep_generic' and gen_name:
        return ir.generic(gen_name, [ir.special('Vec', t)])
    if how == 'two_args':               # G<String, t> / Unknown<u8, Vec<t>>: the later argument carries the reference
        return ir.generic(gen_name or 'Unknown', [ir.special('String'), rng.choice([t, ir.special('Vec', t)])])
    if how == 'generic_in_generic':     # G<G<t>> / Unknown<G<t>> / G<Unknown<t>>
        inner = ir.generic(rng.choice([gen_name or 'Unknown', 'Unknown']), [t])
        return ir.generic(rng.choice([gen_name or 'Unknown', 'Unknown']), [inner])
    if how == 'deep_unknown':           # Unknown<Vec<Option<Other<HashMap<String, t>>>>>
        return ir.generic('Unknown', [ir.special('Vec', ir.special('Option', ir.generic('Other', [ir.special('HashMap', ir.special('String'), t)])))])
    return ir.special('Vec', ir.special('Option', ir.special('HashMap', ir.special('String'), t)))


def gen_items(rng, tricky):
    n = rng.randint(2, 12)
    names = [f'T{i}' for i in range(n)]
    # an item named like a generic parameter (T) is looked up although the parameter is no reference (open class
    # C11-generic-param-shadow); an item named like the id() of a special type (Vec, Option, HashMap, String, u8) was looked up
    # too when that special type stood as an argument of a typeshared generic (C11-special-id-collision, repaired by fix 25:
    # such names are ordinary item names now)
    shadow = tricky and rng.random() < 0.12
    if shadow:
        for nm in rng.sample(['T', 'T', 'Vec', 'Option', 'HashMap', 'String', 'u8'], rng.choice([1, 1, 2])):
            if nm not in names:
                names[rng.randrange(n)] = nm
    order = names[:]
    rng.shuffle(order)
    rank = {nm: i for i, nm in enumerate(order)}
    kinds = {}
    for nm in names:
        # algebraic enums are ordinary items since the repair of get_enum_dependencies: plain sets contain them too
        kinds[nm] = rng.choice(['struct', 'struct', 'gstruct', 'uenum', 'aenum', 'alias', 'const'] if tricky else ['struct', 'struct', 'gstruct', 'uenum', 'aenum', 'aenum', 'alias', 'const'])
    gstructs = [nm for nm in names if kinds[nm] == 'gstruct']
    renamed = {nm: (nm + 'R' if tricky and rng.random() < 0.15 else nm) for nm in names}
    cyclic = tricky and rng.random() < 0.2
    items = []
    for nm in names:
        cands = [x for x in names if (cyclic or rank[x] < rank[nm])]
        k = kinds[nm]
        nrefs = rng.choice([0, 1, 1, 2, 3]) if cands else 0
        refs = []
        for _ in range(nrefs):
            tgt = rng.choice(cands)
            how = rng.choice(CONTAINERS)
            # a generic struct may mention itself with arguments (struct nm<T> { f: nm<tgt> }): its arguments are followed too
            gname = rng.choice([g for g in gstructs if g != nm or rng.random() < 0.3] or [None])
            use = renamed[tgt] if (tricky and rng.random() < 0.5) else tgt
            refs.append(wrap(rng, how, use, gname))
        idd = ir.mk_id(nm, renamed[nm], renamed[nm] != nm)
        fld = lambda i, t: {'id': ir.mk_id(f'f{i}'), 'ty': t, 'comments': [], 'has_default': False, 'decorators': []}
        if k in ('struct', 'gstruct'):
            gens = ['T'] if k == 'gstruct' else []
            fs = [fld(i, t) for i, t in enumerate(refs)] + ([fld(99, ir.simple('T'))] if gens else [])
            items.append({'kind': 'struct', 'id': idd, 'generics': gens, 'fields': fs, 'comments': [], 'decorators': [], 'is_redacted': False})
        elif k == 'uenum':
            items.append({'kind': 'enum', 'algebraic': False, 'tag': None, 'content': None, 'id': idd, 'generics': [], 'comments': [],
                          'variants': [{'k': 'unit', 'id': ir.mk_id('A'), 'comments': []}], 'decorators': [], 'is_recursive': False, 'is_redacted': False})
        elif k == 'aenum':
            vs = []
            for i, t in enumerate(refs):
                if rng.random() < 0.5:
                    vs.append({'k': 'tuple', 'id': ir.mk_id(f'V{i}'), 'comments': [], 'ty': t})
                else:
                    vs.append({'k': 'struct', 'id': ir.mk_id(f'V{i}'), 'comments': [], 'fields': [fld(0, t)]})
            vs.append({'k': 'unit', 'id': ir.mk_id('U'), 'comments': []})
            items.append({'kind': 'enum', 'algebraic': True, 'tag': 't', 'content': 'c', 'id': idd, 'generics': [], 'comments': [], 'variants': vs,
                          'decorators': [], 'is_recursive': False, 'is_redacted': False})
        elif k == 'alias':
            t = refs[0] if refs else ir.special('String')
            agens = [rng.choice(['T', 'U'] + names)] if (tricky and rng.random() < 0.08) else []
            if agens and rng.random() < 0.5:
                t = ir.special('Vec', ir.simple(agens[0]))
            items.append({'kind': 'alias', 'id': idd, 'generics': agens, 'ty': t, 'comments': [], 'decorators': [], 'is_redacted': False})
        else:
            t = ir.simple(rng.choice(cands)) if (cands and rng.random() < 0.6) else ir.special('U32')
            items.append({'kind': 'const', 'id': idd, 'ty': t, 'value': '7'})
    if tricky and rng.random() < 0.04:
        # a const may carry the name of a braced struct / enum / alias (different namespaces in Rust)
        other = [it for it in items if it['kind'] != 'const']
        if other:
            o = rng.choice(other)
            if not any(it['kind'] == 'const' and it['id']['original'] == o['id']['original'] for it in items):
                items.append({'kind': 'const', 'id': ir.mk_id(o['id']['original']), 'ty': ir.special('U32'), 'value': '7'})
    rng.shuffle(items)
    # generate_types feeds aliases, structs, enums, consts in this order
    kord = {'alias': 0, 'struct': 1, 'enum': 2, 'const': 3}
    items.sort(key=lambda it: kord[it['kind']])
    return items


def _fld(i, t):
    return {'id': ir.mk_id(f'f{i}'), 'ty': t, 'comments': [], 'has_default': False, 'decorators': []}


def _enum(nm, variants, gens=()):
    """algebraic enum; variants: ('tuple', ty) | ('struct', [ty, ..]) | ('unit',)"""
    vs = []
    for i, v in enumerate(variants):
        if v[0] == 'tuple':
            vs.append({'k': 'tuple', 'id': ir.mk_id(f'V{i}'), 'comments': [], 'ty': v[1]})
        elif v[0] == 'struct':
            vs.append({'k': 'struct', 'id': ir.mk_id(f'V{i}'), 'comments': [], 'fields': [_fld(j, t) for j, t in enumerate(v[1])]})
        else:
            vs.append({'k': 'unit', 'id': ir.mk_id(f'V{i}'), 'comments': []})
    return {'kind': 'enum', 'algebraic': True, 'tag': 't', 'content': 'c', 'id': ir.mk_id(nm), 'generics': list(gens), 'comments': [],
            'variants': vs, 'decorators': [], 'is_recursive': False, 'is_redacted': False}


def _struct(nm, tys, gens=()):
    return {'kind': 'struct', 'id': ir.mk_id(nm), 'generics': list(gens), 'fields': [_fld(i, t) for i, t in enumerate(tys)],
            'comments': [], 'decorators': [], 'is_redacted': False}


def pinned_sets():
    """Former witnesses of the repaired findings (KNOWN_FINDINGS.jsonl, status fixed: C11-variant-fields and
    C11-enum-self-edge in get_enum_dependencies; C11-generic-arg-depth and C11-special-id-collision in the Generic arm of
    get_dependencies_from_type, fix 25) and of Props.C11_*_fixed. They are outside every class now and must PASS: a
    definition emitted before one it refers to is a plain violation (regression)."""
    B, C = ir.simple('B'), ir.simple('C')
    G1 = lambda nm='G': _struct(nm, [ir.simple('T')], ['T'])
    u8 = ir.special('U8')
    return [
        # ---- fix 25 (Props.C11_generic_arg_depth_fixed, _own_name_fixed, _nested_fixed, C11_special_id_collision_fixed)
        ('C11-generic-arg-depth', [_struct('A', [ir.generic('Unknown', [B])]), _struct('B', [])]),       # struct A { f: Unknown<B> }  struct B {}
        ('C11-generic-arg-depth', [_struct('Foo', [ir.generic('Foo', [ir.simple('Zed')])], ['T']), _struct('Zed', [])]),   # struct Foo<T> { f: Foo<Zed> }
        ('C11-generic-arg-depth', [_struct('A', [ir.generic('G', [ir.special('Vec', B)]),
                                                 ir.special('Option', ir.generic('G', [ir.generic('G', [ir.special('HashMap', ir.special('String'), C)])]))]),
                                   _struct('B', []), _struct('C', []), G1()]),                            # A { f: G<Vec<B>>, g: Option<G<G<HashMap<String, C>>>> }
        ('C11-generic-arg-depth', [{'kind': 'alias', 'id': ir.mk_id('A'), 'generics': [], 'ty': ir.generic('Unknown', [ir.special('String'), ir.special('Vec', B)]),
                                    'comments': [], 'decorators': [], 'is_redacted': False},
                                   _struct('B', [C]), _struct('C', [])]),                                 # type A = Unknown<String, Vec<B>>;  B { f: C }
        ('C11-generic-arg-depth', [_enum('E', [('tuple', ir.generic('Unknown', [B])), ('struct', [ir.generic('E', [C])])], ['T']), _struct('B', []), _struct('C', [])]),
        ('C11-generic-arg-depth', [{'kind': 'const', 'id': ir.mk_id('K'), 'ty': ir.generic('Unknown', [ir.generic('Other', [ir.simple('Z')])]), 'value': '7'},
                                   _struct('Z', [])]),                                                    # const K: Unknown<Other<Z>>  struct Z {}
        ('C11-special-id-collision', [_struct('A', [ir.generic('G', [ir.special('Vec', u8)]), B]), _struct('B', []), G1(), _struct('Vec', [ir.simple('A')])]),
        ('C11-special-id-collision', [_struct('A', [ir.generic('G', [ir.special('Option', u8)]), B]), _struct('B', []), G1(), _struct('Option', [ir.simple('A')])]),
        ('C11-special-id-collision', [_struct('A', [ir.generic('G', [ir.special('HashMap', ir.special('String'), u8)]), B]), _struct('B', []), G1(),
                                      _struct('HashMap', [ir.simple('A')])]),
        ('C11-special-id-collision', [_struct('A', [ir.generic('G', [ir.special('String')]), B]), _struct('B', []), G1(), _struct('String', [ir.simple('A')])]),
        ('C11-special-id-collision', [_struct('A', [ir.generic('G', [u8]), B]), _struct('B', []), G1(), _struct('u8', [ir.special('Vec', ir.simple('A'))])]),
        ('C11-special-id-collision', [_enum('A', [('tuple', ir.generic('G', [ir.special('Vec', u8)])), ('struct', [B])]), _struct('B', []), G1(),
                                      _struct('Vec', [ir.simple('A')])]),
        # ---- the repair of get_enum_dependencies
        ('C11-variant-fields', [_enum('E', [('struct', [B])]), _struct('B', [])]),                      # enum E { V { f: B } }  struct B {}
        ('C11-enum-self-edge', [_enum('E', [('tuple', B)]), _struct('B', [])]),                          # enum E { V(B) }  struct B {}
        ('C11-enum-self-edge', [_enum('A', [('tuple', B)]), _enum('B', [('tuple', C), ('unit',)]), _enum('C', [('unit',), ('struct', [ir.special('U8')])])]),  # enum A { V(B) }, enum B { .. }
        ('C11-variant-fields', [_enum('A', [('tuple', B)]), _enum('B', [('struct', [ir.special('Vec', C)]), ('unit',)]), _struct('C', [])]),
        ('C11-variant-fields', [_enum('E', [('unit',), ('struct', [ir.special('U8'), ir.special('Option', C), ir.special('HashMap', ir.special('String'), B)])]),
                                _struct('B', [C]), _struct('C', [])]),
        # struct first, enums after (the order generate_types feeds them), references against the feed order
        ('C11-enum-self-edge', [_struct('S', [ir.simple('E')]), _enum('E', [('tuple', ir.special('Vec', ir.simple('F')))]), _enum('F', [('struct', [ir.simple('G')])]),
                                _enum('G', [('unit',)])]),
    ]


SPECIAL_IDS = [('Vec', lambda: ir.special('Vec', ir.special('U8'))), ('Option', lambda: ir.special('Option', ir.special('U8'))),
               ('HashMap', lambda: ir.special('HashMap', ir.special('String'), ir.special('U8'))),
               ('String', lambda: ir.special('String')), ('u8', lambda: ir.special('U8')), ('bool', lambda: ir.special('Bool'))]


def gen_lookalike(rng):
    """Directed shapes: names the collectors look up although they denote something else (a generic
    parameter), names they used to look up before fix 25 (the id() of a special type standing as a generic
    argument: ordinary item names now, the shapes must PASS), a generic mentioning itself, alias generics, a
    const named like a struct - each embedded in a small random acyclic context and fed in any kind-sorted order."""
    fld = lambda i, t: {'id': ir.mk_id(f'f{i}'), 'ty': t, 'comments': [], 'has_default': False, 'decorators': []}
    st = lambda nm, tys, gens=(): {'kind': 'struct', 'id': ir.mk_id(nm), 'generics': list(gens), 'fields': [fld(i, t) for i, t in enumerate(tys)],
                                   'comments': [], 'decorators': [], 'is_redacted': False}
    al = lambda nm, t, gens=(): {'kind': 'alias', 'id': ir.mk_id(nm), 'generics': list(gens), 'ty': t, 'comments': [], 'decorators': [], 'is_redacted': False}
    co = lambda nm, t: {'kind': 'const', 'id': ir.mk_id(nm), 'ty': t, 'value': '7'}
    user = lambda nm, t: rng.choice([st(nm, [t]), st(nm, [ir.special('Vec', t)]), al(nm, t), al(nm, ir.special('Option', t))])
    a, b, g = rng.sample(['A', 'B', 'G', 'M', 'Q', 'Zed'], 3)
    shape = rng.choice(['param', 'param', 'special', 'special', 'own', 'alias', 'alias_idle', 'dup', 'harmless', 'reuse', 'twice',
                        'eparam', 'especial', 'eown', 'echain'])
    if shape == 'param':        # struct a<T> { f: T, g: b }, item T uses a
        items = [st(a, [ir.simple('T'), ir.simple(b)], ['T']), st(b, []), user('T', ir.generic(a, [ir.special('U8')]))]
    elif shape == 'special':    # a { f: g<Vec<u8>> }, g<T>, an item named Vec that uses a: outside every class since fix 25
        nm, mk = rng.choice(SPECIAL_IDS)
        items = [st(a, [ir.generic(g, [mk()]), ir.simple(b)]), st(b, []), st(g, [ir.simple('T')], ['T']), user(nm, ir.simple(a))]
    elif shape == 'own':        # struct a<T> { f: a<b> }: the arguments of a Generic named like the collecting item (followed since fix 25)
        items = [st(a, [ir.generic(a, [ir.simple(b)]), ir.simple('T')], ['T']), st(b, [])]
    elif shape == 'alias':      # type a<T> = Vec<T>; item T uses a
        items = [al(a, ir.special('Vec', ir.simple('T')), ['T']), user('T', ir.generic(a, [ir.special('U8')]))]
    elif shape == 'alias_idle':  # alias generics that name no item: outside every class
        items = [al(a, ir.special('Vec', ir.simple('T')), ['T']), st(b, [ir.generic(a, [ir.simple(g)])]), st(g, [])]
    elif shape == 'reuse':      # a name first met as an argument, then as a generic with arguments of its own: outside every class
        items = [st(a, [ir.generic(g, [ir.simple(b)]), ir.generic(b, [ir.simple('Zz')])]), st(g, [ir.simple('T')], ['T']),
                 st(b, [ir.simple('T')], ['T']), st('Zz', [])]
    elif shape == 'twice':      # one typeshared generic used twice with different arguments: outside every class
        items = [st(a, [ir.generic(g, [ir.simple(b)]), ir.special('Vec', ir.generic(g, [ir.simple('Zz')]))]), st(g, [ir.simple('T')], ['T']),
                 st(b, []), user('Zz', ir.special('U8'))]
    elif shape == 'eparam':     # enum a<T> { V(T) | V { f: T }, W(b) }, item T uses a: the enum's parameter is looked up like a struct's
        pv = rng.choice([('tuple', ir.simple('T')), ('struct', [ir.simple('T')])])
        items = [_enum(a, [pv, rng.choice([('tuple', ir.simple(b)), ('struct', [ir.simple(b)])]), ('unit',)], ['T']), st(b, []),
                 user('T', ir.generic(a, [ir.special('U8')]))]
    elif shape == 'especial':   # enum a { V(g<Vec<u8>>), W { f: b } }, g<T>, an item named Vec that uses a: outside every class since fix 25
        nm, mk = rng.choice(SPECIAL_IDS)
        items = [_enum(a, [rng.choice([('tuple', ir.generic(g, [mk()])), ('struct', [ir.generic(g, [mk()])])]), ('struct', [ir.simple(b)])]), st(b, []),
                 st(g, [ir.simple('T')], ['T']), user(nm, ir.simple(a))]
    elif shape == 'eown':       # enum a<T> { V(a<b>) }: the arguments of a Generic named like the collecting enum (followed since fix 25)
        items = [_enum(a, [rng.choice([('tuple', ir.generic(a, [ir.simple(b)])), ('struct', [ir.generic(a, [ir.simple(b)])])]), ('tuple', ir.simple('T'))], ['T']), st(b, [])]
    elif shape == 'echain':     # enums referring to enums through both variant shapes and containers: outside every class
        mkv = lambda t: rng.choice([('tuple', t), ('struct', [t]), ('struct', [ir.special('U8'), t]), ('tuple', ir.special('Vec', t)),
                                    ('struct', [ir.special('Option', t)]), ('tuple', ir.special('HashMap', ir.special('String'), t))])
        items = [_enum(a, [('unit',), mkv(ir.simple(b))]), _enum(b, [mkv(ir.simple(g)), ('unit',)]), rng.choice([st(g, []), _enum(g, [('unit',)])])]
    elif shape == 'dup':        # a const named like the struct a field refers to
        items = [st(a, [ir.simple(b)]), st(b, []), co(b, ir.special('U32'))]
    else:                       # item named T / Vec present but nothing looks it up: outside every class
        items = [st(a, [ir.special('Vec', ir.simple(b))]), st(b, []), st('T', [ir.simple(a)]), st('Vec', [ir.simple('T')])]
    used = {it['id']['original'] for it in items}
    for k in range(rng.choice([0, 0, 1, 2, 3])):     # context: later items may refer to earlier ones only
        nm = f'X{k}'
        tgt = rng.choice(sorted(used))
        if tgt in ('T', 'Vec', 'Option', 'HashMap', 'String', 'u8', 'bool') and rng.random() < 0.7:
            tgt = a
        items.append(user(nm, ir.simple(tgt)))
        used.add(nm)
    rng.shuffle(items)
    kord = {'alias': 0, 'struct': 1, 'enum': 2, 'const': 3}
    items.sort(key=lambda it: kord[it['kind']])
    return items



# ---- (d) the generators' USE of topsort, single- and multi-file mode, through the real binary
TS_DEF = __import__('re').compile(r'^export (?:interface|type|enum|const) ([A-Za-z_][A-Za-z0-9_]*)', __import__('re').M)


def ts_definitions(text):
    """[(name, text of the definition)] in textual order (TypeScript output: one `export ...` per definition)"""
    ms = list(TS_DEF.finditer(text))
    return [(m.group(1), text[m.start():(ms[k + 1].start() if k + 1 < len(ms) else len(text))]) for k, m in enumerate(ms)]


def chain_program(rng):
    """a single-crate program whose natural order (aliases, structs, enums; alphabetical inside each kind) is NOT topological:
    a DAG over 4-7 definitions of mixed kinds, references by plain name, also as (nested) arguments of a generic type that
    is not typeshared (Paged<T>, Paged<String, Vec<T>>: followed since fix 25); no renames, no shadowing: outside every
    recorded class; names drawn so that users sort BEFORE what they use"""
    import re
    n = rng.randint(4, 7)
    names = sorted(rng.sample(['Alpha', 'Bravo', 'Canvas', 'Delta', 'Echo', 'Frame', 'Golf', 'Hotel', 'India', 'Layer', 'Outline', 'Paint', 'Point', 'Rgb', 'Zeta'], n))
    kinds = [rng.choice(['struct', 'struct', 'alias', 'enum']) for _ in names]
    items = []
    for k, (nm, kd) in enumerate(zip(names, kinds)):
        later = names[k + 1:]           # uses only LATER names: acyclic, and anti-alphabetical
        uses = rng.sample(later, min(len(later), rng.choice([0, 1, 1, 2])))
        wrap = lambda t: rng.choice(['{}', 'Vec<{}>', 'Option<{}>', 'HashMap<String, {}>', '[{}; 2]', 'Box<{}>',
                                     'Paged<{}>', 'Paged<String, Vec<{}>>', 'Vec<Paged<Option<{}>>>']).format(t)
        if kd == 'struct':
            fs = ''.join(f'    pub f{j}: {wrap(u)},\n' for j, u in enumerate(uses)) or '    pub x: u8,\n'
            items.append(f'#[typeshare]\npub struct {nm} {{\n{fs}}}\n')
        elif kd == 'alias':
            items.append(f'#[typeshare]\npub type {nm} = {wrap(uses[0]) if uses else "u32"};\n')
        else:
            vs = ''.join(f'    V{j}({wrap(u)}),\n' for j, u in enumerate(uses)) + '    Unit,\n    Other { a: u8 },\n'
            items.append(f'#[typeshare]\n#[serde(tag = "t", content = "c")]\npub enum {nm} {{\n{vs}}}\n')
    rng.shuffle(items)
    return 'use std::collections::HashMap;\n\n' + '\n'.join(items)


def phase_generators(chk, n):
    import pathlib, re, subprocess
    rng = chk.rng
    for k in range(n):
        src = chain_program(rng)
        d = vf.tmpdir('verif-c11-')
        (d / 'ws' / 'shapes' / 'src').mkdir(parents=True)
        (d / 'ws' / 'shapes' / 'src' / 'lib.rs').write_text(src)
        (d / 'multi').mkdir()
        runs = {'single': ['-o', str(d / 'single.ts')], 'multi': ['--output-folder', str(d / 'multi')]}
        texts = {}
        for mode, dest in runs.items():
            p = subprocess.run(['timeout', '30', str(vf.TYPESHARE), '--lang', 'typescript'] + dest + [str(d / 'ws')], capture_output=True, text=True)
            f = d / 'single.ts' if mode == 'single' else d / 'multi' / 'shapes.ts'
            texts[mode] = f.read_text() if p.returncode == 0 and f.exists() else None
        chk.evaluations += 1
        chk.count('generator_programs')
        payload = {'phase': 'generators', 'lang': 'typescript', 'source': src}
        if texts['single'] is None or texts['multi'] is None:
            chk.violation(f'gen-{k}', dict(payload, single=texts['single'] is not None, multi=texts['multi'] is not None), 'the real binary produced no output for a plain single-crate program')
            continue
        for mode in ('single', 'multi'):
            defs = ts_definitions(texts[mode])
            names = [nm for nm, _ in defs]
            declared = sorted(re.findall(r'pub (?:struct|type|enum) (\w+)', src))
            payload[mode + '_order'] = names
            if sorted(n_ for n_ in names if n_ in declared) != declared:
                chk.violation(f'gen-{k}-{mode}', payload, f'{mode}-file mode: the emitted definitions {names} are not a permutation of the annotated items {declared}')
                break
            pos = {nm: i for i, nm in enumerate(names)}
            bad = [(nm, u) for nm, body in defs if nm in declared for u in declared if u != nm and pos[u] > pos[nm] and re.search(rf'\b{u}\b', body.split('\n', 1)[-1] if '{' in body else body)]
            if bad:
                chk.violation(f'gen-{k}-{mode}', dict(payload, used_before_defined=bad),
                              f'{mode}-file mode (typescript): acyclic references, yet {bad[0][0]} is emitted before {bad[0][1]}, which it refers to')
                break
        else:
            chk.nontrivial.add(('gen', src))

def run(chk):
    chk.rule = ('(a) toposort_impl: every graph on <=3 (quick) / <=4 (thorough) nodes with sorted rows incl. self-loops, plus seeded graphs to 12 nodes '
                '(DAGs and cyclic, duplicate/unsorted rows, a few out-of-range entries); (b) sort_by_indices: every permutation of <=6 (quick) / <=7 '
                'elements, random ones to 40, and non-permutations; (c) topsort on seeded item sets of 2-12 items of every kind with references '
                'placed in fields, tuple and struct variants, alias targets, const types, through Vec/array/slice/Option/HashMap and the arguments of generic '
                'types (typeshared or not, first or later argument, nested in each other and in containers), by original or renamed name, DAGs and cycles; '
                'in a share of the sets an item is named like a generic parameter (T) or like '
                'the id() of a special type (Vec, Option, HashMap, String, u8), a generic struct mentions itself with arguments, an alias has a '
                'generic parameter (named like an item or not), a const shares the name of another item; plus directed sets built around each of these shapes '
                '(for structs and for algebraic enums; and harmless look-alikes that are outside every class) in a random acyclic context; plus the former '
                'witnesses of the repaired classes C11-variant-fields / C11-enum-self-edge / C11-generic-arg-depth / C11-special-id-collision, which must pass. '
                'Verdict on the REAL order by the extracted good_C11; '
                'on sets outside the classes the extracted model must itself satisfy good_C11 (theorem C11_topsort_good). (d) the generators\' use of it: seeded single-crate programs whose natural order is anti-topological through the REAL BINARY in single-file (-o) and folder (--output-folder) mode, TypeScript: emitted definitions = a permutation, every definition after the ones its text refers to. non-trivial = distinct inputs with at least one edge / non-identity')
    chk.assumptions = ['the hooks core::verif_hooks::{toposort_impl,sort_by_indices,topsort} are thin wrappers (MANIFEST.hooks)']
    chk.prepare(need_cli=True)
    if not chk.harness_ok:
        return
    rng = chk.rng
    corr = []

    # ---- (a) toposort_impl
    graphs = []
    for n in range(0, 4 if chk.tier == 'quick' else 5):
        graphs += [list(g) for g in all_graphs(n)]
    for _ in range(4000 if chk.tier == 'quick' else 60000):
        graphs.append(rand_graph(rng, rng.randint(1, 12), rng.random() < 0.6))
    for _ in range(50):
        g = rand_graph(rng, rng.randint(1, 6), False)
        g[rng.randrange(len(g))].append(len(g) + rng.randint(0, 2))
        graphs.append(g)
    m = vf.model([f'(c11_toposort {gsx(g)})' for g in graphs])
    i = vf.impl([{'cmd': 'toposort_impl', 'graph': g} for g in graphs])
    for g, a, b in zip(graphs, m, i):
        chk.evaluations += 1
        om, oi = out_nat(a), out_impl(b)
        n = len(g)
        inrange = all(v < n for row in g for v in row)
        if any(g):
            chk.nontrivial.add(('g', json.dumps(g)))
        if om != oi:
            corr.append({'fn': 'toposort_impl', 'graph': g, 'model': om, 'impl': oi})
        if inrange:
            if oi[0] != 'ok' or sorted(oi[1]) != list(range(n)):
                chk.violation(f'toposort-{chk.evaluations}', {'fn': 'toposort_impl', 'graph': g, 'impl': oi}, f'toposort_impl({g}) = {oi}: not a permutation of the nodes')
            elif graph_acyclic(g):
                pos = {v: k for k, v in enumerate(oi[1])}
                bad = [(u, v) for u in range(n) for v in g[u] if pos[v] > pos[u]]
                if bad:
                    chk.violation(f'toposort-{chk.evaluations}', {'fn': 'toposort_impl', 'graph': g, 'impl': oi, 'edges_out_of_order': bad},
                                  f'toposort_impl({g}) = {oi[1]} places a node before its dependency although the graph is acyclic')
    chk.count('graphs', len(graphs))
    chk.sample({'graph': [[1], [0], [1]], 'toposort_impl': i[graphs.index([[1], [0], [1]])] if [[1], [0], [1]] in graphs else None})

    # ---- (b) sort_by_indices
    perms = []
    for n in range(0, 7 if chk.tier == 'quick' else 8):
        perms += [list(p) for p in itertools.permutations(range(n))]
    for _ in range(3000 if chk.tier == 'quick' else 40000):
        p = list(range(rng.randint(1, 40)))
        rng.shuffle(p)
        perms.append(p)
    cases = [(len(p), p) for p in perms]
    for _ in range(300):
        n = rng.randint(1, 8)
        idx = [rng.randrange(n + (1 if rng.random() < 0.3 else 0)) for _ in range(n if rng.random() < 0.8 else n - 1)]
        cases.append((n, idx))
    m = vf.model([f'(c11_sbi {Lst(range(n), N)} {Lst(p, N)})' for n, p in cases])
    i = vf.impl([{'cmd': 'sort_by_indices', 'n': n, 'indices': p} for n, p in cases])
    for k, ((n, p), a, b) in enumerate(zip(cases, m, i)):
        chk.evaluations += 1
        om, oi = out_nat(a), out_impl(b)
        if om != oi:
            corr.append({'fn': 'sort_by_indices', 'n': n, 'indices': p, 'model': om, 'impl': oi})
        if k < len(perms):
            if p != sorted(p):
                chk.nontrivial.add(('p', tuple(p)))
            if oi != ('ok', p):  # data = 0..n-1, so result[i] must be indices[i]
                chk.violation(f'sbi-{k}', {'fn': 'sort_by_indices', 'indices': p, 'impl': oi}, f'sort_by_indices(0..{len(p)}, {p}) = {oi}, expected data[indices[i]]')
    chk.count('permutations', len(perms))

    # ---- (c) topsort on item sets
    pins = pinned_sets()
    sets = [items for _, items in pins]
    sets += [gen_items(rng, tricky=(k % 3 != 0)) for k in range(3000 if chk.tier == 'quick' else 40000)]
    sets += [gen_lookalike(rng) for _ in range(600 if chk.tier == 'quick' else 8000)]
    sxs = [Lst(items, ir.sx_item) for items in sets]
    m = vf.model([f'(c11_topsort {sx})' for sx in sxs])
    i = vf.impl([{'cmd': 'topsort', 'items': items} for items in sets])
    greq, gidx = [], []
    for k, (items, b) in enumerate(zip(sets, i)):
        if 'ok' in b:
            used, order = set(), []
            for kind, orig in b['ok']:
                for j, it in enumerate(items):
                    if j not in used and it['kind'] == kind and it['id']['original'] == orig:
                        used.add(j)
                        order.append(j)
                        break
                else:
                    order.append(0)
            greq.append(f'(c11_good {sxs[k]} {Lst(order, N)})')
            gidx.append(k)
    goods = dict(zip(gidx, vf.model(greq)))
    seen_known = {}
    proof_broken = []
    for k, (items, a, b) in enumerate(zip(sets, m, i)):
        chk.evaluations += 1
        mo = sx_get(a, 'model')
        om = ('ok', [[x[0], vf.unS(x[1])] for x in mo[1]]) if mo[0] == 'ok' else (mo[0], None)
        oi = out_impl(b)
        known = sx_opt(sx_get(a, 'known'))
        acyc = sx_get(a, 'acyclic') == 'true'
        payload = {'items': items, 'impl_order': oi[1], 'model_order': om[1], 'known_class': known, 'acyclic_references': acyc}
        if any(ir.item_types(it) for it in items) and known is None:
            chk.nontrivial.add(('s', sxs[k]))
        chk.count('sets_known_' + (known or 'none'))
        if k < len(pins):
            chk.count('pinned_former_witnesses')
            if known is not None or not acyc:
                chk.violation(f'pinned-{k}', payload, f'former witness of the repaired class {pins[k][0]} is classified {known!r} / acyclic={acyc} by the extracted spec: '
                              'Spec/C11Spec.v no longer matches the repaired collectors of topsort.rs', no_input=True)
        chk.count('sets_acyclic' if acyc else 'sets_cyclic')
        if oi[0] != 'ok':
            chk.violation(f'topsort-{k}', payload, f'topsort {oi[0]}s on an item set')
            continue
        g = goods[k]
        good = sx_get(g, 'good') == 'true'
        perm = sx_get(g, 'perm') == 'true'
        equal = (om == oi)
        if known is None and sx_get(a, 'good_model') != 'true':
            proof_broken.append({'items': items, 'model_order': om[1]})
        if good and equal:
            continue
        if not perm:
            chk.violation(f'topsort-{k}', payload, 'the emitted items are not a permutation of the parsed items')
        elif not good and known is None:
            chk.violation(f'topsort-{k}', payload, 'acyclic references, yet a definition is emitted before one it refers to'
                          + (f' (regression of the repaired finding {pins[k][0]})' if k < len(pins) else ''))
        elif not good and not equal:
            chk.violation(f'topsort-{k}', payload, f'order violates the property differently from what finding class {known} predicts')
        elif not good:
            if not chk.known(known, payload):
                chk.violation(f'topsort-{k}', payload, f'a definition is emitted before one it refers to; class {known} is not a recorded open finding')
            elif known not in seen_known:
                seen_known[known] = True
                chk.sample({'known_finding': known, 'order': oi[1]})
        else:
            corr.append({'fn': 'topsort', 'items': items, 'model': om, 'impl': oi, 'known_class': known})
    chk.count('item_sets', len(sets))
    if proof_broken:
        chk.violation('theorem', {'theorem': 'Props/C11.v C11_topsort_good', 'cases': proof_broken[:4]},
                      'the extracted model contradicts theorem C11_topsort_good (known_C11 = None, yet good_C11 fails on the model output): proof, extraction or driver broken', no_input=True)
    # ---- (d) the generators' use of topsort through the real binary (after (c): the pinned former witnesses are reported first)
    if chk.cli_ok:
        phase_generators(chk, 40 if chk.tier == 'quick' else 600)
    chk.count('correspondence_mismatches', len(corr))
    if corr and not [v for v in chk.violations if not v[2]]:
        chk.violation('correspondence', {'correspondence': 'Model/TopsortAlgo.v + Model/Topsort.v vs core::verif_hooks', 'cases': corr[:8]},
                      'model and implementation disagree, yet no output violating the property was found', no_input=True)


def replay(chk, path):
    d = json.load(open(path))
    if d.get('phase') == 'generators':
        import subprocess
        chk.prepare(need_cli=True)
        t = vf.tmpdir('verif-c11-')
        (t / 'ws' / 'shapes' / 'src').mkdir(parents=True)
        (t / 'ws' / 'shapes' / 'src' / 'lib.rs').write_text(d['source'])
        (t / 'multi').mkdir()
        subprocess.run([str(vf.TYPESHARE), '--lang', 'typescript', '-o', str(t / 'single.ts'), str(t / 'ws')], capture_output=True)
        subprocess.run([str(vf.TYPESHARE), '--lang', 'typescript', '--output-folder', str(t / 'multi'), str(t / 'ws')], capture_output=True)
        print(d['source'])
        print('single-file order:', [n for n, _ in ts_definitions((t / 'single.ts').read_text())])
        print('folder-mode order:', [n for n, _ in ts_definitions((t / 'multi' / 'shapes.ts').read_text())], ' recorded:', d.get('used_before_defined'))
        return 1 if d.get('used_before_defined') else 0
    chk.prepare()
    if 'items' in d:
        print(vf.impl([{'cmd': 'topsort', 'items': d['items']}]))
        print(vf.model([f"(c11_topsort {Lst(d['items'], ir.sx_item)})"]))
    elif 'graph' in d:
        print(vf.impl([{'cmd': 'toposort_impl', 'graph': d['graph']}]), vf.model([f"(c11_toposort {gsx(d['graph'])})"]))
    return 0
