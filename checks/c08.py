"""C08 - unsupported constructs are rejected with an error, never silently mis-generated.
Proof: Props/C08.v.  Correspondence: take a generated supported program, plant ONE unsupported
construct at a random position (field / payload / generic argument / inside container chains to
depth 5 / alias target / const / serialized_as string), with and without a skip marker on the
enclosing member; run (a) parser::parse through libdrive (errors recorded?), compared with the model
and judged by the extracted Gallina predicate item_unsupported (no recorded class is left: the two findings of
the unchanged tree, C08-const-expr and C08-flatten-variant, are fixed in /repo; their witnesses run first and
must now be rejected / carry the right value); (b) the real binary with a pre-existing output file: exit
status, diagnostic naming the file, output untouched."""
import concurrent.futures, json, os, subprocess
import vf, progs, front
from vf import S, Lst, sx_opt

BAD_LEAVES = ['u64', 'i64', 'usize', 'isize', '(u8, String)', '(i32,)', '((), u8)']
CHAIN = ['vec', 'option', 'hashmap', 'box', 'array', 'slice', 'ref', 'arc', 'cow']


def wrap_bad(rng, depth):
    t = rng.choice(BAD_LEAVES)
    for _ in range(depth):
        c = rng.choice(CHAIN)
        t = {'vec': f'Vec<{t}>', 'option': f'Option<{t}>', 'hashmap': f'HashMap<String, {t}>', 'box': f'Box<{t}>', 'array': f'[{t}; 3]',
             'slice': f'&[{t}]', 'ref': f'&{t}', 'arc': f'std::sync::Arc<{t}>', 'cow': f"Cow<'static, {t}>"}[c]
    return t


def plant(rng, prog):
    """mutate prog in place; returns a description dict or None if nothing could be planted"""
    items = [it for it in prog.items if it.annotated]
    if not items:
        return None
    it = rng.choice(items)
    skip = rng.random() < 0.35
    how = rng.choice(['type', 'type', 'type', 'arity', 'flatten', 'keys', 'keys_cfg', 'const', 'serialized_as', 'serialized_as_item'])
    d = {'item': it.ident, 'how': how, 'skipped': False, 'tos': []}
    bad = wrap_bad(rng, rng.randint(0, 5))
    if how == 'type':
        if it.kind == 'struct' and it.fields:
            f = rng.choice(it.fields)
            f.ty = ('raw', bad)
            if f.skip is not None or skip:
                f.skip = f.skip or rng.choice(['serde', 'typeshare'])
                d['skipped'] = True
            d['where'] = f'field {f.ident}: {bad}'
        elif it.kind in ('newtype', 'alias'):
            it.ty = ('raw', bad)
            d['where'] = f'{it.kind} target {bad}'
        elif it.kind == 'alg_enum':
            v = rng.choice(it.variants)
            if v.kind == 'unit':
                v.kind = 'tuple'
            if v.kind == 'tuple':
                v.ty = ('raw', bad)
                d['where'] = f'variant {v.ident}({bad})'
            else:
                f = rng.choice(v.fields)
                f.ty = ('raw', bad)
                if rng.random() < 0.3:
                    f.skip = 'serde'
                    d['skipped'] = True
                d['where'] = f'variant field {v.ident}.{f.ident}: {bad}'
            if v.skip is not None or (skip and not d['skipped']):
                v.skip = v.skip or rng.choice(['serde', 'typeshare'])
                d['skipped'] = True
        else:
            return None
    elif how == 'arity':
        if it.kind == 'newtype':
            it.ty = ('raw', 'u8, pub String')
            d['where'] = 'tuple struct with two fields'
        elif it.kind == 'alg_enum':
            v = rng.choice(it.variants)
            v.kind = 'tuple'
            v.ty = ('raw', 'u8, String')
            if skip:
                v.skip = 'serde'
                d['skipped'] = True
            d['where'] = f'variant {v.ident}(u8, String)'
        else:
            return None
    elif how == 'flatten':
        if it.kind == 'struct' and it.fields:
            f = rng.choice(it.fields)
            f.flatten = True
            if rng.random() < 0.3 and f.serialized_as is None:
                # flatten next to a (supported) serialized_as override: still flatten (seeded C08_e: the check sat on the no-override path only)
                f.serialized_as = rng.choice(['String', 'Vec<String>', 'HashMap<String, String>', 'Option<u32>'])
            if f.skip is not None or skip:
                f.skip = f.skip or 'typeshare'
                d['skipped'] = True
            d['where'] = f'serde(flatten) on field {f.ident}'
        elif it.kind == 'alg_enum' and any(v.kind == 'struct' for v in it.variants):
            v = rng.choice([v for v in it.variants if v.kind == 'struct'])
            f = rng.choice(v.fields)
            f.flatten = True
            if rng.random() < 0.3 and f.serialized_as is None:
                f.serialized_as = rng.choice(['String', 'Vec<String>', 'HashMap<String, String>', 'Option<u32>'])
            d['skipped'] = v.skip is not None or f.skip is not None
            d['where'] = f'serde(flatten) on variant field {v.ident}.{f.ident}'
        else:
            return None
    elif how == 'keys':
        if it.kind == 'alg_enum':
            c = rng.choice(['notag', 'nocontent', 'neither'])
            extra = {'notag': f'#[serde(content = "{it.content}")]', 'nocontent': f'#[serde(tag = "{it.tag}")]', 'neither': None}[c]
            it.tag = it.content = None
            if extra:
                it.extra_attrs.append(extra)
            d['where'] = f'data-carrying enum, {c}'
        elif it.kind == 'unit_enum':
            it.extra_attrs.append(rng.choice(['#[serde(tag = "t")]', '#[serde(content = "c")]', '#[serde(tag = "t", content = "c")]']))
            d['where'] = 'tag/content on a unit enum'
        else:
            return None
    elif how == 'keys_cfg':
        # unit-vs-algebraic is decided on the variants that SURVIVE --target-os filtering as well as the skip attributes (seeded C08_f:
        # decided from the skip attributes alone): every data-carrying variant is compiled out for the requested OS
        if it.kind != 'alg_enum' or not any(v.kind != 'unit' and v.skip is None for v in it.variants):
            return None
        for v in it.variants:
            if v.kind != 'unit':
                v.extra_attrs.append(rng.choice(['#[cfg(target_os = "ios")]', '#[cfg(any(target_os = "ios", target_os = "macos"))]', '#[cfg(not(target_os = "android"))]']))
        if not any(v.kind == 'unit' and v.skip is None for v in it.variants):
            u = progs.Variant()
            u.ident, u.kind = 'PlainUnit', 'unit'
            it.variants.append(u)
        d['tos'] = ['android']
        if rng.random() < 0.5:
            it.tag = it.content = None
            d['where'] = 'data-carrying variants compiled out by --target-os, no tag/content: a unit enum, must be generated'
        else:
            d['where'] = 'data-carrying variants compiled out by --target-os, tag/content kept: tag/content on a unit enum'
    elif how == 'const':
        it.kind = 'const'
        it.fields, it.variants, it.generics, it.tag, it.content, it.rename_all = [], [], [], None, None, None
        it.ty = progs.t_prim(rng.choice(['i32', 'u32', '&str', 'f64', 'bool']))
        it.value = rng.choice(['-5', '1 + 2', 'foo(7)', '"text"', '1.5', 'true', 'u32::MAX', '(3)', '{ 4 }', '0x10', '7 as u32', 'OTHER', '-(5)', '-foo(7)', '-1.5', '(-(2))', '!0', '5'])
        d['where'] = f'const = {it.value}'
    elif how == 'serialized_as':
        if it.kind == 'struct' and it.fields:
            f = rng.choice(it.fields)
            f.serialized_as = rng.choice([bad, 'not a type ((', ''])
            if f.skip is not None or skip:
                f.skip = f.skip or 'serde'
                d['skipped'] = True
            d['where'] = f'serialized_as = {f.serialized_as!r} on field {f.ident}'
        else:
            return None
    else:
        if it.kind in ('struct', 'unit_enum', 'alias', 'newtype'):
            it.typeshare_args = f'serialized_as = {progs.rs_lit(rng.choice([bad, "Vec<"]))}'
            d['where'] = f'typeshare({it.typeshare_args}) on the item'
        else:
            return None
    return d


# witnesses of the findings fixed in /repo: (finding, source, 'reject' | the const value that must be emitted)
FIXED_WITNESSES = [
    ('C08-const-expr', '#[typeshare]\nconst X: i32 = -5;\n', -5),
    ('C08-const-expr', '#[typeshare]\nconst X: i32 = -(5);\n', -5),
    ('C08-const-expr', '#[typeshare]\nconst X: i32 = (-(-(7)));\n', 7),
    ('C08-const-expr', '#[typeshare]\nconst X: i32 = 1 + 2;\n', 'reject'),
    ('C08-const-expr', '#[typeshare]\nconst X: i32 = foo(7);\n', 'reject'),
    ('C08-const-expr', '#[typeshare]\nconst X: u32 = 7 as u32;\n', 'reject'),
    ('C08-const-expr', '#[typeshare]\nconst X: i32 = -foo(7);\n', 'reject'),
    ('C08-const-expr', '#[typeshare]\nconst X: i32 = { 4 };\n', 'reject'),
    ('C08-const-expr', '#[typeshare]\nconst X: i32 = !0;\n', 'reject'),
    ('C08-const-expr', '#[typeshare]\nconst X: i32 = -"s";\n', 'reject'),
    ('C08-flatten-variant', '#[typeshare]\n#[serde(tag = "t", content = "c")]\nenum E { V { #[serde(flatten)] x: u8 } }\n', 'reject'),
    ('C08-flatten-variant', '#[typeshare]\n#[serde(tag = "t", content = "c")]\nenum E { A, V { a: u8, #[serde(default, flatten)] x: Option<u8> } }\n', 'reject'),
]


def fixed_witnesses(chk):
    """the witnesses of the fixed findings must now PASS: rejected with an error (and exit 1, diagnostic naming the file,
    no output), or accepted with exactly the value the initialiser denotes - in the parser and in the generated text"""
    res = front.run_front([(s, []) for _, s, _ in FIXED_WITNESSES])
    jobs = [(s, 'typescript', 'ts', [], False) for _, s, _ in FIXED_WITNESSES]
    outs = [run_binary(j) for j in jobs] if chk.cli_ok else [None] * len(jobs)
    for k, ((fid, src, expect), r, o) in enumerate(zip(FIXED_WITNESSES, res, outs)):
        chk.evaluations += 1
        chk.count('fixed_witness_cases')
        impl = r['impl']
        payload = {'fixed_finding': fid, 'source': src, 'expected': expect, 'impl': impl, 'model': r['model'], 'cli': o}
        if not front.same(impl, r['model']):
            chk.violation(f'fixed-{k}', payload, f'witness of the fixed finding {fid}: parser::parse and the model disagree')
            continue
        errors = impl[1]['errors'] if impl[0] == 'ok' and impl[1] else []
        consts = impl[1]['consts'] if impl[0] == 'ok' and impl[1] else []
        if expect == 'reject':
            if not errors or consts or (impl[1] and (impl[1]['enums'] or impl[1]['structs'])):
                chk.violation(f'fixed-{k}', payload, f'witness of the fixed finding {fid} is accepted again (errors {errors}): regression')
            elif o is not None and (o['rc'] != 1 or not o['stderr_names_file'] or not o['untouched']):
                chk.violation(f'fixed-{k}', payload, f'witness of the fixed finding {fid}: the CLI must exit 1 with a diagnostic naming the file and write nothing')
        else:
            text = o.get('output') if o else None
            if errors or len(consts) != 1 or f'z{expect}' not in consts[0].replace('(', ' ').replace(')', ' ').split():
                chk.violation(f'fixed-{k}', payload, f'witness of the fixed finding {fid}: expected the const value {expect}, parser gives {consts} / errors {errors}: regression')
            elif o is not None and (o['rc'] != 0 or text is None or f'= {expect};' not in text):
                chk.violation(f'fixed-{k}', payload, f'witness of the fixed finding {fid}: the generated TypeScript must define X = {expect}')


LANGS = [('typescript', 'ts', []), ('kotlin', 'kt', ['--java-package', 'p']), ('swift', 'swift', []), ('scala', 'scala', ['--scala-package', 'p']),
         ('go', 'go', ['--go-package', 'p']), ('python', 'py', [])]


def run_binary(args):
    src, lang, ext, extra, with_existing = args
    d = vf.tmpdir()
    (d / 'src').mkdir()
    (d / 'src' / 'lib.rs').write_text(src)
    out = d / f'out.{ext}'
    before = None
    if with_existing:
        out.write_text('// previously generated\n')
        os.utime(out, ns=(10 ** 18, 10 ** 18))
        before = (out.read_bytes(), out.stat().st_mtime_ns)
    try:
        p = subprocess.run(['timeout', '20', str(vf.TYPESHARE), '--lang', lang, '-o', str(out)] + extra + [str(d / 'src')],
                           capture_output=True, text=True, timeout=30, cwd=d)
        rc, err = p.returncode, p.stderr
    except subprocess.TimeoutExpired:
        rc, err = 124, ''
    after = (out.read_bytes(), out.stat().st_mtime_ns) if out.exists() else None
    return {'rc': rc, 'stderr_names_file': 'lib.rs' in err, 'panicked': 'panicked at' in err, 'before': before is not None, 'untouched': before == after,
            'output': after[0].decode(errors='replace')[-600:] if after is not None and before is None else None, 'stderr_tail': err[-400:]}


def run(chk):
    chk.rule = ('a seeded supported program (lib/progs.py) with one unsupported construct planted: u64/i64/usize/isize/tuples inside container chains of '
                'depth 0-5 at a field, payload, struct-variant field, alias/newtype target; tuple struct/variant with 2 fields; serde(flatten); '
                'missing/forbidden tag+content; non-literal consts (and negated / parenthesised literals, which are supported); bad serialized_as strings; 35% under serde(skip)/typeshare(skip). '
                'non-trivial = distinct (program, plant) where the planted construct is not skipped')
    chk.assumptions = ['syn is not modelled: the model receives the AST produced by harness/libdrive/src/ast.rs from the same text',
                       'the CLI part (exit status, diagnostic, output untouched) is observed on the real binary; its model (errors => no write) is Props/C08 + C17']
    chk.prepare(need_cli=True)
    if not chk.harness_ok:
        return
    rng = chk.rng
    fixed_witnesses(chk)
    n = 1500 if chk.tier == 'quick' else 20000
    gen = progs.ProgGen(rng, progs.Profile(p_unannotated=0.1, p_skip=0.05))
    cases = []
    while len(cases) < n:
        prog = gen.program()
        d = plant(rng, prog)
        if d is None:
            continue
        cases.append((progs.source(prog), d))
    res = front.run_front([(s, d['tos']) for s, d in cases])
    # the extracted verdict predicates on each expected leaf
    mreq, midx = [], []
    for k, r in enumerate(res):
        if r['ast'] is not None:
            a = r['ast']
            mreq.append(None)
    asts = {}
    uniq = sorted(set(s for s, _ in cases))
    for s, a in zip(uniq, vf.impl([{'cmd': 'ast', 'src': s} for s in uniq])):
        asts[s] = a
    judg = vf.model([f'(c08 {asts[s]["ok"]} {asts[s]["tstrs"]} {Lst(d["tos"], S)})' for s, d in cases])
    corr = []
    for k, ((src, d), r, j) in enumerate(zip(cases, res, judg)):
        chk.evaluations += 1
        chk.count('plant_' + d['how'] + ('_skipped' if d['skipped'] else ''))
        leaves = [(vf.unS(x[0]), x[1] == 'true', sx_opt(x[2]), x[3]) for x in j]
        must_fail = [l for l in leaves if l[1]]          # known_C08 is constantly None: no recorded class is excepted
        impl = r['impl']
        payload = {'plant': d, 'source': src, 'impl': impl if impl[0] != 'ok' else ('ok', {'errors': (impl[1] or {}).get('errors'), 'items': sum(len((impl[1] or {}).get(x, [])) for x in ('structs', 'enums', 'aliases', 'consts'))}),
                   'leaves': leaves}
        if not d['skipped']:
            chk.nontrivial.add((src, d['where']))
        if k % 211 == 0:
            chk.sample({'plant': d, 'impl_errors': impl[1]['errors'] if impl[0] == 'ok' and impl[1] else impl[0], 'unsupported_leaves': [l[0] for l in must_fail]})
        equal = front.same(r['impl'], r['model'])
        if impl[0] in ('panic', 'abort'):
            # a crash is C07's subject; for C08 it is "not silently mis-generated" - but must agree with the model
            chk.count('impl_panics')
            if not equal:
                corr.append(payload)
            continue
        nerr = len(impl[1]['errors']) if impl[0] == 'ok' and impl[1] else (1 if impl[0] == 'err' else 0)
        nitems = payload['impl'][1]['items'] if impl[0] == 'ok' else 0
        good = nerr >= len(must_fail) and nerr + nitems == len(leaves)
        if good and equal:
            continue
        if nerr + nitems != len(leaves):
            chk.violation(f'{k}', payload, f'{len(leaves)} annotated items but {nitems} generated + {nerr} errors: an item was dropped or invented')
        elif not good:
            chk.violation(f'{k}', payload, f'{d["where"]} in item {d["item"]} is accepted without an error ({nerr} errors for {len(must_fail)} unsupported items)')
        else:
            corr.append(payload)
    # now the CLI facet on a subset
    nb = 240 if chk.tier == 'quick' else 3000
    sub = [c for c in cases if not c[1]['skipped'] and not c[1]['tos']][:nb]
    jobs = []
    for k, (src, d) in enumerate(sub):
        lang, ext, extra = LANGS[k % len(LANGS)]
        jobs.append((src, lang, ext, extra, k % 2 == 0))
    if chk.cli_ok:
        with concurrent.futures.ThreadPoolExecutor(max_workers=vf.NPROC) as ex:
            outs = list(ex.map(run_binary, jobs))
        judged = {s: j for (s, _), j in zip(cases, judg)}
        for (src, d), job, o in zip(sub, jobs, outs):
            chk.evaluations += 1
            chk.count('cli_runs')
            must_fail = any(x[1] == 'true' for x in judged[src])
            payload = {'plant': d, 'source': src, 'lang': job[1], 'cli': o}
            if o['rc'] in (124, 101, 134) or o['panicked']:
                chk.count('cli_crash_or_hang (C07)')
                if o['before'] and not o['untouched']:
                    chk.violation(f'cli-{chk.evaluations}', payload, 'the tool crashed AND modified the existing output file')
                continue
            if must_fail:
                if o['rc'] == 0:
                    chk.violation(f'cli-{chk.evaluations}', payload, f'{d["where"]}: the CLI exits 0 although an annotated item uses an unsupported construct')
                elif o['before'] and not o['untouched']:
                    chk.violation(f'cli-{chk.evaluations}', payload, 'the run failed but the pre-existing output file was modified')
                elif not o['before'] and not o['untouched']:
                    chk.violation(f'cli-{chk.evaluations}', payload, 'the run failed but an output file was created')
                elif not o['stderr_names_file']:
                    chk.violation(f'cli-{chk.evaluations}', payload, 'the diagnostic does not name the offending file')
    chk.count('correspondence_mismatches', len(corr))
    if corr and not [v for v in chk.violations if not v[2]]:
        chk.violation('correspondence', {'correspondence': 'Model.Parse.parse_file vs parser::parse', 'cases': corr[:6]},
                      'model and implementation disagree on a planted program, yet no accepted unsupported construct was found', no_input=True)


def replay(chk, path):
    chk.prepare(need_cli=False)
    d = json.load(open(path))
    tos = (d.get('plant') or {}).get('tos') or []
    print('target_os:', tos)
    r = front.run_front([(d['source'], tos)])[0]
    print('impl :', str(r['impl'])[:1500])
    print('model:', str(r['model'])[:1500])
    return 0
