"""C07 - the tool always terminates with output or a diagnostic; it never panics or hangs.
Proof (partial, front end only): Props/C07.v - since the /repo fixes of the front-end panic sites the front
end is proved panic-free on EVERY input, and the edge inputs that used to panic are proved to be diagnosed.
This check is the edge stream of DESIGN.md §11 C07:
  (1) front end: libdrive `parse` (catch_unwind) against Model.Parse.parse_file; a panic of parser::parse is a
      violation (no front-end finding is open any more); the extracted declarative predicate leaf_complete
      (Spec/C07Spec.v) says which annotated items must be reported as errors, and the real parser must report them;
  (2) the real binary, every language, single-file (-o) and multi-file (-d) mode, under `timeout 10`,
      against the whole-pipeline model (`gen_src`): exit status, diagnostic, panic site;
  (3) file-system edges, the collector send race, configuration edges on the binary alone.
A panic / hang / abort is tolerated only as a reproduction of an OPEN finding whose id is derived from
the model's predicted panic site (or, outside the model, from the location printed on stderr).  The witnesses
of the findings FIXED in /repo (c07_cases.fixed_witness_cases) stay in the stream and must now end as stated
there - with output, with a diagnostic naming the file, with the generation error naming the constant, or with
the configuration error - in every language and in both modes; anything else is a violation.
A run that fails at GENERATION time (the back end returns Err: exit 1, "typeshare failed to generate types: ..")
is judged with the extracted Spec.C07Spec.c07_item_rejection / c07_config_rejection on the error the model
predicts: a rejected ITEM must be reported with the offending file named - it is not (open finding
C07-generation-error-no-file, reproduced on every such run); a configuration error has no file to name."""
import concurrent.futures, difflib, json, os, pathlib, re, shutil, signal, subprocess, sys, time
import vf, front, back
import c07_cases
from vf import S, Lst

sys.setrecursionlimit(60000)      # S-expressions of types nested hundreds deep
# (key, --lang, extension, CLI arguments, model cfg)
LANGS = [('typescript', 'typescript', 'ts', [], {}),
         ('kotlin', 'kotlin', 'kt', ['--java-package', 'p'], {'package': 'p'}),
         ('swift', 'swift', 'swift', [], {}),
         ('scala', 'scala', 'scala', ['--scala-package', 'p'], {'package': 'p'}),
         ('scala-nopkg', 'scala', 'scala', [], {}),
         ('go', 'go', 'go', ['--go-package', 'p'], {'package': 'p'}),
         ('python', 'python', 'py', [], {})]
LANG = {l[0]: l for l in LANGS}
GRACE = 1.0          # seconds a process may live on after printing a panic message before it counts as hung
FRONT_SITES = ('parser.rs', 'rust_types.rs', 'rename.rs')
MSG = {}
GEN_FINDING = 'C07-generation-error-no-file'
GEN_PREFIX = 'typeshare failed to generate types: '
ENV = dict(vf.ENV, RUST_BACKTRACE='0')
ENV.pop('RUST_LOG', None)
PANIC_RE = re.compile(r"thread '([^']*)'(?: \(\d+\))? panicked at ([^\n:]+):(\d+):\d+:\n([^\n]*)")


# ------------------------------------------------------------------ panic locations -> sites of the pinned snapshot
class SiteMap:
    """The model names panic sites by file:line of /repo's ROOT commit (before hooks / fixes were added);
    the binary prints lines of the working tree.  Map working-tree lines back through a diff."""

    def __init__(self):
        self.cache = {}
        self.base = None
        try:
            rc, out, _ = vf.run(['git', '-C', '/repo', 'rev-list', '--max-parents=0', 'HEAD'], timeout=60)
            if rc == 0 and out.split():
                self.base = out.split()[-1]
        except Exception:
            pass

    def to_base(self, path, line):
        if path not in self.cache:
            m = None
            try:
                cur = (vf.REPO / path).read_text().splitlines()
                rc, old, _ = vf.run(['git', '-C', '/repo', 'show', f'{self.base}:{path}'], timeout=60) if self.base else (1, '', '')
                if rc == 0:
                    m = {}
                    sm = difflib.SequenceMatcher(None, old.splitlines(), cur, autojunk=False)
                    for tag, i1, i2, j1, j2 in sm.get_opcodes():
                        if tag == 'equal':
                            for k in range(i2 - i1):
                                m[j1 + k + 1] = i1 + k + 1
            except Exception:
                m = None
            self.cache[path] = m
        m = self.cache[path]
        if m is None:
            return line
        return m.get(line)

    def site(self, path, line):
        """'core/src/parser.rs', 287 -> 'parser.rs:287' (line of the root commit); lines that do not exist there keep a '+' mark"""
        if path.startswith('/') or not (vf.REPO / path).exists():
            return f'{path}:{line}'
        b = self.to_base(path, line)
        return f'{pathlib.Path(path).name}:{b}' if b is not None else f'{pathlib.Path(path).name}:+{line}'


def finding_id(site, stage, lang):
    """the stable id of the finding a model-predicted panic site belongs to"""
    if site == 'fuel':
        return 'C07-topsort-recursion'
    return 'C07-' + site


def stderr_finding_id(site):
    """for panics outside the model: id from the location printed on stderr"""
    return 'C07-' + site


# ------------------------------------------------------------------ the real binary
def materialise(d, files):
    for rel, spec in files.items():
        p = d / rel if isinstance(rel, str) else pathlib.Path(os.fsdecode(os.fsencode(str(d)) + b'/' + rel))
        p.parent.mkdir(parents=True, exist_ok=True)
        if isinstance(spec, str):
            p.write_text(spec)
        elif isinstance(spec, bytes):
            p.write_bytes(spec)
        elif spec[0] == 'dir':
            p.mkdir(parents=True, exist_ok=True)
        elif spec[0] == 'symlink':
            os.symlink(spec[1].replace('{d}', str(d)), p)
        elif spec[0] == 'chmod000':
            p.write_text(spec[1])
            os.chmod(p, 0)


def run_cli(job):
    """job: files {relpath: text | bytes | ('dir',) | ('symlink', target) | ('chmod000', text)}, args (with {d}), full (wait the whole timeout)"""
    d = vf.tmpdir('c07-')
    try:
        materialise(d, job['files'])
        args = [a.replace('{d}', str(d)) for a in job['args']]
        errp = d / '.stderr'
        t0 = time.time()
        early = False
        with open(errp, 'wb') as ef:
            p = subprocess.Popen(['timeout', '10', str(vf.TYPESHARE)] + args, stdout=subprocess.DEVNULL, stderr=ef, cwd=d, env=ENV, start_new_session=True)
            seen = None
            while True:
                try:
                    rc = p.wait(timeout=0.05)
                    break
                except subprocess.TimeoutExpired:
                    pass
                now = time.time()
                if not job.get('full'):
                    if seen is None:
                        txt = errp.read_bytes()
                        if b'panicked at' in txt or b'overflowed its stack' in txt:
                            seen = now
                    elif now - seen > GRACE:
                        # a worker thread panicked and the process lives on: it would sit there until `timeout` kills it
                        os.killpg(p.pid, signal.SIGKILL)
                        p.wait()
                        rc, early = 124, True
                        break
                if now - t0 > 20:
                    os.killpg(p.pid, signal.SIGKILL)
                    p.wait()
                    rc = 124
                    break
        err = errp.read_text(errors='replace')
        errp.unlink()
        outs = {}
        for x in sorted(d.rglob('*')):
            rel = str(x.relative_to(d))
            if x.is_file() and not x.is_symlink() and not rel.startswith('tree/') and not rel.startswith('cfg'):
                try:
                    outs[rel] = x.stat().st_size
                except OSError:
                    pass
        return {'rc': rc, 'stderr': err, 'outs': outs, 'early_kill': early, 'wall': round(time.time() - t0, 2), 'dir': str(d)}
    finally:
        subprocess.run(['chmod', '-R', 'u+rwx', str(d)], capture_output=True)
        shutil.rmtree(d, ignore_errors=True)


def observe(o, sm, names=()):
    """classify one run of the binary: category ok | diag | panic | overflow | hang | exitN"""
    err = o['stderr']
    panics = [(m.group(1), sm.site(m.group(2), int(m.group(3))), m.group(4)) for m in PANIC_RE.finditer(err)]
    overflow = 'overflowed its stack' in err
    diag_lines = [l for l in err.splitlines() if re.search(r'\bERROR\b|^error:|^Error:', l)]
    rc = o['rc']
    if overflow:
        cat = 'overflow'
    elif panics or 'panicked at' in err:
        cat = 'panic'
    elif rc == 124:
        cat = 'hang'
    elif rc == 0:
        cat = 'ok'
    elif rc in (1, 2) and diag_lines:
        cat = 'diag'
    else:
        cat = f'exit{rc}'
    return {'cat': cat, 'rc': rc, 'panics': panics, 'site': panics[0][1] if panics else None, 'thread': panics[0][0] if panics else None,
            'msg': panics[0][2] if panics else None, 'names_file': all(n in err for n in names) if names else None, 'outs': sorted(o['outs']),
            'early_kill': o['early_kill'], 'stderr_tail': '\n'.join(l for l in err.splitlines() if ' INFO ' not in l)[-600:]}


def good_cli(ob):
    return ob['cat'] in ('ok', 'diag')


def single_job(src, lang, tos, full=False, cfgfile=None):
    _, l, ext, extra, _ = LANG[lang]
    files = {'tree/src/lib.rs': src}
    args = (['--target-os', ','.join(tos)] if tos else []) + ['--lang', l, '-o', '{d}/out.' + ext] + extra     # --target-os is variadic: not last
    if cfgfile is not None:
        files['cfg.toml'] = cfgfile
        args += ['-c', '{d}/cfg.toml']
    return {'files': files, 'args': args + ['{d}/tree'], 'full': full}


def multi_job(src, lang, full=False):
    _, l, ext, extra, _ = LANG[lang]
    return {'files': {'tree/mycrate/src/lib.rs': src}, 'args': ['--lang', l, '-d', '{d}/out'] + extra + ['{d}/tree'], 'full': full}


# ------------------------------------------------------------------ model predictions for the binary
def predict(gen, front_model, lang):
    """gen: canonical answer of gen_src; front_model: canonical answer of (parse ..). -> (category, site or None, stage)"""
    k = gen[0]
    if k == 'ok':
        return ('ok', None, None)
    if k == 'err':
        return ('diag', None, 'err', gen[1])          # generation-stage error: the constructor of Model/Outcome.v perr
    if k in ('none', 'parse_err', 'parse_errors'):
        return ('diag', None, k)
    if k == 'panic':
        stage = 'front' if front_model[0] == 'panic' else 'back'
        if gen[1] == 'fuel':
            return ('overflow', 'fuel', stage)
        return ('panic', gen[1], stage)
    return (k, None, None)


def judge_fixed(c, lk, ob, o):
    """a witness of a finding fixed in /repo must end exactly as recorded. -> (what was expected, text of the regression or None)"""
    expect = c['expect']
    if lk == 'scala-nopkg' and expect == 'ok':
        expect = 'config'              # the missing package is reported whatever the input (scala.rs:131, fixed)
    err = o['stderr']
    outputs = [x for x in ob['outs'] if not x.startswith('tree')]
    if expect == 'ok':
        bad = ob['cat'] != 'ok'
        words = 'exit 0 with output'
    elif expect == 'diag':
        bad = ob['cat'] != 'diag' or ob['rc'] != 1 or 'lib.rs' not in err
        words = 'exit 1 with a diagnostic naming the file'
    elif expect == 'gen':
        m = re.search(r'const (\w+)', c['src'])
        msg = c07_cases.GEN_MESSAGE[lk] % m.group(1)
        bad = ob['cat'] != 'diag' or ob['rc'] != 1 or GEN_PREFIX + msg not in err or bool(outputs)
        words = f'exit 1 with the generation error {msg!r} and no output file'
    else:
        bad = ob['cat'] != 'diag' or ob['rc'] != 1 or GEN_PREFIX + c07_cases.CONFIG_MESSAGE not in err or bool(outputs)
        words = f'exit 1 with the configuration error {c07_cases.CONFIG_MESSAGE!r} and no output file'
    return expect, (f'witness of the fixed finding {c["fixed"]}: expected {words}, observed {ob["cat"]} (exit {ob["rc"]}) at {ob["site"]}'
                    + (f', files written: {outputs}' if outputs and expect in ('gen', 'config') else '') + ': regression') if bad else None


def run(chk):
    chk.rule = ('edge stream: (a) seeded supported programs (lib/progs.py) with ONE planted edge construct - container / smart pointer without type arguments '
                '(24 spellings x 13 wrappers) in a struct field, struct-variant field, tuple variant, alias, newtype, const type, field- or item-level '
                'serialized_as string; empty tuple struct / variant; unknown nested typeshare(..) lists; underscore-only / non-ASCII identifiers under every '
                'rename_all rule; consts; non-ASCII type names; odd tag/content keys; shadowing alias generics; 30% under serde(skip)/typeshare(skip), some under '
                'cfg(target_os) with --target-os; (b) ~1000 hand-written edge files (annotations on every item kind, attributes that are not meta lists, nesting '
                'depth 30-200 of types / modules / expressions, sizes to 3000 members, raw identifiers, generics, visibility, consts, enums without variants...); '
                '(c) unparsable text with and without the #[typeshare marker; (d) multi-file mode with 28 `use` forms at 6 positions (libdrive parse with '
                'multi_file against the extracted Model.MultiFile.parse_file_multi: outcome, item counts, import pairs); (e) file-system and '
                'configuration edges and the collector send race on the binary; (f) the witnesses of the findings fixed in /repo, every language, -o and -d. '
                'Each source runs through libdrive parse + model + leaf_complete, and through the '
                'real binary under timeout 10 for the language configurations the model predicts a panic or a generation error for plus rotating others (thorough: all 7). '
                'non-trivial = distinct (source text, target-os, mode) edge inputs other than the baselines')
    chk.assumptions = ['syn is not modelled: the model receives the AST harness/libdrive/src/ast.rs (syn) produces from the same text',
                       'the directory walk, file reading, the collector thread and the output writer are observed on the real binary only; multi-file parsing '
                       '(visitors.rs ItemUseIter, visit_path, reconcile_referenced_types) is compared per file with Model.MultiFile.parse_file_multi (crate mycrate, '
                       'no ignored types, identity hash order: the cases have no two imports of one name), whole workspaces are C14\'s subject',
                       f'a process still alive {GRACE}s after printing a panic message is counted as hung (it is killed early instead of waiting for `timeout 10`); '
                       'a fixed sample of such cases is run with the full timeout and must end with exit status 124',
                       'stack exhaustion depends on the build profile (debug here) and thread stack size; the model has no stack',
                       'the collector send race (fixed in /repo) was schedule dependent: a regression may need several runs to show']
    chk.prepare(need_cli=True)
    if not chk.harness_ok or not chk.cli_ok:
        return
    rng = chk.rng
    quick = chk.tier == 'quick'
    sm = SiteMap()
    if sm.base is None:
        chk.notes.append('git history of /repo not available: panic lines are compared without mapping to the root commit')
    cases = (c07_cases.fixed_witness_cases() + c07_cases.planted_cases(rng, 320 if quick else 4000) + c07_cases.edge_cases(rng, chk.tier)
             + c07_cases.unparsable_cases(rng, chk.tier))
    for k, c in enumerate(cases):
        c['k'] = k
    corr = []          # good but model and implementation disagree
    by_site = {}
    # Spec.C07Spec.c07_item_rejection / c07_config_rejection, extracted, on every constructor of perr
    eclass = {row[0]: ('item' if row[1] == 'true' else 'config' if row[2] == 'true' else None) for row in vf.model(['(c07_error_classes)'])[0]}
    if sorted(k for k, v in eclass.items() if v) != ['EConstUnsupported', 'EGenericKeyForbiddenInTS', 'EGenericsForbiddenInGo', 'EPackageRequired', 'EUnsupportedSpecialType']:
        chk.violation('error-classes', {'classes': eclass}, 'Spec.C07Spec error classes are not the ones this check was written for', no_input=True)

    def generation_error(name, payload, ob, o, pred):
        """the run ended with a diagnostic where the model predicts a generation-stage Err: judged with the extracted classes.
        -> True when the case is settled (finding reproduced or violation), False to go on with the ordinary comparison"""
        kind = eclass.get(pred[3])
        if GEN_PREFIX not in o['stderr'] or ob['rc'] != 1:
            chk.violation(name, payload, f'the model predicts the generation error {pred[3]}; the binary ends with exit {ob["rc"]} without "{GEN_PREFIX.strip()}"')
            return True
        if kind == 'item':
            chk.count('generation_item_rejections')
            if 'lib.rs' in o['stderr']:
                chk.count('generation diagnostic names the file (recorded finding does not reproduce here: ' + GEN_FINDING + ')')
                return False
            fail(name, dict(payload, error=pred[3]), f'a source item is rejected at generation time ({pred[3]}): exit 1, but the diagnostic does not name the offending file', GEN_FINDING)
            return True
        if kind == 'config':
            chk.count('generation_config_rejections')
            return False
        chk.violation(name, payload, f'the model predicts a generation-stage error {pred[3]} that Spec.C07Spec classifies neither as item nor as configuration rejection', no_input=True)
        return True

    def no_longer(fid):
        """DESIGN §7 row 5: the implementation is fine where the model (of the unchanged tree) predicts the panic of a RECORDED finding"""
        if fid not in chk.findings:
            return False
        chk.count('recorded finding does not reproduce here: ' + fid)
        note = f'{fid}: the model predicts this panic but the implementation ran fine on at least one case (status: {chk.findings[fid].get("status")})'
        if note not in chk.notes:
            chk.notes.append(note)
        return True

    def fail(name, payload, what, fid=None):
        """a not-good observation: reproduction of an open finding, or a violation"""
        if fid is not None and chk.known(fid, payload):
            chk.count('reproduced ' + fid)
            return
        chk.violation(name, payload, what + (f' (site id {fid} is not an open finding)' if fid else ''))

    # ---------------- ASTs
    uniq = sorted(set(c['src'] for c in cases))
    asts = dict(zip(uniq, vf.impl([{'cmd': 'ast', 'src': s} for s in uniq])))
    for c in cases:
        a = asts[c['src']]
        c['ast'] = a.get('ok')
        c['tstrs'] = a.get('tstrs')
        c['ast_abort'] = 'abort' in a
        c['marker'] = '#[typeshare' in c['src']

    # ---------------- (1) front end through the library
    live = [c for c in cases if not c['ast_abort']]
    fr = front.run_front([(c['src'], c['tos']) for c in live])
    judged = vf.model([f'(c07 {c["ast"]} {c["tstrs"]} {Lst(c["tos"], S)})' for c in live if c['ast']])
    jmap = dict(zip([c['k'] for c in live if c['ast']], judged))
    for c, r in zip(live, fr):
        c['front_impl'], c['front_model'] = r['impl'], r['model']
    for c in cases:
        if c['ast_abort']:
            c['front_impl'] = front.impl_canon(vf.impl([{'cmd': 'parse', 'src': c['src'], 'target_os': c['tos']}])[0])
            c['front_model'] = None
    for c in cases:
        chk.evaluations += 1
        chk.count('front_' + c['kind'])
        if c['name'] != 'edge:baseline struct':
            chk.nontrivial.add(('single', c['src'], tuple(c['tos'])))
        impl, model = c['front_impl'], c['front_model']
        j = jmap.get(c['k'])
        fcomplete = None if j is None else j[0] == 'true'
        leaves = [] if j is None else [(vf.unS(x[0]), x[1] == 'true', x[2], x[3]) for x in j[1]]
        incomplete = [l for l in leaves if not l[1]]
        c['front_complete'] = fcomplete
        payload = {'stage': 'front (libdrive parse vs Model.Parse.parse_file)', 'case': c['name'], 'desc': c['desc'], 'source': c['src'][:4000], 'target_os': c['tos'],
                   'impl': impl if impl[0] != 'ok' else ('ok', None if impl[1] is None else {'errors': impl[1]['errors']}),
                   'model': model if model is None or model[0] != 'ok' else ('ok', None if model[1] is None else {'errors': model[1]['errors']}),
                   'front_complete': fcomplete, 'leaves': leaves}
        if c['k'] % 97 == 0:
            chk.sample({'case': c['name'], 'desc': c['desc'], 'source': c['src'][:300], 'front_complete': fcomplete, 'impl': impl[0], 'model': None if model is None else model[0:2] if model[0] == 'panic' else model[0]})
        if model is not None and model[0] == 'panic':
            # Props/C07.C07_front_end_never_panics_partial has no hypothesis: re-checked on the extracted code
            chk.violation(f'theorem-{c["k"]}', payload, f'the extracted model of parser::parse panics at {model[1]}: Props/C07 main theorem vs extraction', no_input=True)
        if fcomplete is not None:
            chk.count('front_complete' if fcomplete else 'front_with_items_to_diagnose')
            # C07_incomplete_leaf_is_error (hypothesis: the skip decision is the documented one - outright without --target-os)
            for ident, lc, kind, site in leaves:
                if kind == 'panic':
                    chk.violation(f'theorem-leaf-{c["k"]}', payload, f'the extracted item parser panics on {ident} at {site}: Props/C07.C07_leaf_never_panics vs extraction', no_input=True)
                elif not lc and kind != 'err' and not c['tos']:
                    chk.violation(f'theorem-leaf-{c["k"]}', payload, f'leaf_complete is false for {ident} but the extracted model answers {kind}: C07_incomplete_leaf_is_error vs extraction', no_input=True)
            # the same predicate judges the IMPLEMENTATION: every incomplete expected item must be reported as an error
            if incomplete and not c['tos'] and impl[0] == 'ok':
                nerr = 0 if impl[1] is None else len(impl[1]['errors'])
                chk.count('front_items_to_diagnose', len(incomplete))
                if nerr < len(incomplete):
                    chk.violation(f'undiagnosed-{c["k"]}', payload, f'{len(incomplete)} annotated item(s) with a container lacking its type arguments / an empty tuple struct or variant '
                                  f'({", ".join(l[0] for l in incomplete)}), but parser::parse reports only {nerr} error(s): not diagnosed')
        bad = impl[0] in ('panic', 'abort', 'hang')
        if not bad:
            if model is None:
                chk.count('front_model_unavailable (ast exhausted the harness stack)')
            elif front.same(impl, model):
                chk.count('front_agree_' + impl[0])
            elif model[0] == 'panic' and no_longer(finding_id(model[1], 'front', None)):
                pass
            else:
                corr.append(payload)
            continue
        chk.count('front_impl_' + impl[0])
        if impl[0] == 'hang':
            fail(f'front-{c["k"]}', payload, f'parser::parse does not return (no answer from the library for {impl[1]} s): it spins')
            continue
        if impl[0] == 'abort':
            if c['deep'] >= 30:
                fail(f'front-{c["k"]}', payload, 'the library aborts (stack exhausted)', 'C07-stack-overflow-deep-nesting')
            else:
                fail(f'front-{c["k"]}', payload, f'the library aborts (signal/exit {impl[1]}) on an input that is not deeply nested')
            continue
        if model is None or model[0] != 'panic':
            fail(f'front-{c["k"]}', payload, f'parser::parse panics ({impl[1]!r}) where the model predicts {None if model is None else model[0]}: the panic site is outside the model')
            continue
        site = model[1]
        by_site[site] = by_site.get(site, 0) + 1
        if site in MSG and not re.search(MSG[site], str(impl[1])):
            payload['note'] = f'panic message {impl[1]!r} does not look like site {site}'
            fail(f'front-{c["k"]}', payload, 'parser::parse panics with a message that does not fit the site the model predicts')
            continue
        fail(f'front-{c["k"]}', payload, f'parser::parse panics at {site}', finding_id(site, 'front', None))

    # ---------------- (2) the binary, single-file mode, against gen_src
    greq, gidx = [], []
    for c in cases:
        if c['ast']:
            for lk, l, ext, extra, cfg in LANGS:
                greq.append(f'(gen_src {l} {back.cfg_sx(cfg)} {c["ast"]} {c["tstrs"]} {Lst(c["tos"], S)})')
                gidx.append((c['k'], lk))
    gres = {key: back.model_canon(x) for key, x in zip(gidx, vf.model(greq))}
    jobs = []
    full_budget = {'n': 12 if quick else 60}
    for c in cases:
        preds = {}
        for lk, *_ in LANGS:
            if c['ast']:
                preds[lk] = predict(gres[(c['k'], lk)], c['front_model'], lk)
            elif c['ast_abort']:
                preds[lk] = None
            else:
                preds[lk] = ('diag', None, 'parse_err' if c['marker'] else 'none')
        c['preds'] = preds
        front_panic = any(p and p[0] == 'panic' and p[2] == 'front' for p in preds.values())     # the same hang whatever the language
        rot = [LANGS[(c['k'] + i) % len(LANGS)][0] for i in range(2 if quick else 3 if front_panic else len(LANGS))]
        # every language for which the model predicts a back-end panic or a generation error (Scala without a package fails on everything: rotation only)
        back_panic = [lk for lk, p in preds.items() if p and (p[0] in ('panic', 'overflow') and p[2] == 'back' or p[2] == 'err') and lk != 'scala-nopkg']
        chosen = []
        if c.get('expect'):      # witness of a finding fixed in /repo: every language configuration it speaks about
            rot = [lk for lk, *_ in LANGS if c.get('langs') is None or lk in c['langs']]
        for lk in rot + back_panic:
            if lk not in chosen:
                chosen.append(lk)
        for lk in chosen:
            p = preds[lk]
            full = False
            if p and p[0] == 'panic' and p[2] == 'front' and full_budget['n'] > 0 and c['k'] % 5 == 0:
                full_budget['n'] -= 1
                full = True
            jobs.append((c, lk, single_job(c['src'], lk, c['tos'], full=full)))
    with concurrent.futures.ThreadPoolExecutor(max_workers=vf.NPROC) as ex:
        outs = list(ex.map(lambda j: run_cli(j[2]), jobs))
    sampled = set()
    for (c, lk, job), o in zip(jobs, outs):
        chk.evaluations += 1
        chk.count('cli_single_runs')
        ob = observe(o, sm, names=())
        pred = c['preds'][lk]
        payload = {'stage': 'binary, single-file mode, vs gen_src', 'case': c['name'], 'desc': c['desc'], 'lang': lk, 'source': c['src'][:4000], 'target_os': c['tos'],
                   'args': job['args'], 'observed': ob, 'predicted': pred}
        if (c['kind'], ob['cat']) not in sampled and len(sampled) < 8:
            sampled.add((c['kind'], ob['cat']))
            chk.sample({'case': c['name'], 'lang': lk, 'source': c['src'][:300], 'observed': {k: ob[k] for k in ('cat', 'rc', 'site', 'thread')}, 'predicted': pred})
        name = f'cli-{c["k"]}-{lk}'
        if job['full']:
            chk.count('cli_runs_with_full_timeout')
            if ob['cat'] == 'panic' and ob['thread'] != 'main' and ob['rc'] != 124:
                corr.append(dict(payload, note='a worker-thread panic did not end in exit 124 under the full timeout'))
        if c.get('expect') and (c.get('langs') is None or lk in c['langs']):
            # fixed finding: the witness must now PASS exactly as recorded (not merely as the model predicts)
            chk.count('fixed_witness_runs')
            expected, regression = judge_fixed(c, lk, ob, o)
            if regression:
                chk.violation(name, dict(payload, fixed_finding=c['fixed'], expected=expected), regression)
                continue
        if good_cli(ob):
            chk.count('cli_' + ob['cat'])
            if ob['cat'] == 'diag' and pred and pred[2] in ('parse_err', 'parse_errors') and 'lib.rs' not in o['stderr']:
                chk.violation(name, payload, 'non-zero exit on a parse error, but the diagnostic does not name the offending file')
                continue
            if pred is None:
                continue
            if ob['cat'] == 'diag' and pred[2] == 'err' and generation_error(name, payload, ob, o, pred):
                continue
            if pred[0] in ('panic', 'overflow') and no_longer(finding_id(pred[1], pred[2], LANG[lk][1])):
                continue
            if pred[0] != ob['cat']:
                corr.append(payload)
            elif ob['cat'] == 'ok' and gres.get((c['k'], lk), ('', ''))[1] and not ob['outs']:
                corr.append(dict(payload, note='exit 0 but no output file although the model generates text'))
            continue
        chk.count('cli_bad_' + ob['cat'])
        if ob['cat'] == 'overflow':
            if pred and pred[1] == 'fuel':
                fail(name, payload, 'the binary aborts: stack exhausted in topsort dependency collection', 'C07-topsort-recursion')
            elif c['deep'] >= 30:        # the parser runs (and overflows) before anything the model could predict for later stages
                fail(name, payload, 'the binary aborts: stack exhausted on deeply nested input', 'C07-stack-overflow-deep-nesting')
            else:
                fail(name, payload, f'the binary aborts with a stack overflow; the model predicts {pred}')
            continue
        if ob['cat'] == 'panic':
            if pred is None or pred[0] != 'panic':
                fail(name, payload, f'the binary panics at {ob["site"]} where the model predicts {pred}: unmodelled panic site')
                continue
            site, stage = pred[1], pred[2]
            same_site = ob['site'] == site
            same_thread = (ob['thread'] == 'main') == (stage == 'back')
            same_exit = ob['rc'] == (101 if stage == 'back' else 124)
            if not (same_site and same_thread and same_exit):
                payload['note'] = f'model: {stage}-stage panic at {site}; observed: thread {ob["thread"]!r} at {ob["site"]}, exit {ob["rc"]}'
                fail(name, payload, 'the binary panics, but not where / how the model predicts')
                continue
            by_site[site + '@cli'] = by_site.get(site + '@cli', 0) + 1
            fail(name, payload, f'the binary panics at {site} ({"exit 101" if stage == "back" else "worker thread: hangs until killed"})', finding_id(site, stage, LANG[lk][1]))
            continue
        fail(name, payload, f'the binary ends with {ob["cat"]} (exit {ob["rc"]}) and no panic message; the model predicts {pred}')

    # ---------------- (2b) multi-file mode
    mcases = c07_cases.multi_cases(rng, chk.tier)
    # a sample of the single-file cases too (front-end triggers behave the same under -d), and every witness of a fixed finding
    extra = [c for c in cases if c['kind'] == 'plant' and not c['tos']][:40 if quick else 400]
    mall = mcases + [dict(c, name='multi:' + c['name'], kind='multi') for c in extra] + [dict(c, name='multi:' + c['name']) for c in cases if c.get('expect')]
    muniq = sorted(set(c['src'] for c in mall))
    masts = dict(zip(muniq, vf.impl([{'cmd': 'ast', 'src': s} for s in muniq])))
    mfront = front.run_front([(c['src'], []) for c in mall])
    mlib = vf.impl([{'cmd': 'parse', 'src': c['src'], 'multi_file': True, 'target_os': [], 'crate_name': 'mycrate'} for c in mall])
    # the extracted Model.MultiFile.parse_file_multi on the same AST
    mmod = dict(zip(muniq, [None] * len(muniq)))
    mreq = [s for s in muniq if 'ok' in masts[s]]
    for s, x in zip(mreq, vf.model([f'(c07_multi {masts[s]["ok"]} {masts[s]["tstrs"]} {S("mycrate")})' for s in mreq])):
        mmod[s] = x

    def lib_multi_obs(r):
        """libdrive `parse` (multi_file) -> ('ok', None | (counts.., sorted import pairs)) | ('err' | 'panic' | 'abort', ..)"""
        if 'panic' in r:
            return ('panic', r['panic'])
        if 'abort' in r:
            return ('abort', r['abort'])
        if 'err' in r:
            return ('err', r['err'])
        pd = r['ok']
        if pd is None:
            return ('ok', None)
        return ('ok', (len(pd['structs']), len(pd['enums']), len(pd['aliases']), len(pd['consts']), len(pd['errors']), sorted((a, b) for a, b in pd['imports'])))

    def model_multi_obs(x):
        if x is None:
            return None
        if x[0] == 'panic':
            return ('panic', x[1])
        if x[0] == 'err':
            return ('err', x[1] if isinstance(x[1], str) else x[1][0])
        if x[1] == 'none':
            return ('ok', None)
        v = x[1][1]
        return ('ok', tuple(int(n[1:]) for n in v[:5]) + (sorted((vf.unS(p[0]), vf.unS(p[1])) for p in v[5]),))

    mjobs = []
    for k, (c, fm, lib) in enumerate(zip(mall, mfront, mlib)):
        a = masts[c['src']]
        marker = '#[typeshare' in c['src']
        c.update(k=k, marker=marker, syn_ok='ok' in a, front_model=fm['model'], lib=lib_multi_obs(lib), multi_model=model_multi_obs(mmod[c['src']]))
        if c.get('expect'):
            chosen = [lk for lk, *_ in LANGS if c.get('langs') is None or lk in c['langs']]
        else:
            chosen = [[l for l in LANGS if l[0] != 'scala-nopkg'][(k + i) % 6][0] for i in range(1 if quick else 3)]
        for lk in chosen:
            mjobs.append((c, lk, multi_job(c['src'], lk)))
    gm = {}
    greq = [(c['k'], lk, f'(gen_src {LANG[lk][1]} {back.cfg_sx(LANG[lk][4])} {masts[c["src"]]["ok"]} {masts[c["src"]]["tstrs"]} ())') for c, lk, _ in mjobs if c['syn_ok']]
    for (k, lk, _), x in zip(greq, vf.model([g[2] for g in greq])):
        gm[(k, lk)] = back.model_canon(x)
    with concurrent.futures.ThreadPoolExecutor(max_workers=vf.NPROC) as ex:
        mouts = list(ex.map(lambda j: run_cli(j[2]), mjobs))
    seen_lib = set()
    for (c, lk, job), o in zip(mjobs, mouts):
        chk.evaluations += 1
        chk.count('cli_multi_runs')
        chk.nontrivial.add(('multi', c['src']))
        ob = observe(o, sm)
        # prediction: a panic site of the (multi-file) front-end model on the worker, else what the single-file pipeline predicts
        sites = set()
        mm = c['multi_model']
        if mm is not None and mm[0] == 'panic' and c['marker']:
            sites.add(mm[1])
        if c['front_model'][0] == 'panic' and c['marker']:
            sites.add(c['front_model'][1])
        g = gm.get((c['k'], lk))
        if sites:
            pred = ('panic', sorted(sites), 'front')
        elif not c['marker']:
            pred = ('ok', None, 'nothing to generate')
        elif not c['syn_ok']:
            pred = ('diag', None, 'parse_err')
        elif g[0] == 'none':
            pred = ('ok', None, 'nothing to generate')
        else:
            p = predict(g, c['front_model'], lk)
            pred = (p[0], [p[1]] if p[1] else None) + tuple(p[2:])
        payload = {'stage': 'binary, multi-file mode (-d)', 'case': c['name'], 'desc': c['desc'], 'lang': lk, 'source': c['src'][:4000], 'args': job['args'],
                   'observed': ob, 'predicted': pred, 'library_multi_file_parse': c['lib'], 'model_multi_file_parse': mm}
        name = f'multi-{c["k"]}-{lk}'
        # the library in multi-file mode against Model.MultiFile.parse_file_multi: outcome, item counts, import pairs (once per case)
        if c['k'] not in seen_lib:
            seen_lib.add(c['k'])
            chk.count('multi_front_cases')
            if mm is not None and mm[0] == 'panic':
                # Props/C07.C07_multi_file_front_end_total_partial has no hypothesis: re-checked on the extracted code
                chk.violation(f'theorem-multi-{c["k"]}', payload, f'the extracted model of parser::parse (multi_file) panics at {mm[1]}: Props/C07 vs extraction', no_input=True)
            if c['lib'][0] in ('panic', 'abort'):
                chk.count('multi_front_impl_' + c['lib'][0])
                if c['lib'][0] == 'abort' and c['deep'] >= 30:
                    fail(f'multi-front-{c["k"]}', payload, 'the library aborts (stack exhausted) in multi-file mode', 'C07-stack-overflow-deep-nesting')
                else:
                    fail(f'multi-front-{c["k"]}', payload, f'parser::parse (multi_file = true) panics: {c["lib"][1]!r}; the model predicts {mm}')
            elif mm is None:
                chk.count('multi_front_model_unavailable (no AST)')
            elif c['lib'] == mm:
                chk.count('multi_front_agree_' + ('none' if mm[1] is None else mm[0]))
                if mm[0] == 'ok' and mm[1] is not None and mm[1][5]:
                    chk.count('multi_front_cases_with_imports')
            else:
                corr.append(dict(payload, note='parser::parse (multi_file) and Model.MultiFile.parse_file_multi disagree'))
        if c['k'] % 61 == 0:
            chk.sample({'case': c['name'], 'lang': lk, 'source': c['src'][:200], 'observed': {k2: ob[k2] for k2 in ('cat', 'rc', 'site', 'thread')}, 'predicted': pred,
                        'library_multi_file_parse': c['lib'], 'model_multi_file_parse': mm})
        if c.get('expect'):
            chk.count('fixed_witness_runs_multi')
            expected, regression = judge_fixed(c, lk, ob, o)
            if regression:
                chk.violation(name, dict(payload, fixed_finding=c['fixed'], expected=expected), 'multi-file mode: ' + regression)
                continue
        if good_cli(ob):
            chk.count('cli_multi_' + ob['cat'])
            if ob['cat'] == 'diag' and pred[2] in ('parse_err', 'parse_errors') and 'lib.rs' not in o['stderr']:
                chk.violation(name, payload, 'multi-file mode: non-zero exit on a parse error, but the diagnostic does not name the offending file')
                continue
            if pred[0] in ('panic', 'overflow') and all(no_longer(finding_id(x, pred[2], LANG[lk][1])) for x in pred[1]):
                continue
            if ob['cat'] == 'diag' and pred[2] == 'err' and generation_error(name, payload, ob, o, pred):
                continue
            if pred[0] != ob['cat']:
                corr.append(payload)
            continue
        chk.count('cli_multi_bad_' + ob['cat'])
        if ob['cat'] == 'overflow' and pred[1] == ['fuel']:
            fail(name, payload, 'the binary aborts: stack exhausted in topsort dependency collection', 'C07-topsort-recursion')
        elif ob['cat'] == 'panic' and pred[0] == 'panic' and ob['site'] in pred[1]:
            stage = pred[2]
            if (ob['thread'] == 'main') != (stage == 'back') or ob['rc'] != (101 if stage == 'back' else 124):
                fail(name, payload, f'the binary panics at the predicted site but on thread {ob["thread"]!r} with exit {ob["rc"]}')
            else:
                by_site[ob['site'] + '@multi'] = by_site.get(ob['site'] + '@multi', 0) + 1
                fail(name, payload, f'the binary panics at {ob["site"]} in multi-file mode', finding_id(ob['site'], stage, LANG[lk][1]))
        else:
            fail(name, payload, f'multi-file mode: {ob["cat"]} at {ob["site"]} (exit {ob["rc"]}); predicted {pred}')

    # ---------------- (3) file-system / configuration edges, the send race
    fs_edges(chk, sm, fail, quick)
    send_race(chk, sm, fail, quick)
    shared_graphs(chk, sm, fail, quick)

    for s, n in sorted(by_site.items()):
        chk.count(f'site {s}', n)
    chk.count('correspondence_mismatches', len(corr))
    if corr and not [v for v in chk.violations if not v[2]]:
        chk.violation('correspondence', {'correspondence': 'Model (parse_file / gen_src / use replay) vs parser::parse and the typeshare binary', 'n': len(corr), 'cases': corr[:8]},
                      'model and implementation disagree on an edge input although neither panics', no_input=True)


GOOD = '#[typeshare]\npub struct S { a: u8 }\n'


def fs_edges(chk, sm, fail, quick):
    root = os.geteuid() == 0
    T = {'tree/c/src/a.rs': GOOD}
    O = ['--lang', 'typescript', '-o', '{d}/out.ts', '{d}/tree']
    jobs = [
        ('directory named x.rs', dict(T, **{'tree/c/src/x.rs': ('dir',)}), O, 'ok'),
        ('directory named x.rs with a file inside', dict(T, **{'tree/c/src/x.rs/y.rs': GOOD.replace(' S ', ' U ')}), O, 'ok'),
        ('dangling symlink', dict(T, **{'tree/c/src/l.rs': ('symlink', '{d}/nonexistent.rs')}), O, 'diag'),
        ('dangling symlink, --follow-links', dict(T, **{'tree/c/src/l.rs': ('symlink', '{d}/nonexistent.rs')}), ['-L'] + O, 'diag'),
        ('symlink loop', dict(T, **{'tree/c/src/loop': ('symlink', '{d}/tree')}), O, 'ok'),
        ('symlink loop, --follow-links', dict(T, **{'tree/c/src/loop': ('symlink', '{d}/tree')}), ['-L'] + O, 'diag'),
        ('empty directory', {'tree': ('dir',)}, O, 'diag'),
        ('empty directory, multi-file', {'tree': ('dir',)}, ['--lang', 'typescript', '-d', '{d}/out', '{d}/tree'], 'ok'),
        ('nonexistent directory argument', T, ['--lang', 'typescript', '-o', '{d}/out.ts', '{d}/nope'], 'diag'),
        ('nonexistent directory argument, multi-file', T, ['--lang', 'swift', '-d', '{d}/out', '{d}/nope'], 'diag'),
        ('one existing and one nonexistent directory', T, ['--lang', 'typescript', '-o', '{d}/out.ts', '{d}/tree', '{d}/nope'], 'diag'),
        ('a file as directory argument', T, ['--lang', 'typescript', '-o', '{d}/out.ts', '{d}/tree/c/src/a.rs'], 'ok'),
        ('output path in a nonexistent directory', T, ['--lang', 'typescript', '-o', '{d}/no/such/dir/out.ts', '{d}/tree'], 'ok'),
        ('output path is a directory', T, ['--lang', 'typescript', '-o', '{d}/tree', '{d}/tree'], 'diag'),
        ('output path below a file', T, ['--lang', 'typescript', '-o', '{d}/tree/c/src/a.rs/out.ts', '{d}/tree'], 'diag'),
        ('output folder nonexistent, multi-file', T, ['--lang', 'kotlin', '--java-package', 'p', '-d', '{d}/no/such', '{d}/tree'], 'ok'),
        ('output folder is a file, multi-file', T, ['--lang', 'typescript', '-d', '{d}/tree/c/src/a.rs', '{d}/tree'], 'diag'),
        ('multi-file: file outside any src directory', {'tree/c/a.rs': GOOD}, ['--lang', 'typescript', '-d', '{d}/out', '{d}/tree'], 'ok'),
        ('multi-file: file outside src with a panic trigger', {'tree/c/a.rs': '#[typeshare]\nstruct S();\n'}, ['--lang', 'typescript', '-d', '{d}/out', '{d}/tree'], 'ok'),
        ('multi-file: one inside one outside src', {'tree/c/a.rs': GOOD, 'tree/c/src/b.rs': GOOD.replace(' S ', ' U ')}, ['--lang', 'python', '-d', '{d}/out', '{d}/tree'], 'ok'),
        ('multi-file: src at the root', {'tree/src/a.rs': GOOD}, ['--lang', 'typescript', '-d', '{d}/out', '{d}/tree/src'], None),
        ('multi-file: two crates and an import', {'tree/c/src/a.rs': 'use other_crate::T;\n#[typeshare]\nstruct S { a: T }\n', 'tree/other_crate/src/lib.rs': GOOD.replace(' S ', ' T ')},
         ['--lang', 'go', '--go-package', 'p', '-d', '{d}/out', '{d}/tree'], 'ok'),
        ('multi-file: two crates and an import, scala', {'tree/c/src/a.rs': 'use other_crate::T;\n#[typeshare]\nstruct S { a: T }\n', 'tree/other_crate/src/lib.rs': GOOD.replace(' S ', ' T ')},
         ['--lang', 'scala', '--scala-package', 'p', '-d', '{d}/out', '{d}/tree'], 'ok'),
        ('multi-file: crate directory with a non-ASCII name', {'tree/étoile/src/a.rs': GOOD}, ['--lang', 'swift', '-d', '{d}/out', '{d}/tree'], 'ok'),
        ('multi-file: crate directory named __', {'tree/__/src/a.rs': GOOD}, ['--lang', 'swift', '-d', '{d}/out', '{d}/tree'], 'ok'),
        ('non-UTF-8 file content', {'tree/c/src/a.rs': b'#[typeshare]\nstruct S { a: u8 } // \xff\xfe\n'}, O, 'diag'),
        # a file cut off in the middle of a multi-byte character (seeded C07_g: a "better diagnostic" sliced the offending sequence by the
        # width its lead byte announces, past the end of the file: a panic in a walker thread, seen as a hang)
        ('file truncated inside a 3-byte character', {'tree/c/src/a.rs': b'#[typeshare]\nstruct S { a: u8 } // \xe2\x82'}, O, 'diag'),
        ('file truncated inside a 4-byte character', {'tree/c/src/a.rs': b'#[typeshare]\nstruct S { a: u8 } // \xf0\x9f'}, O, 'diag'),
        ('file ending in a lone lead byte', {'tree/c/src/a.rs': b'#[typeshare]\nstruct S { a: u8 }\n\xc3'}, O, 'diag'),
        ('file that is a lone lead byte', {'tree/c/src/a.rs': b'\xe2', 'tree/c/src/b.rs': GOOD}, O, 'diag'),
        ('non-UTF-8 file name', {b'tree/c/src/\xff\xfe.rs': GOOD}, O, 'ok'),
        ('non-UTF-8 file name, multi-file', {b'tree/c/src/\xff\xfe.rs': GOOD}, ['--lang', 'typescript', '-d', '{d}/out', '{d}/tree'], 'ok'),
        ('non-UTF-8 file name with a parse error', {b'tree/c/src/\xff\xfe.rs': '#[typeshare]\nstruct S { a: u64 }\n'}, O, 'diag'),
        ('.rs file that is empty', dict(T, **{'tree/c/src/e.rs': ''}), O, 'ok'),
        ('file in tools/typeshare is ignored', {'tree/tools/typeshare/src/a.rs': '#[typeshare]\nstruct S();\n', 'tree/c/src/a.rs': GOOD}, O, 'ok'),
        ('unknown language', T, ['--lang', 'cobol', '-o', '{d}/out.ts', '{d}/tree'], 'diag'),
        ('no language', T, ['-o', '{d}/out.ts', '{d}/tree'], None),
        ('no output option', T, ['--lang', 'typescript', '{d}/tree'], 'diag'),
        ('both -o and -d', T, ['--lang', 'typescript', '-o', '{d}/o.ts', '-d', '{d}/o', '{d}/tree'], 'diag'),
        ('no directory', T, ['--lang', 'typescript', '-o', '{d}/out.ts'], 'diag'),
        ('go without a package', T, ['--lang', 'go', '-o', '{d}/out.go', '{d}/tree'], 'diag'),
        ('malformed config file', dict(T, **{'cfg.toml': '[go\npackage = '}), ['-c', '{d}/cfg.toml'] + O, 'diag'),
        ('missing config file', T, ['-c', '{d}/nope.toml'] + O, 'diag'),
        ('config file is a directory', dict(T, **{'cfgdir': ('dir',)}), ['-c', '{d}/cfgdir'] + O, 'diag'),
        ('config with wrong value types', dict(T, **{'cfg.toml': '[swift]\nprefix = 3\n'}), ['-c', '{d}/cfg.toml'] + O, 'diag'),
        ('config with unknown keys', dict(T, **{'cfg.toml': '[cobol]\nx = 1\n[swift]\nnope = true\n'}), ['-c', '{d}/cfg.toml'] + O, None),
        ('config type_mappings: identity mapping', dict(T, **{'cfg.toml': '[swift.type_mappings]\n"Url" = "Url"\n[kotlin.type_mappings]\n"S" = "S"\n'}),
         ['-c', '{d}/cfg.toml', '--lang', 'swift', '-o', '{d}/out.swift', '{d}/tree'], 'ok'),
        ('config type_mappings: two-cycle', dict(T, **{'cfg.toml': '[typescript.type_mappings]\n"A" = "B"\n"B" = "A"\n'}), ['-c', '{d}/cfg.toml'] + O, 'ok'),
        ('config type_mappings: cycle in another language section, found by ancestor search',
         {'tree/c/src/a.rs': GOOD, 'typeshare.toml': '[kotlin.type_mappings]\n"X" = "Y"\n"Y" = "Z"\n"Z" = "X"\n[go]\npackage = "p"\n'},
         ['--lang', 'typescript', '-d', '{d}/out', '{d}/tree'], 'ok'),
        ('config type_mappings: chain', dict(T, **{'cfg.toml': '[typescript.type_mappings]\n"S" = "T1"\n"T1" = "T2"\n"T2" = "string"\n'}), ['-c', '{d}/cfg.toml'] + O, 'ok'),
        ('config type_mappings to odd strings', dict(T, **{'cfg.toml': '[typescript.type_mappings]\n"u8" = ""\n"S" = "\\n"\n'}), ['-c', '{d}/cfg.toml'] + O, 'ok'),
        ('--generate-config into a directory', T, ['-g', '-c', '{d}/tree', '--lang', 'typescript', '{d}/tree'], 'diag'),
        ('--generate-config', T, ['-g', '-c', '{d}/cfgout.toml', '--lang', 'typescript', '{d}/tree'], 'ok'),
        ('completions for an unknown shell', T, ['completions', 'cobolsh'], 'diag'),
        ('--target-os without a value list end', T, ['--lang', 'typescript', '-o', '{d}/out.ts', '{d}/tree', '--target-os', ''], None),
        ('swift prefix non-ASCII', T, ['--lang', 'swift', '--swift-prefix', 'é中', '-o', '{d}/out.swift', '{d}/tree'], 'ok'),
        ('kotlin module name and prefix odd', T, ['--lang', 'kotlin', '-j', '', '-m', '', '-k', '__', '-o', '{d}/out.kt', '{d}/tree'], 'ok'),
        ('scala package with dots', T, ['--lang', 'scala', '--scala-package', '..', '-o', '{d}/out.scala', '{d}/tree'], None),
        ('go package empty string', T, ['--lang', 'go', '--go-package', '', '-o', '{d}/out.go', '{d}/tree'], 'diag'),
        # the same source root more than once, roots inside one another (seeded C07_f: a filter of covered roots emptied the list)
        ('the same directory twice', T, ['--lang', 'typescript', '-o', '{d}/out.ts', '{d}/tree', '{d}/tree'], 'ok'),
        ('the same directory twice, multi-file', T, ['--lang', 'typescript', '-d', '{d}/out', '{d}/tree', '{d}/tree'], 'ok'),
        ('the same directory three times, spelled differently', T, ['--lang', 'typescript', '-o', '{d}/out.ts', '{d}/tree', '{d}/tree/', '{d}/tree/.'], 'ok'),
        ('a directory and its sub-directory', T, ['--lang', 'typescript', '-o', '{d}/out.ts', '{d}/tree', '{d}/tree/c'], 'ok'),
        ('a sub-directory and then its parent, multi-file', T, ['--lang', 'kotlin', '--java-package', 'p', '-d', '{d}/out', '{d}/tree/c/src', '{d}/tree'], 'ok'),
    ]
    # source-tree / output failures whose diagnostic must NAME the offending path (the property's second half)
    MUST_NAME = {'dangling symlink': 'l.rs', 'dangling symlink, --follow-links': 'l.rs', 'symlink loop, --follow-links': 'loop',
                 'nonexistent directory argument': 'nope', 'nonexistent directory argument, multi-file': 'nope',
                 'one existing and one nonexistent directory': 'nope', 'non-UTF-8 file content': 'a.rs', 'output path is a directory': 'tree',
                 'output path below a file': 'a.rs', 'output folder is a file, multi-file': 'a.rs'}
    for lang_, extra_ in (('kotlin', ['--java-package', 'p']), ('swift', []), ('scala', ['--scala-package', 'p']), ('go', ['--go-package', 'p']), ('python', [])):
        for mode_ in ('-o', '-d'):
            nm = f'dangling symlink, --follow-links, {lang_} {mode_}'
            jobs.append((nm, dict(T, **{'tree/c/src/l.rs': ('symlink', 'gone_away.rs')}), ['-L', '--lang', lang_] + extra_ + [mode_, '{d}/out_' + lang_, '{d}/tree'], 'diag'))
            MUST_NAME[nm] = 'l.rs'
    # go.rs:594: uppercase_acronyms whose PascalCase form has a different byte and char length
    go_cfg = '[go]\npackage = "p"\nuppercase_acronyms = ["aé"]\n'
    go_src = '#[typeshare]\nstruct AéX { a: u8 }\n'
    jobs.append(('go uppercase_acronyms with a non-ASCII acronym', {'tree/c/src/a.rs': go_src, 'cfg.toml': go_cfg}, ['-c', '{d}/cfg.toml', '--lang', 'go', '-o', '{d}/out.go', '{d}/tree'], 'model'))
    jobs.append(('go uppercase_acronyms, ASCII', {'tree/c/src/a.rs': '#[typeshare]\nstruct UserId { user_id: u8, id: u8 }\n', 'cfg.toml': '[go]\npackage = "p"\nuppercase_acronyms = ["id", "", "é"]\n'},
                 ['-c', '{d}/cfg.toml', '--lang', 'go', '-o', '{d}/out.go', '{d}/tree'], 'ok'))
    if root:
        chk.notes.append('running as root: chmod 000 does not make a file unreadable, the unreadable-file cases are skipped')
        chk.count('fs_unreadable_skipped_as_root', 2)
    else:
        jobs.append(('unreadable file among good ones', dict(T, **{'tree/c/src/b.rs': ('chmod000', GOOD.replace(' S ', ' U '))}), O, 'diag'))
        jobs.append(('unreadable file, multi-file', dict(T, **{'tree/c/src/b.rs': ('chmod000', GOOD.replace(' S ', ' U '))}), ['--lang', 'typescript', '-d', '{d}/out', '{d}/tree'], 'diag'))
    # model prediction for the acronym case
    a = vf.impl([{'cmd': 'ast', 'src': go_src}])[0]
    gm = back.model_canon(vf.model([f'(gen_src go {back.cfg_sx({"package": "p", "uppercase_acronyms": ["aé"]})} {a["ok"]} {a["tstrs"]} ())'])[0])
    with concurrent.futures.ThreadPoolExecutor(max_workers=vf.NPROC) as ex:
        outs = list(ex.map(lambda j: run_cli({'files': j[1], 'args': j[2]}), jobs))
    for (name, files, args, expect), o in zip(jobs, outs):
        chk.evaluations += 1
        chk.count('cli_fs_runs')
        chk.nontrivial.add(('fs', name))
        ob = observe(o, sm)
        payload = {'stage': 'binary, file-system / configuration edge', 'case': name, 'files': {str(k): (v if isinstance(v, str) else repr(v))[:300] for k, v in files.items()},
                   'args': args, 'observed': ob, 'expected': expect}
        if name.startswith('dangling') or name.startswith('go upper'):
            chk.sample({'case': name, 'args': args, 'observed': {k: ob[k] for k in ('cat', 'rc', 'site', 'thread')}})
        if expect == 'model':
            payload['predicted'] = gm
            if gm[0] == 'panic' and ob['cat'] == 'panic' and ob['site'] == gm[1] and ob['thread'] == 'main' and ob['rc'] == 101:
                fail('fs-' + name, payload, f'the binary panics at {gm[1]}', finding_id(gm[1], 'back', 'go'))
            elif good_cli(ob) and gm[0] != 'panic':
                chk.count('cli_fs_' + ob['cat'])
            elif good_cli(ob):
                chk.notes.append(f'{name}: the model predicts a panic at {gm[1]} but the binary ends with {ob["cat"]}')
                chk.count('cli_fs_model_mismatch')
            else:
                fail('fs-' + name, payload, f'{ob["cat"]} at {ob["site"]}; the model predicts {gm[0:2]}')
            continue
        if good_cli(ob) and ob['cat'] == 'diag' and name in MUST_NAME and MUST_NAME[name] not in o['stderr']:
            chk.violation('fs-' + name, payload, f'{name}: non-zero exit, but the diagnostic does not name the offending path ({MUST_NAME[name]})')
            continue
        if good_cli(ob):
            chk.count('cli_fs_' + ob['cat'])
            if ob['cat'] == 'diag' and name in MUST_NAME:
                chk.count('cli_fs_diag_names_path')
            if expect is not None and expect != ob['cat']:
                chk.count('cli_fs_other_than_expected')
                chk.notes.append(f'fs edge {name!r}: {ob["cat"]} (exit {ob["rc"]}) where {expect} was expected - not a C07 matter, recorded only')
            continue
        fid = stderr_finding_id(ob['site']) if ob['site'] else None
        fail('fs-' + name, payload, f'{name}: {ob["cat"]} at {ob["site"]} (exit {ob["rc"]})', fid)


def send_race(chk, sm, fail, quick):
    """~200 good files and one unparsable: the collector quits on the error while walkers still send (cli/src/parse.rs)"""
    files = {f'tree/c/src/f{i:03d}.rs': f'#[typeshare]\npub struct S{i} {{ a: u8, b: Vec<Option<String>> }}\n' * 3 for i in range(200)}
    files['tree/c/src/f100x.rs'] = '#[typeshare]\nstruct Broken { a: '
    n = 20 if quick else 120
    jobs = [{'files': files, 'args': ['--lang', 'typescript', '-o', '{d}/out.ts', '{d}/tree']} for _ in range(n)]
    with concurrent.futures.ThreadPoolExecutor(max_workers=4) as ex:
        outs = list(ex.map(run_cli, jobs))
    hits = 0
    for i, o in enumerate(outs):
        chk.evaluations += 1
        chk.count('cli_race_runs')
        ob = observe(o, sm)
        payload = {'stage': 'binary, one unparsable file among 200 good ones', 'run': i, 'args': jobs[i]['args'], 'observed': ob}
        if good_cli(ob):
            chk.count('cli_race_' + ob['cat'])
            if ob['cat'] != 'diag' or 'f100x.rs' not in o['stderr']:
                chk.violation(f'race-{i}', payload, 'one file does not parse, but the run does not end with a diagnostic naming it')
            continue
        hits += 1
        # C07-parse.rs:133-send-race is fixed in /repo (a send on the closed channel no longer unwraps): any panic / hang here is a regression.
        # (the main thread's join of a panicked walker, ignore-*/src/walk.rs `handle.join().unwrap()`, is a consequence, not a site of its own)
        sites = sorted(set(p[1] for p in ob['panics'] if not re.search(r'/ignore-[^/]*/src/walk\.rs:', p[1])))
        fail(f'race-{i}', payload, f'{ob["cat"]} at {sites} (exit {ob["rc"]}) with one unparsable file among 200 good ones')
    chk.nontrivial.add(('race', 'one unparsable among 200'))
    chk.count('cli_race_panics', hits)
    chk.sample({'case': 'send race', 'runs': n, 'panicked_or_hung': hits})
    chk.notes.append(f'collector send race (fixed finding C07-parse.rs:133-send-race): {n - hits} of {n} runs ended with the diagnostic naming the unparsable file')


def shared_graphs(chk, sm, fail, quick):
    """valid programs whose type graph has heavy sharing (ladders of diamonds, full layers, long chains, a cycle with a tail):
    the number of PATHS is exponential in the depth, the number of items is small, so a run must end at once;
    a dependency walk that enumerates paths (or loops on a cycle) shows up as a timeout = the property's "spins"."""
    def ladder(n, fan=2):
        return ''.join('#[typeshare]\npub struct L%02d { %s }\n' % (i, ', '.join(f'pub f{k}: L{i + 1:02d}' for k in range(fan))) for i in range(n)) + \
            f'#[typeshare]\npub struct L{n:02d} {{ pub x: u8 }}\n'

    def layers(depth, width):
        src = ''
        for d in range(depth):
            for w in range(width):
                body = ', '.join(f'pub f{k}: N{d + 1}x{k}' for k in range(width)) if d + 1 < depth else 'pub x: u8'
                src += f'#[typeshare]\npub struct N{d}x{w} {{ {body} }}\n'
        return src

    def mixed(n):
        src = ''
        for i in range(n):
            nxt = f'M{i + 1:02d}'
            src += ['#[typeshare]\npub struct M%02d { pub a: Vec<%s>, pub b: Option<%s> }\n', '#[typeshare]\npub type M%02d = HashMap<String, Vec<%s>>;\n// %s\n',
                    '#[typeshare]\n#[serde(tag = "t", content = "c")]\npub enum M%02d { A(%s), B { x: %s } }\n'][i % 3] % (i, nxt, nxt)
        return src + f'#[typeshare]\npub struct M{n:02d} {{ pub x: u8 }}\n'

    def cycle_tail(n):
        return ladder(n) .replace(f'pub struct L{n:02d} {{ pub x: u8 }}', f'pub struct L{n:02d} {{ pub back: Option<Box<L00>>, pub t: Tail }}') + '#[typeshare]\npub struct Tail { pub x: u8 }\n'
    shapes = [('ladder of 40 diamonds', ladder(40)), ('ladder of 24, fan 3', ladder(24, 3)), ('6 full layers of width 6', layers(6, 6)),
              ('mixed containers/aliases/enums chain of 36', mixed(36)), ('ladder of 30 closed into a cycle, with a tail', cycle_tail(30))]
    if not quick:
        shapes += [('ladder of 60 diamonds', ladder(60)), ('10 full layers of width 5', layers(10, 5)), ('chain of 90', mixed(90))]
    jobs, meta = [], []
    for name, src in shapes:
        for lk in (('typescript', 'go', 'swift') if quick else ('typescript', 'kotlin', 'swift', 'scala', 'go', 'python')):
            _, l, ext, extra, _ = LANG[lk]
            for multi in (False, True):
                files = {'tree/mycrate/src/lib.rs': src}
                args = ['--lang', l] + (['-d', '{d}/out'] if multi else ['-o', '{d}/out.' + ext]) + extra + ['{d}/tree']
                jobs.append({'files': files, 'args': args, 'full': True})
                meta.append((name, lk, multi, src))
    with concurrent.futures.ThreadPoolExecutor(max_workers=vf.NPROC) as ex:
        outs = list(ex.map(run_cli, jobs))
    for (name, lk, multi, src), o in zip(meta, outs):
        chk.evaluations += 1
        chk.count('cli_shared_graph_runs')
        chk.nontrivial.add(('graph', name, lk, multi))
        ob = observe(o, sm)
        payload = {'stage': 'binary, valid program with a heavily shared type graph', 'case': name, 'lang': lk, 'multi_file': multi, 'source': src,
                   'args': jobs[0]['args'], 'observed': ob, 'wall_s': o['wall']}
        if ob['cat'] == 'ok' and o['wall'] < 5:
            chk.count('cli_shared_graph_ok')
        elif ob['cat'] == 'hang' or o['wall'] >= 5:
            chk.violation(f'graph-{name}-{lk}-{int(multi)}', payload, f'{name} ({lk}): a valid program of {src.count("#[typeshare]")} items does not finish ({o["wall"]} s, exit {ob["rc"]}): the tool spins')
        elif good_cli(ob):
            chk.count('cli_shared_graph_' + ob['cat'])
        else:
            fid = stderr_finding_id(ob['site']) if ob['site'] else None
            fail(f'graph-{name}-{lk}-{int(multi)}', payload, f'{name}: {ob["cat"]} at {ob["site"]} (exit {ob["rc"]})', fid)
    chk.sample({'case': 'shared type graphs', 'shapes': [n for n, _ in shapes], 'runs': len(jobs)})


def replay(chk, path):
    chk.prepare(need_cli=True)
    d = json.load(open(path))
    sm = SiteMap()
    if 'source' in d:
        tos = d.get('target_os') or []
        r = front.run_front([(d['source'], tos)])[0]
        print('library parser::parse :', str(r['impl'])[:600])
        print('model  parse_file     :', str(r['model'])[:600])
        if r['ast']:
            a = vf.impl([{'cmd': 'ast', 'src': d['source']}])[0]
            print('front_complete, leaves:', vf.model([f'(c07 {a["ok"]} {a["tstrs"]} {Lst(tos, S)})'])[0])
            if '-d' in (d.get('args') or []):
                print('library parse (multi)  :', str(vf.impl([{'cmd': 'parse', 'src': d['source'], 'multi_file': True, 'target_os': [], 'crate_name': 'mycrate'}])[0])[:600])
                print('model parse_file_multi :', str(vf.model([f'(c07_multi {a["ok"]} {a["tstrs"]} {S("mycrate")})'])[0])[:600])
            if d.get('lang'):
                lk = d['lang']
                print('model  gen_src        :', str(back.model_canon(vf.model([f'(gen_src {LANG[lk][1]} {back.cfg_sx(LANG[lk][4])} {a["ok"]} {a["tstrs"]} {Lst(tos, S)})'])[0]))[:300])
    if 'args' in d:
        if 'files' in d:
            print('file-system cases are replayed by re-running the check (their trees are built by checks/c07.py fs_edges)')
            return 0
        files = {'tree/mycrate/src/lib.rs' if '-d' in d['args'] else 'tree/src/lib.rs': d['source']} if 'source' in d else {}
        o = run_cli({'files': files, 'args': d['args'], 'full': True})
        ob = observe(o, sm)
        print('binary                :', {k: ob[k] for k in ('cat', 'rc', 'site', 'thread', 'msg', 'outs')})
        print(ob['stderr_tail'])
    return 0
