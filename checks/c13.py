"""C13 - --target-os filtering follows the documented accept/reject rule at every level.
Proof: Props/C13.v (accept_target_os = the structural rule, any depth/arity).
Correspondence: cfg expressions enumerated exhaustively to depth 1 (quick) / 2 (thorough) and
sampled to depth 5, x every target list over {a,b,c,d}, attached at the five levels (file inner
attribute, item, variant, field, struct-variant field) and run through the real parser::parse;
presence of the guarded element is compared with the model's decision and with the rule."""
import itertools, json
import vf
from vf import S, Lst, sx_get, sx_opt, dump_sx, parse_sx

OSES = ['a', 'b', 'c']
LEAVES = [('os', 'a'), ('os', 'b'), ('os', 'c'), ('feature', 'f'), ('word', 'unix')]
OPS = ['any', 'all', 'not']
LEVELS = ['file', 'struct', 'enum', 'alias', 'const', 'variant', 'field', 'vfield']


def show(e):
    if e[0] == 'os':
        return f'target_os = "{e[1]}"'
    if e[0] == 'feature':
        return f'feature = "{e[1]}"'
    if e[0] == 'word':
        return e[1]
    if e[0] == 'osbad':
        return 'target_os = 1'
    if e[0] == 'raw':
        return e[1]
    return f'{e[0]}({", ".join(show(x) for x in e[1])})'


def exprs_depth(d):
    """all expressions of depth <= d with arity <= 2"""
    cur = list(LEAVES)
    for _ in range(d):
        nxt = list(LEAVES)
        for op in OPS:
            for x in cur:
                nxt.append((op, [x]))
            for x, y in itertools.product(cur, repeat=2):
                nxt.append((op, [x, y]))
        cur = nxt
    return cur


def rand_expr(rng, depth):
    if depth == 0 or rng.random() < 0.25:
        r = rng.random()
        if r < 0.03:
            return ('osbad',)
        if r < 0.06:
            return ('raw', 'version("1.2")')
        return rng.choice(LEAVES + [('os', 'd'), ('os', 'a')])
    op = rng.choice(OPS)
    n = rng.choice([0, 1, 1, 2, 2, 3])
    return (op, [rand_expr(rng, depth - 1) for _ in range(n)])


def in_module(rng, text):
    """an inline module (sometimes two) with cfg attributes OF ITS OWN around the item: a module is none of the property's levels and
    typeshare does not read its attributes, so they must neither hide the item nor pool with the item's own predicates
    (seeded C13_e: the enclosing modules' cfg attributes prepended to the item's)"""
    if rng.random() >= 0.25:
        return text
    def attr():
        return f'#[cfg({show(rand_expr(rng, rng.randint(0, 2)))})]\n'
    body = f'{attr()}mod inner {{\n{text}}}\n'
    if rng.random() < 0.3:
        body = f'{attr()}#[allow(dead_code)]\nmod outer {{\n{body}}}\n'
    return body


def source(level, cfgs, rng):
    return _source(level, cfgs, rng) if level == 'file' else in_module(rng, _source(level, cfgs, rng))


def _source(level, cfgs, rng):
    guard = ''.join(f'#[cfg({show(e)})] ' for e in cfgs)
    noise = rng.choice(['', '/// doc\n', '#[derive(Debug)] ', '#[serde(rename = "x")] '])
    if level == 'file':
        inner = ''.join(f'#![cfg({show(e)})]\n' for e in cfgs)
        return inner + '#[typeshare]\nstruct S { a: u8 }\n'
    if level == 'struct':
        return f'#[typeshare]\n{noise}{guard}\nstruct S {{ a: u8 }}\n'
    if level == 'enum':
        return f'{guard}\n#[typeshare]\nenum S {{ A }}\n'
    if level == 'alias':
        return f'#[typeshare]\n{guard}\ntype S = u8;\n'
    if level == 'const':
        return f'#[typeshare]\n{guard}\nconst S: u8 = 1;\n'
    if level == 'variant':
        return f'#[typeshare]\nenum E {{ A, {noise}{guard}S }}\n'
    if level == 'field':
        return f'#[typeshare]\nstruct T {{ a: u8, {noise}{guard}S: u8 }}\n'
    if level == 'vfield':
        return f'#[typeshare]\n#[serde(tag = "t", content = "c")]\nenum E {{ V {{ a: u8, {guard}S: u8 }} }}\n'
    raise ValueError(level)


def present(level, r):
    """is the guarded element (named S) present in the dump of ParsedData?"""
    if 'ok' not in r:
        return None
    pd = r['ok']
    if pd is None:
        return False
    if pd['errors']:
        return None
    if level in ('file', 'struct'):
        return any(s['id']['original'] == 'S' for s in pd['structs'])
    if level == 'enum':
        return any(s['id']['original'] == 'S' for s in pd['enums'])
    if level == 'alias':
        return any(s['id']['original'] == 'S' for s in pd['aliases'])
    if level == 'const':
        return any(s['id']['original'] == 'S' for s in pd['consts'])
    if level == 'variant':
        return any(v['id']['original'] == 'S' for e in pd['enums'] for v in e['variants'])
    if level == 'field':
        return any(f['id']['original'] == 'S' for s in pd['structs'] for f in s['fields'])
    if level == 'vfield':
        return any(f['id']['original'] == 'S' for e in pd['enums'] for v in e['variants'] if v['k'] == 'struct' for f in v['fields'])


def guarded_attrs(level, ast):
    """the attribute list typeshare consults for the guarded element, from the syn AST"""
    _, fattrs, items, _paths, _marker = ast
    if level == 'file':
        return fattrs
    it = items[0]
    while it[0] == 'nest':      # inline modules: the converter keeps the nesting, not the modules' attributes (typeshare does not read them)
        it = it[1][0]
    if level in ('struct', 'enum', 'alias', 'const'):
        return it[1]
    if level == 'variant':
        return [v for v in it[4] if v[2] == S('S')][0][1]
    if level == 'field':
        return [f for f in it[4][1] if f[2] == ['some', S('S')]][0][1]
    if level == 'vfield':
        return [f for f in it[4][0][3][1] if f[2] == ['some', S('S')]][0][1]


def run(chk):
    chk.rule = ('cfg predicates over any/all/not with leaves target_os=a|b|c, feature="f", unix: all of depth<=1 (quick) or depth<=2 (thorough, item '
                'level) with arity<=2, plus seeded random ones to depth 5 with arity 0..3, 1-3 cfg attributes, odd leaves (target_os = 1, '
                'version("1.2")); x target lists = all 16 subsets of {a,b,c,d} (exhaustive part) or random lists with duplicates; attached at '
                '8 positions (file, struct, enum, alias, const, variant, field, struct-variant field); non-trivial = distinct (predicates, '
                'targets, level) with a non-empty target list and at least one target_os leaf, inside the theorem domain')
    chk.assumptions = ['syn is not modelled: the model receives the attribute AST produced by harness/libdrive/src/ast.rs (syn) from the same source text']
    chk.prepare()
    if not chk.harness_ok:
        return
    rng = chk.rng
    subsets = [list(c) for n in range(0, 5) for c in itertools.combinations('abcd', n)]
    cases = []  # (level, cfgs, T)
    base = exprs_depth(1)
    for i, e in enumerate(base):
        for T in subsets:
            cases.append((LEVELS[(i + len(T)) % len(LEVELS)], [e], T))
    if chk.tier == 'thorough':
        for i, e in enumerate(exprs_depth(2)):
            for T in subsets:
                cases.append((LEVELS[(i + len(T)) % len(LEVELS)], [e], T))
    nrand = 4000 if chk.tier == 'quick' else 60000
    for i in range(nrand):
        k = rng.choice([1, 1, 1, 2, 3])
        cfgs = [rand_expr(rng, rng.randint(1, 5)) for _ in range(k)]
        T = [rng.choice('abcd') for _ in range(rng.choice([0, 1, 1, 2, 3, 5]))]
        cases.append((rng.choice(LEVELS), cfgs, T))
    srcs = [source(lv, cfgs, rng) for lv, cfgs, T in cases]
    # implementation: real parser::parse with ParseContext.target_os
    ires = vf.impl([{'cmd': 'parse', 'src': s, 'target_os': T} for s, (lv, cfgs, T) in zip(srcs, cases)])
    # the syn AST of the same text (one per distinct source)
    uniq = sorted(set(srcs))
    asts = dict(zip(uniq, vf.impl([{'cmd': 'ast', 'src': s} for s in uniq])))
    mreq = []
    for s, (lv, cfgs, T) in zip(srcs, cases):
        ast = parse_sx(asts[s]['ok'])
        mreq.append(f'(c13 {dump_sx(guarded_attrs(lv, ast))} {Lst(T, S)})')
    mres = vf.model(mreq)
    corr_broken = []
    for (lv, cfgs, T), s, i, m in zip(cases, srcs, ires, mres):
        chk.evaluations += 1
        chk.count('level_' + lv)
        pres = present(lv, i)
        mod = sx_opt(sx_get(m, 'model'), lambda b: b == 'true')
        rule = sx_get(m, 'rule') == 'true'
        dom = sx_get(m, 'dom') == 'true'
        payload = {'level': lv, 'cfg': [show(e) for e in cfgs], 'target_os': T, 'source': s, 'present_impl': pres, 'model': mod, 'rule': rule, 'in_domain': dom}
        if pres is None:
            chk.violation(f'{chk.evaluations}', payload, 'parse failed or panicked on a cfg-guarded program')
            continue
        has_os = any('target_os = "' in show(e) for e in cfgs)
        if dom and T and has_os:
            chk.nontrivial.add((lv, tuple(show(e) for e in cfgs), tuple(T)))
        chk.count('accepted' if pres else 'rejected')
        if dom and pres != rule:
            chk.violation(f'{chk.evaluations}', payload, f'{lv} guarded by {payload["cfg"]} is {"kept" if pres else "dropped"} for --target-os {T}, the documented rule says {"keep" if rule else "drop"}')
        elif pres != mod:
            if dom:
                corr_broken.append(payload)
            else:
                chk.count('outside_domain_model_differs')
                corr_broken.append(payload)
        if not dom:
            chk.count('outside_domain')
        if chk.evaluations % 997 == 0:
            chk.sample(payload)
    if corr_broken and not [v for v in chk.violations if not v[2]]:
        chk.violation('correspondence', {'correspondence': 'Model.TargetOs.accept_target_os vs parser::parse presence', 'cases': corr_broken[:10]},
                      'model and implementation disagree although the rule is not violated on any input in the domain', no_input=True)


def replay(chk, path):
    chk.prepare()
    d = json.load(open(path))
    r = vf.impl([{'cmd': 'parse', 'src': d['source'], 'target_os': d['target_os']}])[0]
    print('present (impl):', present(d['level'], r), ' recorded:', d)
    return 0
