"""C02 - enum wire encoding (variant names, tag and content keys) equals serde's.
Proof: Props/C02.v (front end: parse_enum against Spec/Serde.v; back ends: the Decl observation of
the six `*_decl_of`).  Correspondence: seeded programs with ONE enum each (unit or adjacently
tagged, 0-6 variants, unit / newtype / struct variants mixed, generics, recursion, per-variant
renames, the 8 rename_all rules / none / an unknown word, tag and content keys drawn from
identifiers incl. target-language keywords, skipped variants, attribute spelling shuffled) are run
through the REAL generators (libdrive `generate`, all six languages) and through the extracted
model (`decls_src`).  The observation - per enum-like definition: (kind, [(case name, wire name,
payload kind)], every spelled tag key, every spelled content key) - is taken from the real text by
lib/extract.py and from the model's Decl values; the two are compared, and the implementation's
observation is judged by the extracted good_C02 against the expectation the extracted Spec computes
from the source AST (c02_expect_src: serde's reading).  The spec's rename part is compared with the
real serde_derive case.rs (`serde_case`) on every (rule, identifier) pair a case uses."""
import json, re
import vf, progs, back, extract
from vf import S, B, Lst, unS, sx_opt

LANGS = list(extract.LANGS)
RULES = progs.RULES
UNKNOWN_RULES = ['Camelcase', 'snake-case', 'lower']
# UpperCamelCase identifiers [A-Z][A-Za-z0-9]*: ordinary, with digits, all caps (C16's class), twins that
# differ by case only
IDENTS = ['A', 'B', 'Red', 'GreenLight', 'Unit', 'Ready', 'Failed', 'Ok2', 'V1', 'Http2', 'AddressLine1', 'Pending', 'Done', 'Empty', 'Leaf',
          'Branch', 'UserId', 'IpV4', 'X', 'Abc1Def', 'FooBar', 'Node', 'Type', 'Class', 'Default', 'None', 'Self2', 'Object', 'Case', 'Init']
CAPS = ['URL', 'ID', 'TOTP', 'AB1', 'HTTP2', 'IO', 'X1']
ODD_IDENTS = ['_2fa', '_3dSecure', '_1st', 'lower', 'snake_case_v', '_Lead', 'Trail_', 'X_y', 'camelCase']
ODD_RENAMES = {'_2fa': '2fa', '_3dSecure': '3dSecure', '_1st': '1st'}
TWINS = [('URL', 'Url'), ('FooBar', 'Foobar'), ('AB1', 'Ab1'), ('UserId', 'UserID'), ('Http2', 'HTTP2'), ('Id', 'ID')]
KEY_WORDS = ['type', 'kind', 't', 'c', 'content', 'tag', 'data', 'value', 'class', 'func', 'case', 'default', 'in', 'is', 'object', 'val', 'var',
             'package', 'import', 'interface', 'def', 'from', 'pass', 'self', 'struct', 'go', 'range', 'let', 'enum', 'Type', 'myTag', 'my_tag',
             '_x', 'k1', 'variant', 'payload', 'body', 'inner', 'fields', 'name',
             # camel / Pascal keys that contain a configured Go acronym in its word form (seeded C02_c: the acronym pass applied to the KEY)
             'eventId', 'callbackUrl', 'clientIp', 'Id', 'UrlKind', 'ipTag']
RENAME_WORDS = ['fooBar', 'foo_bar', 'foo-bar', 'FooBar', 'FOO_BAR', 'type', 'class', 'default', 'a', 'A', 'x-1', '_u', 'kebab-case-name', 'v2',
                'Http2', 'http_2', 'URL', 'url']
CFGS = {
    'typescript': [{}],
    'kotlin': [{'package': 'com.p'}, {'package': 'com.p', 'prefix': 'OP'}],
    'swift': [{}, {'prefix': 'OP'}],
    'scala': [{'package': 'com.p'}],
    'go': [{'package': 'p'}, {'package': 'p'}, {'package': 'p', 'uppercase_acronyms': ['ID', 'URL', 'IP']}],
    'python': [{}],
}
ALPHA = 'abcdefghijklmnopqrstuvwxyz'


class Gen:
    def __init__(self, rng):
        self.rng = rng
        self.pg = progs.ProgGen(rng, progs.Profile(allow_unit_type=False, p_unannotated=0.0, p_rename_type=0.15, p_generic=0.0,
                                                   kinds=['struct', 'struct', 'alias', 'unit_struct'], n_items=(0, 2)))

    def ident(self):
        r = self.rng
        c = r.random()
        if c < 0.6:
            return r.choice(IDENTS)
        if c < 0.72:
            return r.choice(CAPS)
        if c < 0.76:
            # identifiers OUTSIDE the theorem's domain (not UpperCamelCase): nothing is judged there, but model and real code must still
            # agree on them (seeded C02_d: Swift's raw-value decision for `_2fa` renamed to "2fa"; fix 31 of /repo: a String-backed enum
            # prints `case _1st` for `_1st` - `_` in front of the digit-initial camelCased name, no raw value, wire name `_1st` - where the
            # unrepaired code printed `case 1st = "_1st"`: the correspondence between model and real output reports that tree)
            return r.choice(ODD_IDENTS)
        n = r.randint(0, 7)
        return r.choice(ALPHA).upper() + ''.join(r.choice(ALPHA + ALPHA.upper() + '0123456789') for _ in range(n))

    def key(self):
        r = self.rng
        if r.random() < 0.7:
            return r.choice(KEY_WORDS)
        while True:
            k = r.choice(ALPHA + ALPHA.upper() + '_') + ''.join(r.choice(ALPHA + ALPHA.upper() + '0123456789_') for _ in range(r.randint(1, 6)))
            # a key made of underscores only has an EMPTY camel/Pascal form: Go then prints a struct field without a name and Swift a case
            # without a name (ill-formed output - C10's subject, outside its identifier domain; before /repo fix eec6b54 these panicked);
            # the json tag / CodingKey still carries the key, so C02 has nothing to judge there and the text cannot be read back
            if k.strip('_'):
                return k

    def rename(self):
        r = self.rng
        if r.random() < 0.4:
            return r.choice(RENAME_WORDS)
        while True:
            k = self.pg.key()
            # a rename made of underscores / dashes only has an empty re-cased form: Python then prints a Types member without a name
            # (ill-formed output: the recorded C10 finding C10-python-digit-name, "or be empty"); the wire value is still carried, so
            # C02 has nothing to judge and the text cannot be read back
            if k.strip('_-'):
                return k

    def program(self):
        r = self.rng
        prog = self.pg.program()
        others = [o for o in prog.items]
        it = progs.Item()
        it.ident = r.choice(['E', 'Shape', 'Event', 'MyEnum', 'Status', 'UrlKind'])
        while any(o.ident == it.ident for o in others):
            it.ident += 'X'
        alg = r.random() < 0.65
        it.kind = 'alg_enum' if alg else 'unit_enum'
        c = r.random()
        it.rename_all = r.choice(RULES) if c < 0.55 else (r.choice(UNKNOWN_RULES) if c < 0.6 else None)
        if r.random() < 0.15:
            it.rename = it.ident + 'Renamed'
        if alg:
            it.tag = self.key()
            it.content = self.key()
            while it.content == it.tag:
                it.content = self.key()
            if r.random() < 0.3:
                it.generics = r.sample(['T', 'U'], r.choice([1, 1, 2]))
        n = r.choice([0, 1, 1, 2, 2, 3, 3, 4, 5, 6])
        names = []
        while len(names) < n:
            if r.random() < 0.12 and len(names) + 2 <= n:
                a, b = r.choice(TWINS)
                cand = [a, b] if r.random() < 0.5 else [b, a]
            else:
                cand = [self.ident()]
            for x in cand:
                if x not in names and x not in progs.RUST_KEYWORDS:
                    names.append(x)
        used_generics = set()
        for nm in names[:n]:
            v = progs.Variant()
            v.ident = nm
            if r.random() < 0.3:
                v.rename = self.rename()
            if nm in ODD_RENAMES and r.random() < 0.7:
                v.rename = ODD_RENAMES[nm]
            if r.random() < 0.06:
                v.skip = r.choice(['serde', 'typeshare'])
            v.docs = self.pg.docs()
            if alg:
                v.kind = r.choice(['unit', 'tuple', 'tuple', 'struct'])
                if v.kind == 'tuple':
                    c = r.random()
                    if c < 0.12 and not it.generics:
                        v.ty = r.choice([('wrap', 'Box', ('user', it.ident, [])), ('vec', ('user', it.ident, []), ''),
                                         ('option', ('wrap', 'Box', ('user', it.ident, [])))])
                    elif it.generics and c < 0.5:
                        g = r.choice(it.generics)
                        used_generics.add(g)
                        v.ty = r.choice([('param', g), ('vec', ('param', g), ''), ('option', ('param', g))])
                    else:
                        v.ty = self.pg.ty(r.randint(0, 2), others, [])
                elif v.kind == 'struct':
                    v.rename_all = self.pg.rule()
                    v.fields = self.pg.fields(others, [], 1, 3)
                    if not v.fields:
                        v.fields = [self.pg.field('value', others, [])]
                    if it.generics and r.random() < 0.5:
                        g = r.choice(it.generics)
                        used_generics.add(g)
                        f = self.pg.field('g_' + g.lower(), others, [])
                        f.ty = ('param', g)
                        f.skip = None
                        v.fields.append(f)
                    if r.random() < 0.1 and not it.generics:
                        f = self.pg.field('next', others, [])
                        f.ty = ('option', ('wrap', 'Box', ('user', it.ident, [])))
                        f.skip = None
                        v.fields.append(f)
            it.variants.append(v)
        if alg:
            live = [v for v in it.variants if v.skip is None]
            if not any(v.kind != 'unit' for v in live) and r.random() < 0.9:
                v = progs.Variant()
                v.ident = 'Last'
                while any(x.ident == v.ident for x in it.variants):
                    v.ident += 'X'
                v.kind = 'tuple'
                v.ty = progs.t_prim('String')
                it.variants.append(v)
            it.generics = [g for g in it.generics if g in used_generics]
        if r.random() < 0.2:
            it.nest = r.choice([['mod inner'], ['mod a', 'mod b'], ['fn body']])
        prog.items.insert(r.randint(0, len(prog.items)), it)
        return prog, it


def witness(ident, kind, variants, rename_all=None, tag=None, content=None):
    """variants: list of (ident, kind, rename)"""
    prog = progs.Program(1)
    it = progs.Item()
    it.ident, it.kind, it.rename_all, it.tag, it.content = ident, kind, rename_all, tag, content
    for nm, k, rn in variants:
        v = progs.Variant()
        v.ident, v.kind, v.rename = nm, k, rn
        if k == 'tuple':
            v.ty = progs.t_prim('u8')
        if k == 'struct':
            f = progs.Field()
            f.ident, f.ty = 'x', progs.t_prim('u8')
            v.fields = [f]
        it.variants.append(v)
    prog.items.append(it)
    return prog, it


def live_of(it):
    return [v.ident for v in it.variants if v.skip is None]


# one witness per finding class: (class id, program, languages/configs it must reproduce under)
def corpus():
    return [
        ('C02-allcaps', witness('E', 'unit_enum', [('URL', 'unit', None)], rename_all='snake_case'), [(l, CFGS[l][0]) for l in LANGS]),
        ('C02-allcaps', witness('E', 'alg_enum', [('TOTP', 'tuple', None), ('Ok', 'unit', None)], rename_all='camelCase', tag='type', content='content'),
         [(l, CFGS[l][0]) for l in LANGS]),
        ('C02-swift-case-collision', witness('E', 'unit_enum', [('URL', 'unit', None), ('Url', 'unit', None)]), [('swift', {})]),
        ('C02-swift-case-collision', witness('E', 'alg_enum', [('AB1', 'tuple', None), ('Ab1', 'unit', None)], tag='t', content='c'), [('swift', {})]),
        ('C02-kotlin-case-collision', witness('E', 'alg_enum', [('URL', 'unit', None), ('Url', 'tuple', None)], tag='t', content='c'), [('kotlin', {'package': 'p'})]),
        ('C02-python-unit-member-collision', witness('E', 'unit_enum', [('FooBar', 'unit', None), ('Foobar', 'unit', None)]), [('python', {})]),
        ('C02-python-types-member-collision', witness('E', 'alg_enum', [('A', 'struct', 'fooBar'), ('B', 'unit', 'foo_bar')], tag='t', content='c'), [('python', {})]),
        ('C02-go-acronym-case-collision', witness('E', 'alg_enum', [('UserId', 'tuple', None), ('UserID', 'unit', None)], tag='t', content='c'),
         [('go', {'package': 'p', 'uppercase_acronyms': ['ID']})]),
    ]


# ------------------------------------------------------------------ observations
def obs_impl(lang, text, enum, live):
    """(list of reduced decls, unparsed + anomalies) from the REAL output text.
    enum / live: the enum's Rust identifier and the identifiers of its non-skipped variants (from the
    generator's own objects), used for two attributions lib/extract.py makes BY NAME and therefore cannot
    make when names repeat or dangle:
      - Kotlin / Scala refer to the helper struct of a struct variant under the enum's ORIGINAL name while it
        is declared under the renamed one (C09's recorded finding): the k-th case whose payload type ends in
        `Inner` is a struct payload when the output contains the helper generated for (enum, k-th variant);
      - Go: when two constants carry one name (finding class go-acronym-case-collision) the payload of the
        k-th variant is read off the k-th constructor instead of the `case <const>:` arm;
      - Swift: the k-th CodingKeys entry belongs to the k-th case."""
    o = extract.extract(lang, text)
    helpers = {d.get('inner_of') for d in o['definitions'] if d.get('inner_of')}
    out = []
    for d in o['definitions']:
        if d['kind'] != 'enum' and not d['variants']:
            continue
        vs = []
        cks = d.get('coding_keys') if lang == 'swift' and d.get('algebraic') else None
        positional = cks is not None and [c['name'] for c in cks] == [v['name'] for v in d['variants']]
        names = [v['name'] for v in d['variants']]
        cons = d.get('constructors') if lang == 'go' and d['kind'] == 'enum' and len(set(names)) < len(names) else None
        if cons is not None and len(cons) != len(names):
            cons = None
        for k, v in enumerate(d['variants']):
            if positional:
                w = cks[k]['raw'] if cks[k]['raw'] is not None else cks[k]['name']
            else:
                w = v['wire_name']
                if w is None or any(x != w for x in v.get('wire_names') or []):
                    w = '<<' + '|'.join(str(x) for x in (v.get('wire_names') or [w])) + '>>'
            payload, ty = v['payload'], v.get('type')
            if cons is not None:
                params = cons[k]['params'].strip()
                payload, ty = ('unit', None) if params == '' else ('newtype', params.split(' ', 1)[-1].lstrip('*'))
            if payload == 'newtype' and ty and d['kind'] == 'enum' and len(live) == len(d['variants']) and (enum, live[k]) in helpers \
                    and re.match(r'^`?\w*Inner`?(\s*[<\[].*[>\]])?$', ty.strip()):
                payload = 'struct'
            vs.append((v['name'], w, payload))
        out.append((d['kind'], vs, list(d.get('tag_keys') or []), list(d.get('content_keys') or [])))
    notes = list(o['unparsed']) + [a for a in o['anomalies'] if not (cons_note(a))]
    return out, notes


def cons_note(a):
    # with two constants of one name the extractor cannot find the second `case` arm: that is the recorded class itself
    return a.endswith('no case in UnmarshalJSON')


def pk(p):
    if p == 'unit':
        return 'unit'
    return {'newtype': 'newtype', 'inline': 'struct', 'ref': 'struct'}[p[0]]


def obs_model(x):
    """reduced decls from the model's (ok (file ..)) answer, or the outcome kind"""
    if x[0] != 'ok':
        return None
    out = []
    for d in x[1][3]:
        kind, variants, tags, contents = d[1], d[7], d[8], d[9]
        if kind != 'enum' and not variants:
            continue
        out.append((kind, [(unS(v[1]), unS(v[2]), pk(v[3])) for v in variants], [unS(t) for t in tags], [unS(c) for c in contents]))
    return out


def obs_sx(obs):
    return Lst(obs, lambda d: f'(decl {d[0]} {Lst(d[1], lambda v: f"({S(v[0])} {S(v[1])} {v[2]})")} {Lst(d[2], S)} {Lst(d[3], S)})')


def outcome_kind(r):
    for k in ('ok', 'panic', 'abort', 'none', 'parse_errors', 'parse_err', 'err'):
        if k in r:
            return k
    return 'err'


def model_kind(x):
    return x[0] if x[0] in ('ok', 'panic', 'none', 'parse_errors', 'parse_err') else 'err'


# ------------------------------------------------------------------ evaluation of a batch
def evaluate(chk, cases):
    """cases: list of dict(src, enum, lang, cfg, [expect_class]). Fills in verdict fields."""
    srcs = sorted(set(c['src'] for c in cases))
    asts = dict(zip(srcs, vf.impl([{'cmd': 'ast', 'src': s} for s in srcs])))
    ires = vf.impl([{'cmd': 'generate', 'lang': c['lang'], 'cfg': c['cfg'], 'src': c['src'], 'target_os': []} for c in cases])
    mres = vf.model([f'(decls_src {c["lang"]} {back.cfg_sx(c["cfg"])} {asts[c["src"]]["ok"]} {asts[c["src"]]["tstrs"]} ())' for c in cases])
    jreq, jidx = [], []
    for k, (c, ir, mr) in enumerate(zip(cases, ires, mres)):
        c['impl_kind'], c['model_kind'] = outcome_kind(ir), model_kind(mr)
        c['impl_obs'] = c['model_obs'] = None
        c['extract_notes'] = []
        if c['impl_kind'] == 'ok':
            c['impl_obs'], c['extract_notes'] = obs_impl(c['lang'], ir['ok'], c['enum'], c['live'])
            c['text'] = ir['ok']
        else:
            c['text'] = json.dumps(ir)[:600]
        if c['model_kind'] == 'ok':
            c['model_obs'] = obs_model(mr)
        # Go: the acronym LIST goes to the judge, which then uses the EXACT class (Spec.C02Spec.known_C02_go, theorem C02_back_go_exact)
        acr = Lst(c['cfg'].get('uppercase_acronyms') or [], S) if c['lang'] == 'go' else B(bool(c['cfg'].get('uppercase_acronyms')))
        jreq.append(f'(c02 {c["lang"]} {acr} {asts[c["src"]]["ok"]} () {S(c["enum"])} {obs_sx(c["impl_obs"] or [])})')
    for c, j in zip(cases, vf.model(jreq)):
        c['dom'] = j[0] == 'true'
        c['known'] = sx_opt(j[1])
        c['good'] = None if j[2] == 'none' else j[2] == 'true'
        c['expect'] = None
        if j[3] != 'none':
            e = j[3][1]
            c['expect'] = {'idents': [unS(x) for x in e[0]], 'wires': [unS(x) for x in e[1]], 'kinds': list(e[2]),
                           'keys': None if e[3] == 'none' else [unS(e[3][1][0]), unS(e[3][1][1])]}
    return cases


def payload_of(c):
    return {k: c.get(k) for k in ('lang', 'cfg', 'enum', 'live', 'src', 'dom', 'known', 'good', 'expect', 'impl_kind', 'model_kind', 'impl_obs', 'model_obs',
                                  'extract_notes', 'text')}


def judge(chk, c, name, corr):
    """verdict table of DESIGN section 7 for one (program, language) case"""
    chk.evaluations += 1
    equal = c['impl_kind'] == c['model_kind'] and c['impl_obs'] == c['model_obs']
    if c['impl_kind'] != 'ok':
        # no enum is generated: the property says nothing; the model must predict the same outcome
        chk.count('not_generated_' + c['impl_kind'])
        if not equal:
            corr.append(payload_of(c))
        return
    if not c['dom']:
        chk.count('outside_domain')
        if not equal:
            corr.append(payload_of(c))
        return
    chk.count('in_domain')
    if c['known'] is None:
        chk.count('in_domain_not_known')
    good = bool(c['good'])
    if c['extract_notes'] and not equal and not good:
        chk.unreadable(c['lang'], payload_of(c), c['extract_notes'])
        return
    if good and c['known'] is not None:
        # the class claims nothing here; counted so that a class wider than the failing inputs shows up in the evidence
        chk.count('known_but_good_' + c['known'])
    if good and equal:
        if c['extract_notes']:
            corr.append(dict(payload_of(c), why='the extractor could not place every line of the real output'))
        return
    if not good:
        if c['known'] is None:
            chk.violation(name, payload_of(c), f'{c["lang"]}: the generated enum {c["enum"]} does not carry serde\'s encoding {c["expect"]}: observed {c["impl_obs"]}')
        elif not equal:
            chk.violation(name, payload_of(c), f'{c["lang"]}: enum {c["enum"]} fails in class {c["known"]} but differently from what the model predicts')
        elif not chk.known(c['known'], payload_of(c)):
            chk.violation(name, payload_of(c), f'{c["lang"]}: enum {c["enum"]} fails in class {c["known"]}, which is not an open recorded finding')
        else:
            chk.count('known_' + c['known'])
        return
    corr.append(payload_of(c))


def serde_check(chk, cases):
    """the spec's rename part against the real serde_derive case.rs"""
    pairs = {}
    for c in cases:
        it = c.get('item')
        if it is None or c['expect'] is None:
            continue
        live = [v for v in it.variants if v.skip is None]
        if len(live) != len(c['expect']['wires']):
            continue
        for v, w in zip(live, c['expect']['wires']):
            if v.rename is None and it.rename_all in RULES:
                pairs[(it.rename_all, v.ident)] = w
            elif v.rename is not None and w != v.rename:
                chk.violation('spec-rename', {'variant': v.ident, 'rename': v.rename, 'spec': w}, 'Spec.Serde.variant_name ignores serde(rename)', no_input=True)
    keys = sorted(pairs)
    res = vf.impl([{'cmd': 'serde_case', 'pos': 'variant', 'rule': r, 's': s} for r, s in keys])
    for (r, s), o in zip(keys, res):
        chk.count('serde_case_pairs')
        if o.get('ok') != pairs[(r, s)]:
            chk.violation('spec-serde', {'rule': r, 'ident': s, 'spec': pairs[(r, s)], 'serde_derive': o},
                          'Spec/SerdeCase.v disagrees with the real serde_derive case.rs', no_input=True)


def run(chk):
    chk.rule = ('one enum per seeded program (65% adjacently tagged): 0-6 variants from a pool of UpperCamelCase identifiers incl. all-caps (URL, AB1) '
                'and case twins (URL/Url, FooBar/Foobar), unit/newtype/struct variants mixed, generics, recursion through Box/Vec/Option, '
                'serde(rename) over [A-Za-z_][A-Za-z0-9_-]* on 30% of the variants, rename_all in 8 rules / absent / unknown word, tag and content keys '
                'from 40 identifiers incl. type/kind/t and target-language keywords or random identifiers, 6% skipped variants, 0-2 other items '
                '(renamed structs, aliases) referenced from payloads; every program through all six languages (Kotlin/Swift with and without prefix, '
                'Go with and without uppercase_acronyms). non-trivial = distinct (program, language) inside dom_C02 and outside the known classes '
                'whose enum was generated')
    chk.assumptions = ['syn is not modelled: the model and the spec receive the AST produced by harness/libdrive/src/ast.rs from the same source text',
                       'the observation of the real output is taken by lib/extract.py (template-driven extractor); its agreement with the model\'s Decl observation '
                       'is part of what is compared, and lines it cannot place are reported',
                       'what a Swift/Kotlin/Scala/Go/TypeScript/Python decoder makes of the declaration (that @SerialName("x") means wire name x, ...) is the '
                       'reading fixed in Model/Lang/Decl.v; no target compiler is installed',
                       'real serde is consulted for the rename rules (serde_derive case.rs through libdrive serde_case), not for whole-enum JSON']
    chk.prepare(need_cli=True)
    if not chk.harness_ok:
        return
    rng = chk.rng
    corr = []
    if chk.cli_ok:
        # folder-output mode against the same crates generated alone (lib/multi.py): an enum's wire names, tag and content keys must
        # not depend on what another crate of the run contains (seeded C02_f: the text of a same-named enum replayed)
        import multi
        g0 = Gen(rng)
        nw = 12 if chk.tier == 'quick' else 150
        multi.independent_crates(chk, [[progs.source(g0.program()[0]) for _ in range(rng.choice([2, 3, 3]))] for _ in range(nw)], multi.facet_enums, 'enum wire names, tag and content keys (C02)')
    # 1. the recorded witnesses, against the real code, first
    wcases = []
    for fid, (prog, it), targets in corpus():
        src = progs.source(prog)
        for lang, cfg in targets:
            wcases.append({'src': src, 'enum': it.ident, 'live': live_of(it), 'lang': lang, 'cfg': cfg, 'expect_class': fid, 'item': it})
    evaluate(chk, wcases)
    for k, c in enumerate(wcases):
        if c['known'] != c['expect_class'] or c['good'] is not False:
            if c['expect_class'] in chk.findings and str(chk.findings[c['expect_class']].get('status', 'open')).startswith('open'):
                chk.notes.append(f'witness of {c["expect_class"]} ({c["lang"]}) no longer fails: known={c["known"]} good={c["good"]}')
        judge(chk, c, f'witness-{k}', corr)
    # 2. generated programs
    n = 1500 if chk.tier == 'quick' else 30000
    gen = Gen(rng)
    cases = []
    for k in range(n):
        prog, it = gen.program()
        src = progs.source(prog)
        for lang in LANGS:
            cfg = rng.choice(CFGS[lang])
            cases.append({'src': src, 'enum': it.ident, 'live': live_of(it), 'lang': lang, 'cfg': cfg, 'item': it, 'k': k})
    evaluate(chk, cases)
    for c in cases:
        judge(chk, c, f'{c["k"]}-{c["lang"]}', corr)
        it = c['item']
        if c['impl_kind'] == 'ok' and c['dom'] and c['known'] is None:
            chk.nontrivial.add((c['src'], c['lang']))
            chk.count('variants_' + str(len(c['expect']['wires'])))
            chk.count('alg' if c['expect']['keys'] else 'unit')
        if c['k'] % 97 == 0 and c['lang'] == 'swift':
            chk.sample({'enum': c['enum'], 'lang': c['lang'], 'expect': c['expect'], 'known': c['known'], 'good': c['good'], 'impl_obs': c['impl_obs']})
    serde_check(chk, [c for c in cases + wcases if c['lang'] == 'typescript'])
    chk.count('correspondence_mismatches', len(corr))
    if corr and not [v for v in chk.violations if not v[2]]:
        chk.violation('correspondence', {'correspondence': 'Decl observation of Model.Lang.*_file_decls vs lib/extract.py on the real output', 'cases': corr[:5]},
                      'model and implementation disagree on the C02 observation of a generated enum, yet no enum with a wrong encoding was found', no_input=True)


def replay(chk, path):
    chk.prepare(need_cli=False)
    d = json.load(open(path))
    cs = d.get('cases') or [d]
    out = 0
    for c in cs:
        c = evaluate(chk, [{'src': c['src'], 'enum': c['enum'], 'live': c.get('live') or [], 'lang': c['lang'], 'cfg': c['cfg']}])[0]
        print('lang    :', c['lang'], c['cfg'])
        print('expect  :', c['expect'])
        print('dom/known/good:', c['dom'], c['known'], c['good'])
        print('impl obs :', c['impl_obs'])
        print('model obs:', c['model_obs'])
        if c['dom'] and c['known'] is None and c['impl_kind'] == 'ok' and not c['good']:
            out = 1
    return out
