"""C06 - output is a deterministic function of the inputs, not of scheduling or hashing.
Proof: Props/C06.v (every permutation of the arrival list yields the same back-end input and the same
bytes in all six languages, single-file mode, distinct names).
Direct observation of what the model cannot exhibit (real threads, real hash seeds):
 (a) the real binary under EVERY permutation of the arrival order of <=5 (quick) / <=6 (thorough)
     files through the cfg(typeshare_verif) hook TYPESHARE_VERIF_ORDER, single- and multi-file mode;
     the identity order is also compared byte for byte with the model;
 (b) repeated fresh processes without the hook under taskset with 1..16 CPUs on trees of 100-300
     files: any two differing outputs are a failing history."""
import concurrent.futures, hashlib, itertools, json, os, shutil, subprocess
import vf, progs, back
from vf import S, Lst

LANGS = [('typescript', 'ts', [], {}), ('kotlin', 'kt', ['--java-package', 'p'], {'package': 'p'}), ('swift', 'swift', [], {}),
         ('scala', 'scala', ['--scala-package', 'p'], {'package': 'p'}), ('go', 'go', ['--go-package', 'p'], {'package': 'p'}), ('python', 'py', [], {})]


def make_files(rng, k, lang, equal_names=False, only=None):
    """k source files with distinct item names overall (unless equal_names), every kind incl. consts;
    only = restrict every file to ONE item kind (degenerate buckets: consts only, aliases only, ...)"""
    allow_const = lang in ('typescript', 'go', 'python', 'scala')
    if only == 'const':
        return [''.join(f'#[typeshare]\npub const K{rng.randint(0, 10 ** 6)}_{i}_{j}: u32 = {j};\n' for j in range(rng.randint(1, 2))) for i in range(k)]
    prof = progs.Profile(n_items=(1, 3), p_unannotated=0.0, p_nested=0.1, allow_const=allow_const, p_rename_type=0.15)
    if only is not None:
        prof.kinds = {'struct': ['struct', 'unit_struct'], 'enum': ['unit_enum', 'alg_enum'], 'alias': ['alias', 'newtype']}[only]
        prof.allow_const = False
    gen = progs.ProgGen(rng, prof)
    names = progs.TYPE_IDENTS[:]
    rng.shuffle(names)
    files = []
    for i in range(k):
        prog = progs.Program(rng.getrandbits(32))
        n = rng.randint(1, 3)
        for _ in range(n):
            if not names:
                break
            ident = names.pop()
            it = gen.item(ident, [])       # no cross references: keeps every file independently valid
            it.annotated = True
            prog.items.append(it)
        src = progs.source(prog)
        if allow_const and only is None and rng.random() < 0.6:
            src += f'\n#[typeshare]\npub const K{rng.randint(0, 10 ** 6)}_{i}: u32 = {i};\n'
        files.append(src)
    if equal_names and k >= 2:
        files[0] += '\n#[typeshare]\npub struct SameName { pub a: u8 }\n'
        files[1] += '\n#[typeshare]\npub struct SameName { pub b: String }\n'
    return files


def digest_dir(d):
    out = {}
    for root, _, fs in os.walk(d):
        for f in sorted(fs):
            p = os.path.join(root, f)
            out[os.path.relpath(p, d)] = hashlib.sha256(open(p, 'rb').read()).hexdigest()
    return out


def run_perm(args):
    tree, order, lang, ext, extra, multi = args
    out = vf.tmpdir()
    env = dict(os.environ)
    if order is not None:
        env['TYPESHARE_VERIF_ORDER'] = ','.join(map(str, order))
    if multi:
        cmd = [str(vf.TYPESHARE), '--lang', lang, '-d', str(out / 'gen')] + extra + [str(tree)]
    else:
        cmd = [str(vf.TYPESHARE), '--lang', lang, '-o', str(out / f'out.{ext}')] + extra + [str(tree)]
    try:
        p = subprocess.run(['timeout', '30'] + cmd, capture_output=True, text=True, timeout=40, env=env)
        rc = p.returncode
    except subprocess.TimeoutExpired:
        rc = 124
    dg = digest_dir(out)
    text = None
    if not multi and (out / f'out.{ext}').exists():
        text = (out / f'out.{ext}').read_text()
    shutil.rmtree(out, ignore_errors=True)
    return rc, dg, text


def run(chk):
    chk.rule = ('(a) seeded trees of k files (k = 2..5 quick, ..6 thorough) with 1-3 annotated items each (all kinds, consts where the back end has '
                'them, distinct names; a few trees with two same-named structs), run under ALL k! arrival orders via the hook, rotating over the six '
                'languages, single-file and multi-file (files spread over 2-3 crates); (b) trees of 100-300 files run repeatedly as fresh processes '
                'without the hook under taskset with 1,2,4,8,16 CPUs. non-trivial = distinct (tree, arrival order) / distinct process runs')
    chk.assumptions = ['arrival order is injected by the cfg(typeshare_verif) hook in cli/src/parse.rs (buffer, sort by smallest item name, permute)',
                       'real thread scheduling and HashMap seeds are sampled (part b), not enumerated']
    chk.prepare(need_cli=True)
    if not (chk.harness_ok and chk.cli_ok):
        return
    rng = chk.rng
    kmax = 5 if chk.tier == 'quick' else 6
    ntrees = 24 if chk.tier == 'quick' else 80
    work = vf.tmpdir()
    jobs, meta = [], []
    trees = []
    for t in range(ntrees):
        lang, ext, extra, cfg = LANGS[t % len(LANGS)]
        k = 2 + (t % (kmax - 1))
        multi = (t % 4 == 3)
        equal = (t % 10 == 9)
        only = None
        if t % 5 == 2:
            only = ['const', 'struct', 'enum', 'alias'][(t // 5) % 4]
            if only == 'const' and lang not in ('typescript', 'go', 'python'):
                only = 'alias'
        if lang in ('typescript', 'go', 'python') and (t // 6) % 2 == 1 and not equal:
            only = 'const'
        files = make_files(rng, k, lang, equal_names=equal, only=only)
        chk.count('trees_only_' + str(only))
        tree = work / f't{t}'
        crates = ['alpha', 'beta', 'gamma']
        for i, src in enumerate(files):
            d = tree / (crates[i % 3] if multi else 'one') / 'src'
            d.mkdir(parents=True, exist_ok=True)
            (d / f'f{i}.rs').write_text(src)
        trees.append((tree, files, lang, ext, extra, cfg, multi, equal, k))
        for order in itertools.permutations(range(k)):
            jobs.append((tree, order, lang, ext, extra, multi))
            meta.append((t, order))
    with concurrent.futures.ThreadPoolExecutor(max_workers=vf.NPROC) as ex:
        outs = list(ex.map(run_perm, jobs))
    by_tree = {}
    for (t, order), o in zip(meta, outs):
        by_tree.setdefault(t, []).append((order, o))
    model_req, model_idx = [], []
    for t, (tree, files, lang, ext, extra, cfg, multi, equal, k) in enumerate(trees):
        runs = by_tree[t]
        chk.count('hook_runs', len(runs))
        chk.count(f'trees_{lang}_{"multi" if multi else "single"}')
        ref_order, (ref_rc, ref_dg, ref_text) = runs[0]
        bad = [(o, r) for o, r in runs if r[0] != ref_rc or r[1] != ref_dg]
        for o, r in runs:
            chk.evaluations += 1
            chk.nontrivial.add((t, o))
        payload = {'files': files, 'lang': lang, 'multi_file': multi, 'reference_order': list(ref_order), 'reference': {'rc': ref_rc, 'digests': ref_dg}}
        if any(r[0] not in (0, 1) for _, r in runs):
            chk.count('crashed_runs (C07)')
        if bad:
            payload['differing_order'] = list(bad[0][0])
            payload['differing'] = {'rc': bad[0][1][0], 'digests': bad[0][1][1]}
            if equal:
                if not chk.known('C06-equal-names', payload):
                    chk.violation(f'tree{t}', payload, 'two arrival orders give different output (two items share a name); not a recorded open finding')
            else:
                chk.violation(f'tree{t}', payload, f'arrival orders {list(ref_order)} and {list(bad[0][0])} of the same {k} files give different output bytes ({lang})')
        elif t < 3:
            chk.sample({'files': k, 'lang': lang, 'orders': len(runs), 'distinct_outputs': 1})
        # the identity arrival order against the model (single-file only; hook order = sorted by smallest item name)
        if not multi and ref_rc == 0 and ref_text is not None and not equal:
            asts = vf.impl([{'cmd': 'ast', 'src': s} for s in files])
            if all('ok' in a for a in asts):
                model_req.append(f'(c06_gen {lang} {back.cfg_sx(dict(cfg, no_version_header=False, version=vf.core_version()))} {Lst(asts, lambda a: "(" + a["ok"] + " " + a["tstrs"] + ")")})')
                model_idx.append((t, ref_text))
    for (t, text), m in zip(model_idx, vf.model(model_req)):
        chk.evaluations += 1
        mt = vf.unS(m[1]) if isinstance(m, list) and m[0] == 'ok' else None
        if mt != text:
            chk.violation(f'model-tree{t}', {'correspondence': 'Model.Collect.single_file_input + back end vs the real binary on a multi-file tree', 'files': trees[t][1],
                                             'lang': trees[t][2], 'model': mt, 'impl': text}, 'model output differs from the real binary on a multi-file tree', no_input=True)
    # ---- (b) repeated fresh processes, no hook, varying CPU sets
    nbig = 2 if chk.tier == 'quick' else 6
    reps = [1, 2, 4, 8, 16, 16] if chk.tier == 'quick' else [1, 2, 3, 4, 6, 8, 12, 16, 16, 16, 16, 16]
    taskset = shutil.which('taskset')
    for b in range(nbig):
        lang, ext, extra, cfg = LANGS[(b * 2) % len(LANGS)]
        multi = b % 2 == 1
        tree = work / f'big{b}'
        nfiles = rng.randint(100, 300)
        for i in range(nfiles):
            d = tree / (f'crate{i % 7}' if multi else 'one') / 'src' / f'm{i % 5}'
            d.mkdir(parents=True, exist_ok=True)
            kind = i % 4
            body = {0: f'#[typeshare]\npub struct S{i} {{ pub a: u32, pub b: Option<String> }}\n',
                    1: f'#[typeshare]\npub enum E{i} {{ A, B }}\n',
                    2: f'#[typeshare]\npub type A{i} = Vec<String>;\n',
                    3: (f'#[typeshare]\npub const C{i}: u32 = {i};\n' if lang in ('typescript', 'go', 'python') else f'#[typeshare]\npub struct T{i} {{ pub x: bool }}\n')}[kind]
            (d / f'f{i}.rs').write_text(body)
        results = []
        for ncpu in reps:
            out = vf.tmpdir()
            cmd = [str(vf.TYPESHARE), '--lang', lang] + (['-d', str(out / 'gen')] if multi else ['-o', str(out / f'out.{ext}')]) + extra + [str(tree)]
            if taskset:
                cmd = [taskset, '-c', f'0-{ncpu - 1}'] + cmd
            p = subprocess.run(['timeout', '60'] + cmd, capture_output=True, text=True)
            results.append((ncpu, p.returncode, digest_dir(out)))
            shutil.rmtree(out, ignore_errors=True)
            chk.evaluations += 1
            chk.nontrivial.add(('big', b, len(results)))
        chk.count('fresh_process_runs', len(results))
        ref = results[0]
        for r in results[1:]:
            if (r[1], r[2]) != (ref[1], ref[2]):
                chk.violation(f'big{b}', {'tree': f'{nfiles} generated files, lang {lang}, multi_file {multi}', 'run_a': {'cpus': ref[0], 'rc': ref[1], 'digests': ref[2]},
                                          'run_b': {'cpus': r[0], 'rc': r[1], 'digests': r[2]}},
                              f'two runs over the same {nfiles} files ({lang}) produced different output ({ref[0]} vs {r[0]} CPUs)')
                break
        else:
            chk.sample({'files': nfiles, 'lang': lang, 'multi_file': multi, 'fresh_processes': len(results), 'cpu_sets': reps, 'distinct_outputs': 1})
    shutil.rmtree(work, ignore_errors=True)


def replay(chk, path):
    chk.prepare(need_cli=True)
    d = json.load(open(path))
    print(json.dumps({k: v for k, v in d.items() if k != 'files'}, indent=1)[:3000])
    return 0
