"""C06 - output is a deterministic function of the inputs, not of scheduling or hashing.
Proof: Props/C06.v (every permutation of the arrival list yields the same back-end input and the same
bytes in all six languages, single-file mode, distinct names).
Direct observation of what the model cannot exhibit (real threads, real hash seeds):
 (a) the real binary under EVERY permutation of the arrival order of <=5 (quick) / <=6 (thorough)
     files through the cfg(typeshare_verif) hook TYPESHARE_VERIF_ORDER, single- and multi-file mode;
     the identity order is also compared byte for byte with the model;
 (b) repeated fresh processes without the hook under taskset with 1..16 CPUs on trees of 100-300
     files: any two differing outputs are a failing history;
 (c) multi-crate workspaces with cross-crate imports in multi-file mode (-d), as repeated fresh processes (fresh
     hash seeds) and under hook-chosen arrival orders. Whether a variation of the output reproduces the recorded
     finding C06-ambiguous-imports or is a violation is decided by the GALLINA class of the workspace, the very
     hypothesis of Props/C06.v C06_multi_hash_order_irrelevant / C06_multi_end_to_end:
       Proofs.C06Multi.ws_ambiguity (collect arrivals) = Spec.C06MultiSpec.ws_imports_ambiguity on the type table,
       annotated types and merged import sets the collector holds (class 1 one-name-imported-from-two-crates-that-
       rename-it-differently, class 2 import-falls-back-to-one-of-several-crates-generating-the-name - judged on the
       imports as reconcile_aliases puts them back, under the generated names: an import of a serde-renamed type
       resolves in its crate since the /repo fix of finding C14-renamed-import and is no fallback case any more),
     extracted (coq/Extract/parts/C06multi.ext) and evaluated by the driver command c06_ws_class
     (ocaml/drv_c06multi.ml) on the `libdrive ast` of every file of the workspace: Model.parse_workspace under the
     identity oracle, Model.collect, ws_ambiguity; the command also reports all_distinct_b (hypothesis all_distinct)
     and the source files in the per-file class 3 (file_unambiguous = false, Spec.C06MultiSpec.file_import_ambiguous).
     A variation with Gallina class None is a violation whatever else holds (class 3 is not a recorded finding; a
     workspace the model cannot parse has no class and is itself reported). The Python function imports_ambiguity
     below, which the generator evaluates on its own bookkeeping, is NOT the judge any more: it is computed next to
     the Gallina class and the two are compared (counters class_agree_* / class_disagree_python=.._gallina=..,
     a sample of disagreements in the notes). Known differences: Gallina counts a no-op #[serde(rename = "Item")]
     on struct Item as a rename, and so does resolve_renamed (repeated runs of the real binary write Item or the
     other crate's rename); the Python class sees only rust name -> generated name and misses it. import_workspace
     plants that shape in about 8% of the workspaces and directed_import_workspaces (the first workspaces of every run:
     one per class, plus the imports of serde-renamed types that left class 2 with the /repo fix of C14-renamed-import)
     has one, so the disagreement counter is exercised: with the Python class as judge these would be false violations. Python has no per-file class (the generator makes no such file)."""
import concurrent.futures, hashlib, itertools, json, os, pathlib, shutil, subprocess
import vf, progs, back
from vf import S, Lst

LANGS = [('typescript', 'ts', [], {}), ('kotlin', 'kt', ['--java-package', 'p'], {'package': 'p'}), ('swift', 'swift', [], {}),
         ('scala', 'scala', ['--scala-package', 'p'], {'package': 'p'}), ('go', 'go', ['--go-package', 'p'], {'package': 'p'}), ('python', 'py', [], {})]


def make_files(rng, k, lang, equal_names=False, only=None):
    """k source files with distinct item names overall (unless equal_names), every kind incl. consts;
    only = restrict every file to ONE item kind (degenerate buckets: consts only, aliases only, ...)"""
    allow_const = lang in ('typescript', 'go', 'python', 'scala')
    if only == 'const':
        return [''.join(f'#[typeshare]\npub const K{rng.randint(0, 10 ** 6)}_{i}_{j}: u32 = {j};\n' for j in range(rng.randint(1, 2))) for i in range(k)]
    prof = progs.Profile(n_items=(1, 3), p_unannotated=0.0, p_nested=0.1, allow_const=allow_const, p_rename_type=0.15)
    if only is not None:
        prof.kinds = {'struct': ['struct', 'unit_struct'], 'enum': ['unit_enum', 'alg_enum'], 'alias': ['alias', 'newtype']}[only]
        prof.allow_const = False
    gen = progs.ProgGen(rng, prof)
    names = progs.TYPE_IDENTS[:]
    rng.shuffle(names)
    # DISTINCT names that a careless comparator may still take for equal: the same letters in another case, a trailing number with
    # leading zeros, an underscore more (seeded C06_e: a natural-order sort key without a tie-break on the full name keeps such
    # neighbours in arrival order).  The members of a family land in different files (names are popped one per item).
    fam = rng.choice(NEAR_EQUAL)
    if only != 'enum' and k >= 2 and rng.random() < 0.6:
        names = [n for n in names if n not in fam]
        for q, n in enumerate(fam):
            names.insert(len(names) - min(len(names), q * 2), n)      # spread over the first items popped
    files = []
    for i in range(k):
        prog = progs.Program(rng.getrandbits(32))
        n = rng.randint(1, 3)
        for _ in range(n):
            if not names:
                break
            ident = names.pop()
            it = gen.item(ident, [])       # no cross references: keeps every file independently valid
            it.annotated = True
            prog.items.append(it)
        src = progs.source(prog)
        if allow_const and only is None and rng.random() < 0.6:
            src += f'\n#[typeshare]\npub const K{rng.randint(0, 10 ** 6)}_{i}: u32 = {i};\n'
        files.append(src)
    if equal_names and k >= 2:
        files[0] += '\n#[typeshare]\npub struct SameName { pub a: u8 }\n'
        files[1] += '\n#[typeshare]\npub struct SameName { pub b: String }\n'
    return files


POOL = ['Item', 'Node', 'Leaf', 'Edge']
NEAR_EQUAL = [['Level1', 'Level01', 'Level001'], ['Page2', 'Page02', 'Page10'], ['Item', 'ITEM', 'Item_'], ['ApiKey', 'APIKey', 'Api_Key'],
              ['V18446744073709551616', 'V18446744073709551617', 'V9'], ['Aa', 'AA', 'A_a']]


def imports_ambiguity(app_imports, defs, importer='app'):
    """Declarative class of inputs on which the unchanged code resolves through a HashSet/HashMap iteration.
    app_imports: set of (crate, name), name '*' for a glob: the imports that survive per file (explicit imports of names the file's
    types mention, and all globs), merged over the files of the importing crate;  defs: crate -> {rust name: generated name}.
    An explicit import (c, n) is first put back under the name crate c GENERATES its n under (reconcile.rs:71, the /repo fix of
    finding C14-renamed-import: `use alpha::Item;` with Item serde-renamed AlphaItem is the import (alpha, AlphaItem); as in
    Spec.C06MultiSpec.renamed_imports); it then contributes an import line for crate c when c generates a type NAMED that
    (generated names), otherwise the fallback takes the first crate in HashMap order that generates a type so named. Returns a class
    name or None.
    A glob import (c, '*') brings in every type of c whatever else is imported (since the /repo fix of language/mod.rs:472 it creates
    its own entry; before, it only extended an entry another import resolving to c had made, in iteration order: that was a third
    class here, glob-import-next-to-an-import-resolving-to-the-same-crate).  A glob takes no part in rename resolution or in the
    fallback, so it makes nothing ambiguous: such workspaces must give the same bytes in every run."""
    explicit = sorted(i for i in app_imports if i[1] != '*')
    targets = {}
    for (c, n) in explicit:
        g = defs.get(c, {}).get(n, n)          # the import as used_imports sees it: (c, generated name of c's n)
        if g in set(defs.get(c, {}).values()):
            targets[(c, n)] = {c}
        else:
            targets[(c, n)] = {k for k, d in defs.items() if k != importer and g in set(d.values())}
    # serde-rename resolution: first import of the name whose crate renames it
    for n in sorted({n for _, n in explicit}):
        renames = {defs[c][n] for (c, m) in explicit if m == n and c in defs and n in defs[c] and defs[c][n] != n}
        if len(renames) >= 2:
            return 'one-name-imported-from-two-crates-that-rename-it-differently'
    if any(len(t) >= 2 for t in targets.values()):
        return 'import-falls-back-to-one-of-several-crates-generating-the-name'
    return None


FILE_CLASS = 'file-imports-one-name-from-two-crates'      # class 3 (Spec.C06MultiSpec.file_import_ambiguous); NOT in the recorded finding


def gallina_request(root, files, lang, asts):
    """(c06_ws_class ..) for one workspace: path components + `libdrive ast` of every file, in sorted path order (ocaml/drv_c06multi.ml)."""
    entries = []
    for rel in sorted(files):
        a = asts[files[rel]]
        if 'ok' not in a:
            return None
        entries.append((list(pathlib.Path(root, rel).parts), a['ok'], a['tstrs']))
    return f'(c06_ws_class {lang} {Lst(entries, lambda e: f"({Lst(e[0], S)} {e[1]} {e[2]})")})'


def decode_gallina(m):
    """answer of c06_ws_class: the classes the theorems of Props/C06.v are stated with, as the extracted Gallina code evaluates them"""
    d = {k[0]: k[1] for k in m}
    st = d['status']
    return {'status': st if isinstance(st, str) else st[0],
            'class': None if d['class'] == 'none' else d['class'][1],
            'distinct': d['distinct'] == 'true',
            'file_ambiguous': [str(pathlib.PurePosixPath(*[vf.unS(c) for c in p])) for p in d['file_ambiguous']],
            'imports': {vf.unS(c): sorted([vf.unS(a), vf.unS(b)] for a, b in im) for c, im in d['imports'] if im},
            'table': {vf.unS(c): sorted(vf.unS(n) for n in names) for c, names in d['table']}}


def gallina_classes(roots, wss, langs):
    """The Gallina classes of every workspace; None where the model could not be asked (then there is no class: nothing is silenced)."""
    srcs = sorted({s for ws in wss for s in ws['files'].values()})
    asts = dict(zip(srcs, vf.impl([{'cmd': 'ast', 'src': s} for s in srcs])))
    reqs = [gallina_request(root, ws['files'], lang, asts) for root, ws, lang in zip(roots, wss, langs)]
    answers = iter(vf.model([r for r in reqs if r is not None]))
    return [decode_gallina(next(answers)) if r is not None else None for r in reqs]


def import_workspace(rng):
    """2-3 library crates defining types drawn from a small pool (so equal names across crates are common, each with its own
    serde rename half of the time) and an `app` crate of 2-3 files whose use statements (explicit, grouped, glob) and fields refer to them."""
    libs = ['alpha', 'beta', 'gamma'][:rng.randint(2, 3)]
    files, defs = {}, {}
    shape = rng.random()
    if shape < 0.3 or shape >= 0.92:
        # directed, otherwise clean shape: ONE name generated by two crates under the same generated name, imported explicitly from each of
        # them in two different files of the importing crate and used in both. Nothing is ambiguous for the unchanged code (each import
        # line names its own module), so every run must give the same bytes.
        # Variant (shape >= 0.92), where the two classes are KNOWN to differ: crate a carries the no-op #[serde(rename = "N")] on struct N, crate b
        # renames its N to TwinN. resolve_renamed finds a rename entry under either import, so this is class 1 for the Gallina class (and the
        # output does vary); the Python bookkeeping (rust name -> generated name) cannot see a no-op rename and says unambiguous.
        noop = shape >= 0.92
        a, b = rng.sample(libs, 2)
        n = rng.choice(POOL)
        ren = rng.choice([None, None, 'Shared' + n])
        for c in libs:
            names = {n} if c in (a, b) else set()
            names |= {m for m in POOL if m != n and rng.random() < 0.4}
            defs[c] = {}
            src = ''
            for m in sorted(names):
                gen = (ren or m) if m == n else m
                if noop and m == n:
                    gen = m if c == a else 'Twin' + m
                defs[c][m] = gen
                attr = f'#[serde(rename = "{gen}")]\n' if gen != m or (noop and m == n) else ''
                src += f'#[typeshare]\n{attr}pub struct {m} {{ pub {c}_{m.lower()}: u32 }}\n\n'
            files[f'{c}/src/lib.rs'] = src
        imports = set()
        for k, c in enumerate((a, b)):
            files[f'app/src/twin{k}.rs'] = f'use {c}::{n};\n\n#[typeshare]\npub struct Twin{k} {{\n    pub f: {n},\n    pub g: Vec<{n}>,\n}}\n'
            imports.add((c, n))
        return {'files': files, 'ambiguity': imports_ambiguity(imports, defs)}
    for c in libs:
        names = [n for n in POOL if rng.random() < 0.6] or [rng.choice(POOL)]
        defs[c] = {}
        src = ''
        for n in names:
            renamed = rng.random() < 0.5
            defs[c][n] = f'{c.capitalize()}{n}' if renamed else n
            ren = f'#[serde(rename = "{c.capitalize()}{n}")]\n' if renamed else ''
            src += f'#[typeshare]\n{ren}pub struct {n} {{ pub {c}_{n.lower()}: u32 }}\n\n'
        files[f'{c}/src/lib.rs'] = src
    app_imports = set()
    for k in range(rng.randint(2, 3)):
        uses, local = [], set()
        for c in libs:
            r = rng.random()
            taken = {m for (_, m) in local}          # one file never imports a name twice (that would not be valid Rust)
            free = sorted(set(defs[c]) - taken)
            if r < 0.3:
                uses.append(f'use {c}::*;')
                local.add((c, '*'))
            elif r < 0.65 and free:
                n = rng.choice(free)
                uses.append(f'use {c}::{n};')
                local.add((c, n))
            elif r < 0.8 and len(free) >= 2:
                ns = rng.sample(free, 2)
                uses.append(f'use {c}::{{{ns[0]}, {ns[1]}}};')
                local |= {(c, ns[0]), (c, ns[1])}
        # an import that does not resolve in the crate it names - an unknown (re-exporting) crate `zz`, or a library crate that
        # generates no type of that name - goes to the fallback; with two or more crates generating the name that is class 2.
        # (Before the /repo fix of C14-renamed-import class 2 also arose from every import of a serde-renamed type; those resolve now.)
        if rng.random() < 0.3:
            taken = {m for (_, m) in local}
            n = rng.choice(POOL)
            if n not in taken:
                lacking = [c for c in libs if n not in defs[c]]
                x = rng.choice(lacking) if lacking and rng.random() < 0.5 else 'zz'
                uses.append(f'use {x}::{n};')
                local.add((x, n))
        refs = rng.sample(POOL, rng.randint(1, 3))
        app_imports |={(c, m) for (c, m) in local if m == '*' or m in refs}     # reconcile_referenced_types keeps only these
        body = ''.join(f'    pub f{i}: {"Vec<" + n + ">" if rng.random() < 0.3 else n},\n' for i, n in enumerate(refs))
        files[f'app/src/m{k}.rs'] = '\n'.join(uses) + f'\n\n#[typeshare]\npub struct App{k} {{\n{body}}}\n'
    return {'files': files, 'ambiguity': imports_ambiguity(app_imports, defs)}


def directed_import_workspaces():
    """Hand-written workspaces that open part (c) in every run: one per class of the recorded finding C06-ambiguous-imports (so both are
    exercised whatever the seed), and the shapes the /repo fix of finding C14-renamed-import moved OUT of class 2 - an import of a
    serde-renamed type used to miss in its crate's type table and fall back by hash order; it is now put back under the generated name,
    resolves, and must give one output in every run."""
    def lib(c, types):                       # types: [(rust name, generated name)]
        return ''.join('#[typeshare]\n' + (f'#[serde(rename = "{g.lstrip("=")}")]\n' if g != n else '') + f'pub struct {n} {{ pub {c}_{n.lower()}: u32 }}\n\n' for n, g in types)

    def app(k, uses, refs):
        body = ''.join(f'    pub f{i}: {t},\n' for i, t in enumerate(refs))
        return '\n'.join(uses) + f'\n\n#[typeshare]\npub struct App{k} {{\n{body}}}\n'
    out = []

    def mk(lang_ix, libs, apps, imports):      # lang_ix: index into LANGS (import statements exist in TypeScript and Kotlin only)
        files = {f'{c}/src/lib.rs': lib(c, ts) for c, ts in libs.items()}
        for k, (uses, refs) in enumerate(apps):
            files[f'app/src/m{k}.rs'] = app(k, uses, refs)
        defs = {c: {n: g.lstrip('=') for n, g in ts} for c, ts in libs.items()}     # a generated name written '=N' is a no-op #[serde(rename = "N")] on N
        out.append({'files': files, 'ambiguity': imports_ambiguity(set(imports), defs), 'lang_ix': lang_ix})
    # class 1, the witness of KNOWN_FINDINGS C06-ambiguous-imports (Proofs/C06MultiWitness.v ws_amb)
    mk(0, {'alpha': [('Item', 'AlphaItem')], 'beta': [('Item', 'BetaItem')]},
       [(['use alpha::Item;'], ['Item']), (['use beta::Item;'], ['Vec<Item>'])], [('alpha', 'Item'), ('beta', 'Item')])
    # class 1 where the two classes are KNOWN to differ (see the module docstring): a no-op rename on alpha's Node, beta renames its Node
    mk(5, {'alpha': [('Node', '=Node')], 'beta': [('Node', 'TwinNode')]},
       [(['use alpha::Node;'], ['Node']), (['use beta::Node;'], ['Node', 'Vec<Node>'])], [('alpha', 'Node'), ('beta', 'Node')])
    # in NO class: one name generated by two crates WITHOUT any rename, imported explicitly from each of them in different files of the
    # importing crate: both import lines are written, whatever order the files arrive in (seeded C06_g: when the files of a crate are
    # merged, a name that is already imported keeps its import and the later one is dropped - the first file to arrive decides)
    for lang_ix in (0, 1):
        mk(lang_ix, {'alpha': [('Settings', 'Settings')], 'beta': [('Settings', 'Settings')]},
           [(['use alpha::Settings;'], ['Settings']), (['use beta::Settings;'], ['Vec<Settings>'])], [('alpha', 'Settings'), ('beta', 'Settings')])
    # class 2: the crate named by the use is unknown (a re-export), two crates generate the name
    mk(0, {'alpha': [('Leaf', 'Leaf')], 'beta': [('Item', 'Item')], 'gamma': [('Item', 'Item')]},
       [(['use zz::Item;'], ['Item']), (['use alpha::Leaf;'], ['Leaf'])], [('zz', 'Item'), ('alpha', 'Leaf')])
    # class 2: the crate named by the use generates no type of that name, two others do (one of them under a serde rename)
    mk(1, {'alpha': [('Leaf', 'Leaf')], 'beta': [('Item', 'Item')], 'gamma': [('Thing', 'Item')]},
       [(['use alpha::Item;', 'use alpha::Leaf;'], ['Item', 'Leaf'])], [('alpha', 'Item'), ('alpha', 'Leaf')])
    # formerly class 2, unambiguous since the fix: alpha's Item is serde-renamed (its table holds AlphaItem), beta and gamma generate Item
    for lang_ix in (0, 1):
        mk(lang_ix, {'alpha': [('Item', 'AlphaItem')], 'beta': [('Item', 'Item')], 'gamma': [('Item', 'Item')]},
           [(['use alpha::Item;'], ['Item', 'Vec<Item>'])], [('alpha', 'Item')])
    # ... and two renamed imports from two crates under two different Rust names, next to a glob and an unrenamed import
    mk(1, {'alpha': [('Item', 'AlphaItem'), ('Node', 'Node')], 'beta': [('Leaf', 'BetaLeaf'), ('Item', 'Item')], 'gamma': [('Edge', 'Edge'), ('AlphaItem', 'AlphaItem')]},
       [(['use alpha::{Item, Node};'], ['Item', 'Node']), (['use beta::Leaf;', 'use gamma::*;'], ['Leaf', 'Edge'])],
       [('alpha', 'Item'), ('alpha', 'Node'), ('beta', 'Leaf'), ('gamma', '*')])
    return out


def digest_dir(d):
    out = {}
    for root, _, fs in os.walk(d):
        for f in sorted(fs):
            p = os.path.join(root, f)
            out[os.path.relpath(p, d)] = hashlib.sha256(open(p, 'rb').read()).hexdigest()
    return out


def run_perm(args):
    tree, order, lang, ext, extra, multi = args
    out = vf.tmpdir()
    env = dict(os.environ)
    if order is not None:
        env['TYPESHARE_VERIF_ORDER'] = ','.join(map(str, order))
    if multi:
        cmd = [str(vf.TYPESHARE), '--lang', lang, '-d', str(out / 'gen')] + extra + [str(tree)]
    else:
        cmd = [str(vf.TYPESHARE), '--lang', lang, '-o', str(out / f'out.{ext}')] + extra + [str(tree)]
    # a run that hits the time limit is repeated (twice at most): a hang of the code under test under this arrival order repeats, a stall
    # of the machine does not (thorough tier, once: a 20 ms run timed out while the sandbox was being snapshotted - the replay and 1500
    # stress runs of the same order finish in under 0.3 s; reporting that as "different output bytes" was a false alarm)
    for attempt in range(3):
        try:
            p = subprocess.run(['timeout', '30'] + cmd, capture_output=True, text=True, timeout=40, env=env)
            rc = p.returncode
        except subprocess.TimeoutExpired:
            rc = 124
        if rc != 124:
            break
        shutil.rmtree(out, ignore_errors=True)
        out = vf.tmpdir()
        if multi:
            cmd = [str(vf.TYPESHARE), '--lang', lang, '-d', str(out / 'gen')] + extra + [str(tree)]
        else:
            cmd = [str(vf.TYPESHARE), '--lang', lang, '-o', str(out / f'out.{ext}')] + extra + [str(tree)]
    dg = digest_dir(out)
    text = None
    if not multi and (out / f'out.{ext}').exists():
        text = (out / f'out.{ext}').read_text()
    shutil.rmtree(out, ignore_errors=True)
    return rc, dg, text


def run(chk):
    chk.rule = ('(a) seeded trees of k files (k = 2..5 quick, ..6 thorough) with 1-3 annotated items each (all kinds, consts where the back end has '
                'them, distinct names; a few trees with two same-named structs), run under ALL k! arrival orders via the hook, rotating over the six '
                'languages, single-file and multi-file (files spread over 2-3 crates); (b) trees of 100-300 files run repeatedly as fresh processes '
                'without the hook under taskset with 1,2,4,8,16 CPUs; (c) seeded workspaces of 2-3 library crates (types from a pool of four names, half of '
                'them serde-renamed) and an importing crate of 2-3 files (explicit, grouped and glob imports), multi-file mode, as repeated fresh processes '
                'and under hook-chosen arrival orders; a varying output is judged by the extracted Gallina class Proofs.C06Multi.ws_ambiguity of the workspace '
                '(driver command c06_ws_class), the Python class is only compared with it. '
                'non-trivial = distinct (tree, arrival order) / distinct process runs / distinct workspaces')
    chk.assumptions = ['arrival order is injected by the cfg(typeshare_verif) hook in cli/src/parse.rs (buffer, sort by smallest item name, permute)',
                       'real thread scheduling and HashMap seeds are sampled (part b), not enumerated']
    chk.prepare(need_cli=True)
    if not (chk.harness_ok and chk.cli_ok):
        return
    rng = chk.rng
    kmax = 5 if chk.tier == 'quick' else 6
    ntrees = 24 if chk.tier == 'quick' else 80
    work = vf.tmpdir()
    jobs, meta = [], []
    trees = []
    for t in range(ntrees):
        lang, ext, extra, cfg = LANGS[t % len(LANGS)]
        k = 2 + (t % (kmax - 1))
        multi = (t % 4 == 3)
        equal = (t % 10 == 9)
        only = None
        if t % 5 == 2:
            only = ['const', 'struct', 'enum', 'alias'][(t // 5) % 4]
            if only == 'const' and lang not in ('typescript', 'go', 'python'):
                only = 'alias'
        if lang in ('typescript', 'go', 'python') and (t // 6) % 2 == 1 and not equal:
            only = 'const'
        files = make_files(rng, k, lang, equal_names=equal, only=only)
        chk.count('trees_only_' + str(only))
        tree = work / f't{t}'
        crates = ['alpha', 'beta', 'gamma']
        for i, src in enumerate(files):
            d = tree / (crates[i % 3] if multi else 'one') / 'src'
            d.mkdir(parents=True, exist_ok=True)
            (d / f'f{i}.rs').write_text(src)
        trees.append((tree, files, lang, ext, extra, cfg, multi, equal, k))
        for order in itertools.permutations(range(k)):
            jobs.append((tree, order, lang, ext, extra, multi))
            meta.append((t, order))
    with concurrent.futures.ThreadPoolExecutor(max_workers=vf.NPROC) as ex:
        outs = list(ex.map(run_perm, jobs))
    by_tree = {}
    for (t, order), o in zip(meta, outs):
        by_tree.setdefault(t, []).append((order, o))
    model_req, model_idx = [], []
    for t, (tree, files, lang, ext, extra, cfg, multi, equal, k) in enumerate(trees):
        runs = by_tree[t]
        chk.count('hook_runs', len(runs))
        chk.count(f'trees_{lang}_{"multi" if multi else "single"}')
        ref_order, (ref_rc, ref_dg, ref_text) = runs[0]
        bad = [(o, r) for o, r in runs if r[0] != ref_rc or r[1] != ref_dg]
        for o, r in runs:
            chk.evaluations += 1
            chk.nontrivial.add((t, o))
        payload = {'files': files, 'lang': lang, 'multi_file': multi, 'reference_order': list(ref_order), 'reference': {'rc': ref_rc, 'digests': ref_dg}}
        if any(r[0] not in (0, 1) for _, r in runs):
            chk.count('crashed_runs (C07)')
        if bad:
            payload['differing_order'] = list(bad[0][0])
            payload['differing'] = {'rc': bad[0][1][0], 'digests': bad[0][1][1]}
            if equal:
                if not chk.known('C06-equal-names', payload):
                    chk.violation(f'tree{t}', payload, 'two arrival orders give different output (two items share a name); not a recorded open finding')
            else:
                chk.violation(f'tree{t}', payload, f'arrival orders {list(ref_order)} and {list(bad[0][0])} of the same {k} files give different output bytes ({lang})')
        elif t < 3:
            chk.sample({'files': k, 'lang': lang, 'orders': len(runs), 'distinct_outputs': 1})
        # the identity arrival order against the model (single-file only; hook order = sorted by smallest item name)
        if not multi and ref_rc == 0 and ref_text is not None and not equal:
            asts = vf.impl([{'cmd': 'ast', 'src': s} for s in files])
            if all('ok' in a for a in asts):
                model_req.append(f'(c06_gen {lang} {back.cfg_sx(dict(cfg, no_version_header=False, version=vf.core_version()))} {Lst(asts, lambda a: "(" + a["ok"] + " " + a["tstrs"] + ")")})')
                model_idx.append((t, ref_text))
    for (t, text), m in zip(model_idx, vf.model(model_req)):
        chk.evaluations += 1
        mt = vf.unS(m[1]) if isinstance(m, list) and m[0] == 'ok' else None
        if mt != text:
            chk.violation(f'model-tree{t}', {'correspondence': 'Model.Collect.single_file_input + back end vs the real binary on a multi-file tree', 'files': trees[t][1],
                                             'lang': trees[t][2], 'model': mt, 'impl': text}, 'model output differs from the real binary on a multi-file tree', no_input=True)
    # ---- (b) repeated fresh processes, no hook, varying CPU sets
    nbig = 2 if chk.tier == 'quick' else 6
    reps = [1, 2, 4, 8, 16, 16] if chk.tier == 'quick' else [1, 2, 3, 4, 6, 8, 12, 16, 16, 16, 16, 16]
    taskset = shutil.which('taskset')
    for b in range(nbig):
        lang, ext, extra, cfg = LANGS[(b * 2) % len(LANGS)]
        multi = b % 2 == 1
        tree = work / f'big{b}'
        nfiles = rng.randint(100, 300)
        for i in range(nfiles):
            d = tree / (f'crate{i % 7}' if multi else 'one') / 'src' / f'm{i % 5}'
            d.mkdir(parents=True, exist_ok=True)
            kind = i % 4
            body = {0: f'#[typeshare]\npub struct S{i} {{ pub a: u32, pub b: Option<String> }}\n',
                    1: f'#[typeshare]\npub enum E{i} {{ A, B }}\n',
                    2: f'#[typeshare]\npub type A{i} = Vec<String>;\n',
                    3: (f'#[typeshare]\npub const C{i}: u32 = {i};\n' if lang in ('typescript', 'go', 'python') else f'#[typeshare]\npub struct T{i} {{ pub x: bool }}\n')}[kind]
            (d / f'f{i}.rs').write_text(body)
        results = []
        for ncpu in reps:
            out = vf.tmpdir()
            cmd = [str(vf.TYPESHARE), '--lang', lang] + (['-d', str(out / 'gen')] if multi else ['-o', str(out / f'out.{ext}')]) + extra + [str(tree)]
            if taskset:
                cmd = [taskset, '-c', f'0-{ncpu - 1}'] + cmd
            p = subprocess.run(['timeout', '60'] + cmd, capture_output=True, text=True)
            results.append((ncpu, p.returncode, digest_dir(out)))
            shutil.rmtree(out, ignore_errors=True)
            chk.evaluations += 1
            chk.nontrivial.add(('big', b, len(results)))
        chk.count('fresh_process_runs', len(results))
        ref = results[0]
        for r in results[1:]:
            if (r[1], r[2]) != (ref[1], ref[2]):
                chk.violation(f'big{b}', {'tree': f'{nfiles} generated files, lang {lang}, multi_file {multi}', 'run_a': {'cpus': ref[0], 'rc': ref[1], 'digests': ref[2]},
                                          'run_b': {'cpus': r[0], 'rc': r[1], 'digests': r[2]}},
                              f'two runs over the same {nfiles} files ({lang}) produced different output ({ref[0]} vs {r[0]} CPUs)')
                break
        else:
            chk.sample({'files': nfiles, 'lang': lang, 'multi_file': multi, 'fresh_processes': len(results), 'cpu_sets': reps, 'distinct_outputs': 1})
    # ---- (b2) every back end's configuration tables and per-item decorators, repeated fresh processes (fresh hash seeds): a
    # HashMap / HashSet iterated while emitting shows only when it holds two or more entries (seeded C06_f: Swift's default generic
    # constraints collected into a HashSet and printed in its iteration order for parameters that carry swiftGenericConstraints;
    # seeded C06_h: type_mappings keys folded to their last path segment while rebuilding the map - of the three `..::Duration` keys,
    # which on the unchanged code match nothing, the one inserted last won)
    RICH_SRC = ('#[typeshare(swift = "Equatable, Hashable, Comparable")]\n#[typeshare(swiftGenericConstraints = "T: Equatable & Hashable, U: Comparable")]\n'
                'pub struct Page<T, U> { pub items: Vec<T>, pub extra: Option<U>, pub user_id: String, pub callback_url: Url, pub at: DateTime, pub data: Vec<u8> }\n'
                '#[typeshare]\n#[typeshare(swiftGenericConstraints = "K: Hashable")]\n#[serde(tag = "t", content = "c")]\npub enum Event<K> { A(K), B { api_id: u32, raw: Vec<u8> }, C }\n'
                '#[typeshare]\n#[typeshare(swift = "Sendable")]\npub enum Kind { IdOnly, UrlOnly }\n#[typeshare]\npub type Ids<T> = Vec<T>;\n#[typeshare]\npub struct Plain { pub uuid: Uuid, pub html: String, pub timeout: Duration, pub waits: Vec<chrono::Duration> }\n')
    RICH_CFG = ('[swift]\nprefix = "OP"\ndefault_decorators = ["Sendable", "Identifiable", "CustomStringConvertible"]\ndefault_generic_constraints = ["Sendable", "Identifiable", "CustomStringConvertible"]\n'
                'codablevoid_constraints = ["Equatable", "Hashable", "Sendable"]\n[swift.type_mappings]\n"std::time::Duration" = "Double"\n"chrono::Duration" = "TimeInterval"\n"time::Duration" = "Int64"\n"Url" = "URL"\n"DateTime" = "Date"\n"Uuid" = "UUID"\n'
                '[kotlin]\npackage = "com.p"\nprefix = "OP"\n[kotlin.type_mappings]\n"std::time::Duration" = "Long"\n"chrono::Duration" = "Double"\n"time::Duration" = "String"\n"Url" = "String"\n"DateTime" = "String"\n"Uuid" = "String"\n'
                '[scala]\npackage = "com.p"\n[scala.type_mappings]\n"std::time::Duration" = "Long"\n"chrono::Duration" = "Double"\n"time::Duration" = "String"\n"Url" = "String"\n"DateTime" = "String"\n"Uuid" = "String"\n'
                '[typescript.type_mappings]\n"std::time::Duration" = "number"\n"chrono::Duration" = "string"\n"time::Duration" = "DurationDto"\n"Url" = "string"\n"DateTime" = "Date"\n"Uuid" = "string"\n"Vec<u8>" = "Uint8Array"\n'
                '[go]\npackage = "p"\nuppercase_acronyms = ["ID", "URL", "API", "UUID", "HTML"]\n[go.type_mappings]\n"std::time::Duration" = "int64"\n"chrono::Duration" = "float64"\n"time::Duration" = "string"\n"Url" = "string"\n"DateTime" = "time.Time"\n"Uuid" = "string"\n"Vec<u8>" = "[]byte"\n'
                '[python.type_mappings]\n"std::time::Duration" = "int"\n"chrono::Duration" = "float"\n"time::Duration" = "str"\n"Url" = "AnyUrl"\n"DateTime" = "datetime"\n"Uuid" = "str"\n"Vec<u8>" = "bytes"\n')
    rich = work / 'rich'
    (rich / 'lib' / 'src').mkdir(parents=True)
    (rich / 'lib' / 'src' / 'lib.rs').write_text(RICH_SRC)
    (rich / 'typeshare.toml').write_text(RICH_CFG)
    nrep = 12 if chk.tier == 'quick' else 40
    for lang, ext, extra, cfg in LANGS:
        for multi in (False, True):
            seen_out = {}
            for r in range(nrep):
                out = vf.tmpdir()
                cmd = [str(vf.TYPESHARE), '--lang', lang, '-c', str(rich / 'typeshare.toml')] + (['-d', str(out / 'gen')] if multi else ['-o', str(out / f'out.{ext}')]) + [str(rich / 'lib')]
                p = subprocess.run(['timeout', '60'] + cmd, capture_output=True, text=True)
                key = (p.returncode, json.dumps(digest_dir(out), sort_keys=True))
                if key not in seen_out:
                    texts = {str(f.relative_to(out)): f.read_text(errors='replace') for f in sorted(out.rglob('*')) if f.is_file()}
                    seen_out[key] = texts
                shutil.rmtree(out, ignore_errors=True)
                chk.evaluations += 1
            chk.count('config_rich_runs', nrep)
            if len(seen_out) > 1:
                a, b2 = list(seen_out.values())[:2]
                chk.violation(f'rich-{lang}-{"multi" if multi else "single"}', {'lang': lang, 'multi_file': multi, 'source': RICH_SRC, 'typeshare_toml': RICH_CFG, 'output_a': a, 'output_b': b2,
                                                                               'distinct_outputs': len(seen_out), 'runs': nrep},
                              f'{nrep} identical runs ({lang}, {"folder" if multi else "single-file"} mode, configuration tables with several entries) produced {len(seen_out)} different outputs')
            else:
                chk.nontrivial.add(('rich', lang, multi))
    # ---- (c) multi-file mode with cross-crate imports: fresh processes (fresh hash seeds) and, via the hook, arrival orders.
    # Import sets are HashSets merged per crate; renames and import lines are resolved through them. The input classes in
    # which the UNCHANGED code already picks by hash order are decided on the input (imports_ambiguity: two classes; globs are
    # in neither since the /repo fix of the wildcard branch of used_imports) and are recorded findings.
    nws = 30 if chk.tier == 'quick' else 200
    reps_c = 8 if chk.tier == 'quick' else 24
    wjobs, wmeta, wss = [], [], []
    directed = directed_import_workspaces()
    for w in range(nws):
        ws = directed[w] if w < len(directed) else import_workspace(rng)
        root = work / f'ws{w}'
        for rel, src in ws['files'].items():
            f = root / rel
            f.parent.mkdir(parents=True, exist_ok=True)
            f.write_text(src)
        wss.append(ws)
        lang, ext, extra, cfg = LANGS[ws.get('lang_ix', [0, 1, 0, 5, 2, 4][w % 6])]
        ws['lang'] = lang
        for r in range(reps_c):
            wjobs.append((root, None, lang, ext, extra, True))
            wmeta.append(w)
        napp = len([f for f in ws['files'] if f.startswith('app/')])
        for order in list(itertools.permutations(range(len(ws['files']))))[:: max(1, (len(ws['files']) > 4) * 7 + 1)][:6]:
            wjobs.append((root, order, lang, ext, extra, True))
            wmeta.append(w)
    with concurrent.futures.ThreadPoolExecutor(max_workers=vf.NPROC) as ex:
        wouts = list(ex.map(run_perm, wjobs))
    per = {}
    for w, o in zip(wmeta, wouts):
        per.setdefault(w, []).append(o)
    # THE JUDGE of part (c) is the Gallina class: Proofs.C06Multi.ws_ambiguity (= Spec.C06MultiSpec.ws_imports_ambiguity on what the
    # collector holds), the very hypothesis of C06_multi_hash_order_irrelevant / C06_multi_end_to_end, extracted and run on the
    # workspace's ASTs (c06_ws_class). The Python imports_ambiguity the generator computes from its own bookkeeping is only compared with it.
    gall = gallina_classes([work / f'ws{w}' for w in range(nws)], wss, [ws['lang'] for ws in wss])
    disagreements = []
    for w, ws in enumerate(wss):
        outs_w = per[w]
        chk.count('import_workspace_runs', len(outs_w))
        chk.evaluations += len(outs_w)
        chk.nontrivial.add(('ws', w))
        py_amb = ws['ambiguity']
        g = gall[w]
        g_ok = g is not None and g['status'] == 'ok'
        amb = g['class'] if g_ok else None                       # classes 1 and 2: the recorded finding C06-ambiguous-imports
        file_amb = g['file_ambiguous'] if g is not None else []   # class 3, per source file: not recorded, the generator never makes one
        chk.count('import_workspaces_' + (amb or 'unambiguous'))
        chk.count('python_class_' + (py_amb or 'unambiguous'))
        if not g_ok:
            chk.count('gallina_class_unavailable')
            chk.violation(f'ws{w}-class', {'correspondence': 'Model.MultiFile.parse_workspace (identity oracle) on a generated multi-crate workspace: the Gallina class '
                                                             'of the workspace cannot be evaluated', 'workspace': ws['files'], 'lang': ws['lang'], 'model': g},
                          'the extracted model does not parse a generated workspace, so its C06 input class is unknown (treated as: in no class)', no_input=True)
        else:
            if not g['distinct']:
                chk.count('gallina_all_distinct_false')
            if file_amb:
                chk.count('gallina_' + FILE_CLASS)
            if amb == py_amb:
                chk.count('class_agree_python_gallina')
                chk.count('class_agree_' + (amb or 'unambiguous'))
            else:
                chk.count('class_disagree_python_gallina')
                chk.count(f'class_disagree_python={py_amb or "unambiguous"}_gallina={amb or "unambiguous"}')
                disagreements.append({'workspace': ws['files'], 'python_class': py_amb, 'gallina_class': amb, 'merged_imports': g['imports'], 'type_table': g['table']})
        distinct = {json.dumps((rc, dg), sort_keys=True) for rc, dg, _ in outs_w}
        payload = {'workspace': ws['files'], 'lang': ws['lang'], 'mode': 'multi-file (-d)', 'ambiguity_class': amb, 'python_class': py_amb,
                   'gallina': g, 'runs': len(outs_w), 'distinct_outputs': [json.loads(x) for x in sorted(distinct)][:3]}
        if any(rc not in (0, 1) for rc, _, _ in outs_w):
            chk.count('crashed_runs (C07)')
        if len(distinct) > 1:
            chk.count('varying_workspaces_' + (amb or 'unambiguous'))
            if amb is None:
                extra_txt = ''
                if file_amb:
                    extra_txt = f'; source file(s) {file_amb} are in the per-file class {FILE_CLASS}, which is not a recorded finding'
                elif py_amb is not None:
                    extra_txt = f'; the Python class ({py_amb}) is not the judge and does not excuse it'
                chk.violation(f'ws{w}', payload, f'{len(distinct)} different outputs over {len(outs_w)} runs of the same multi-crate workspace ({ws["lang"]}); '
                              'the workspace is outside Spec.C06MultiSpec.ws_imports_ambiguity (no import is ambiguous), so nothing may depend on the '
                              'hash seed or arrival order' + extra_txt)
            elif not chk.known('C06-ambiguous-imports', payload):
                chk.violation(f'ws{w}', payload, 'output varies with the hash seed on ambiguous imports; not a recorded open finding')
        elif w < 2:
            chk.sample({'workspace_files': sorted(ws['files']), 'lang': ws['lang'], 'runs': len(outs_w), 'distinct_outputs': 1, 'ambiguity_class': amb,
                        'python_class': py_amb})
    if disagreements:
        chk.notes.append(f'part (c): Python imports_ambiguity and the extracted Gallina class (the judge) differ on {len(disagreements)} of {nws} workspaces; '
                         'sample: ' + json.dumps(disagreements[:2])[:2500])
    shutil.rmtree(work, ignore_errors=True)


def replay(chk, path):
    chk.prepare(need_cli=True)
    d = json.load(open(path))
    print(json.dumps({k: v for k, v in d.items() if k != 'files'}, indent=1)[:3000])
    if isinstance(d.get('workspace'), dict) and d.get('lang'):
        # part (c): re-evaluate the judge (extracted Gallina class) and the Python bookkeeping class recorded with the case
        g = gallina_classes([pathlib.Path('/ws')], [{'files': d['workspace']}], [d['lang']])[0]
        print('gallina class now:', json.dumps(g), ' recorded:', d.get('ambiguity_class'), ' python class recorded:', d.get('python_class'))
    return 0
