"""Generator of C09 programs: 2-8 mutually referencing items of every kind (struct, generic struct,
unit enum, tagged enum with unit / tuple / struct variants, generic tagged enum, alias, generic alias,
Kotlin JvmInline alias, const), any subset carrying serde(rename), references direct / through
containers / as generic arguments / recursive.  Built on the Item/Field/Variant objects of lib/progs.py
and printed by progs.source.  All randomness comes from the rng handed in (chk.rng)."""
import progs
from progs import Item, Field, Variant, Program, t_prim

NAMES = ['Foo', 'Bar', 'Baz', 'Item', 'UserId', 'Config', 'Point', 'Node', 'Color', 'Shape', 'Event', 'Payload', 'Account', 'Vault',
         'IdCard', 'ApiKey', 'Session', 'Token', 'HttpUrl', 'Wrapper',
         # type names that are keywords of a target language (Swift: Type, Protocol, Any; seeded C09_c: a keyword escape at the
         # reference that forgets the prefix the definition carries)
         'Type', 'Protocol', 'Any']
FIELDS = ['a', 'b', 'c', 'd', 'e', 'first', 'second', 'items', 'value', 'next', 'left', 'right', 'owner', 'kind2', 'data']
VARIANTS = ['A', 'B', 'C', 'Ready', 'Failed', 'Leaf', 'Branch', 'Http2', 'IdOnly', 'XyZwQr']
RENAME_STYLES = [lambda n: n + 'Renamed', lambda n: 'New' + n, lambda n: n + '2', lambda n: 'R' + n.lower(), lambda n: n[:1] + 'x' + n[1:]]
# names that begin with a configured Kotlin/Swift prefix (OP, X_) or with a proper prefix of it (O, X): a printer that
# treats "already prefixed" names specially at one site but not at another is only visible on such names
PREFIX_HEADS = [('OP', 'OP'), ('OP', 'OP'), ('O', 'OP'), ('X_', 'X_'), ('X_', 'X_'), ('X', 'X_')]
KINDS = ['struct', 'struct', 'gstruct', 'unit_enum', 'alg_enum', 'alg_enum', 'galg_enum', 'alias', 'alias', 'galias', 'inline_alias', 'ginline_alias']


class Gen:
    def __init__(self, rng):
        self.r = rng

    def ref(self, targets, generics, depth=0):
        """a type expression mentioning one of `targets` (Items) or a generic parameter"""
        r = self.r
        c = r.random()
        if generics and c < 0.2:
            base = ('param', r.choice(generics))
        elif not targets or c < 0.3:
            base = t_prim(r.choice(['u32', 'String', 'bool', 'i32', 'f64']))
        else:
            o = r.choice(targets)
            if o.generics:
                args = []
                for _ in o.generics:
                    if depth >= 2:
                        args.append(t_prim(r.choice(['u32', 'String'])))
                    else:
                        args.append(self.ref(targets, generics, depth + 1))
                base = ('user', o.ident, args)
            else:
                base = ('user', o.ident, [])
        if depth >= 2:
            return base
        w = r.random()
        if w < 0.35:
            return base
        if w < 0.5:
            return ('vec', base, '')
        if w < 0.62:
            return ('option', base)
        if w < 0.72:
            return ('hashmap', t_prim('String'), base, '')
        if w < 0.78:
            return ('array', base, r.choice([2, 3]))
        if w < 0.82:
            return ('slice', base)
        if w < 0.9:
            return ('wrap', 'Box', base)
        if w < 0.95:
            return ('option', ('vec', base, ''))
        return ('vec', ('option', base), '')

    def fields(self, targets, generics, lo, hi):
        r = self.r
        out = []
        for name in r.sample(FIELDS, r.randint(lo, hi)):
            f = Field()
            f.ident = name
            f.ty = self.ref(targets, generics)
            if r.random() < 0.1:
                f.default = True
            out.append(f)
        for g in generics:
            f = Field()
            f.ident = 'g_' + g.lower()
            f.ty = r.choice([('param', g), ('vec', ('param', g), ''), ('option', ('param', g))])
            out.append(f)
        return out

    def program(self, rename_mode=None, with_const=False, n=None, prefix_names=False):
        """rename_mode: None (random subset) | 'none' | 'all' | a set of indices;
        prefix_names: most item names (every kind) begin with a prefix setting or a proper prefix of one;
        prog.c09_prefix is then the setting the names were built for"""
        r = self.r
        prog = Program(r.getrandbits(32))
        n = n or r.randint(2, 8)
        names = r.sample(NAMES, n)
        prog.c09_prefix = None
        if prefix_names:
            head, prog.c09_prefix = r.choice(PREFIX_HEADS)
            pick = {k for k in range(n) if r.random() < 0.7} or {r.randrange(n)}
            names = [head + nm if k in pick else nm for k, nm in enumerate(names)]
        items = []
        kinds = [r.choice(KINDS) for _ in range(n)]
        # make sure that the interesting kinds occur often
        for it_kind, name in zip(kinds, names):
            it = Item()
            it.ident = name
            it.annotated = True
            it.kind = {'gstruct': 'struct', 'galg_enum': 'alg_enum', 'galias': 'alias', 'inline_alias': 'alias', 'ginline_alias': 'alias'}.get(it_kind, it_kind)
            if it_kind in ('gstruct',):
                it.generics = r.choice([['T'], ['T'], ['T', 'U'], ['TId']])     # TId: Go's acronym `id` rewrites it where it is used
            elif it_kind in ('galg_enum', 'galias', 'ginline_alias'):
                it.generics = ['T']
            if it_kind in ('inline_alias', 'ginline_alias'):
                it.extra_attrs.append('#[typeshare(kotlin = "JvmInline")]')
            it.c09_kind = it_kind
            items.append(it)
        if rename_mode == 'none':
            renamed = set()
        elif rename_mode == 'all':
            renamed = set(range(n))
        elif isinstance(rename_mode, (set, frozenset)):
            renamed = rename_mode
        else:
            renamed = {k for k in range(n) if r.random() < 0.45}
        for k, it in enumerate(items):
            if k in renamed:
                it.rename = r.choice(RENAME_STYLES)(it.ident)
        for it in items:
            targets = items              # forward, backward and self references
            if it.kind == 'struct':
                it.fields = self.fields(targets, it.generics, 0 if r.random() < 0.08 and not it.generics else 1, 4)
            elif it.kind == 'unit_enum':
                for v in r.sample(VARIANTS, r.randint(1, 3)):
                    va = Variant()
                    va.ident = v
                    it.variants.append(va)
            elif it.kind == 'alg_enum':
                it.tag, it.content = r.choice([('type', 'content'), ('t', 'c'), ('kind', 'data')])
                for v in r.sample(VARIANTS, r.randint(1, 4)):
                    va = Variant()
                    va.ident = v
                    va.kind = r.choice(['unit', 'tuple', 'tuple', 'struct', 'struct'])
                    if va.kind == 'tuple':
                        va.ty = self.ref(targets, it.generics)
                    elif va.kind == 'struct':
                        va.fields = self.fields(targets, [], 1, 3)
                        if it.generics and r.random() < 0.7:
                            f = Field()
                            f.ident = 'g_t'
                            f.ty = r.choice([('param', 'T'), ('vec', ('param', 'T'), '')])
                            va.fields.append(f)
                    it.variants.append(va)
                if all(v.kind == 'unit' for v in it.variants):      # an all-unit enum with tag/content is rejected by the parser
                    va = Variant()
                    va.ident = 'Last'
                    va.kind = 'tuple'
                    va.ty = self.ref(targets, it.generics)
                    it.variants.append(va)
                if it.generics and not any('T' in progs.show_type(x) for v in it.variants for x in ([v.ty] if v.ty else []) + [f.ty for f in v.fields]):
                    va = Variant()
                    va.ident = 'Gen'
                    va.kind = 'tuple'
                    va.ty = ('param', 'T')
                    it.variants.append(va)
            elif it.kind == 'alias':
                if it.generics:
                    it.ty = r.choice([('vec', ('param', 'T'), ''), ('option', ('param', 'T')), ('param', 'T'),
                                      ('hashmap', t_prim('String'), ('param', 'T'), '')])
                else:
                    c = r.random()
                    if c < 0.3:
                        it.ty = t_prim(r.choice(['u32', 'String', 'i32']))
                    else:
                        it.ty = self.ref([x for x in targets if x is not it], [])
        if with_const:
            num = [x for x in items if x.kind == 'alias' and not x.generics and x.ty[0] == 'prim' and x.ty[1] in ('u32', 'i32')]
            c = Item()
            c.kind = 'const'
            c.ident = 'limit_' + r.choice(['a', 'b', 'max'])
            c.annotated = True
            c.value = str(r.choice([0, 7, 42]))
            if num:
                c.ty = ('user', r.choice(num).ident, [])
            else:
                al = Item()
                al.kind = 'alias'
                al.ident = next(x for x in NAMES if x not in names)
                al.annotated = True
                al.ty = t_prim('u32')
                al.c09_kind = 'alias'
                if r.random() < 0.6 and rename_mode != 'none':
                    al.rename = al.ident + 'Renamed'
                items.append(al)
                c.ty = ('user', al.ident, [])
            c.c09_kind = 'const'
            items.append(c)
        prog.items = items
        return prog


def describe(prog):
    return [(it.c09_kind, it.ident, it.rename) for it in prog.items]
