"""C16 - rename_all case conversion agrees with serde_derive's algorithm.
Proof: Props/C16.v (unbounded identifier length).  Correspondence: three-way comparison of
(1) real typeshare (RenameExt directly, and end-to-end through parser::parse),
(2) real serde_derive case.rs (included from the offline registry into libdrive),
(3) the extracted Gallina model + spec,
exhaustively over class-representative strings, plus a dictionary of real identifiers."""
import itertools, json
import vf
from vf import S, O, unS, sx_get, sx_opt

RULES = ['lowercase', 'UPPERCASE', 'PascalCase', 'camelCase', 'snake_case', 'SCREAMING_SNAKE_CASE', 'kebab-case', 'SCREAMING-KEBAB-CASE']
UNKNOWN_RULES = ['Camelcase', 'snake-case', '', 'lower case']
METHODS = ['pascal', 'camel', 'snake', 'screaming_snake', 'kebab', 'screaming_kebab']
CLASSES = {'l': 'abz', 'u': 'ABZ', 'd': '019', '_': '_', 'n': 'éÉß中жЖ'}
DICT = ['id', 'user_id', 'first_name', 'created_at', 'address_line1', 'address_line_1', 'ip_v4', 'x', 'a1', 'is_ok', '_private', 'trailing_',
        'double__underscore', 'r2d2', 'utf8_string', 'html_body', 'v2_api_key',
        'Foo', 'FooBar', 'AddressLine1', 'Number1', 'Hello', 'A', 'Ab', 'A1', 'HtmlBody', 'UserId', 'V2', 'Ipv4Address', 'X509Cert',
        'URL', 'TOTP', 'AB', 'A1B', 'IOError', 'HTTPServer', 'fooBar', 'userID', 'Foo_Bar', 'FOO_BAR', 'foo', 'aB',
        'étoile', 'Éa', 'straße', 'naïve', '__', '___']
KEYWORDS = {'as', 'do', 'if', 'in', 'fn', 'be', 'abstract', 'become', 'box', 'break', 'const', 'continue', 'crate', 'else', 'enum', 'extern',
            'false', 'final', 'for', 'impl', 'let', 'loop', 'macro', 'match', 'mod', 'move', 'mut', 'override', 'priv', 'pub', 'ref', 'return',
            'self', 'Self', 'static', 'struct', 'super', 'trait', 'true', 'try', 'type', 'typeof', 'unsafe', 'unsized', 'use', 'virtual', 'where',
            'while', 'yield', 'async', 'await', 'dyn', 'gen', 'union'}


def is_ident(s):
    if not s or s == '_' or s in KEYWORDS:
        return False
    if s[0].isdigit():
        return False
    return all(c == '_' or c.isalnum() for c in s) and (s[0] == '_' or s[0].isalpha())


def strings(chk, maxlen):
    out = []
    for n in range(0, maxlen + 1):
        for cls in itertools.product('lud_n', repeat=n):
            out.append(''.join(chk.rng.choice(CLASSES[c]) for c in cls))
    return out + DICT


def outcome_of_impl(r):
    if 'ok' in r:
        return ('ok', r['ok'])
    if 'panic' in r:
        return ('panic', None)
    return ('err', None)


def outcome_of_model(x):
    if x[0] == 'ok':
        return ('ok', unS(x[1]))
    return (x[0], None)


def outcome_sx(o):
    return f'(ok {S(o[1])})' if o[0] == 'ok' else f'({o[0]} x)'


def run(chk):
    chk.rule = ('strings: every sequence of character classes {lower,upper,digit,underscore,non-ASCII} up to length L (quick 5, thorough 7), one '
                'seeded representative per position, plus a dictionary; each string x 6 RenameExt methods directly, and each valid identifier x '
                '(8 rules + unknown rules + no rule) x {field,variant} end-to-end through parser::parse; non-trivial = distinct (position, rule, '
                'identifier) inside the theorem domain (known class = None) with a rule that is one of the eight')
    chk.assumptions = ['serde_derive case.rs is the copy in the offline cargo registry at the version pinned by /repo/Cargo.lock',
                       'Unicode behaviour outside the tabulated code points is not exercised (theorems hold for any table agreeing with ASCII)']
    chk.prepare()
    if not chk.harness_ok:
        return
    maxlen = 5 if chk.tier == 'quick' else 7
    strs = sorted(set(strings(chk, maxlen)))
    chk.count('strings', len(strs))

    # --- 0. Unicode table of the model vs Rust std on exactly the tabulated code points + ASCII
    table = vf.model(['(uc_table)'])[0]
    cps = list(range(0, 128)) + [int(e[0][1:]) for e in table]
    mres = vf.model([f'(uc_eval n{c})' for c in cps])
    ires = vf.impl([{'cmd': 'unicode', 'cp': c} for c in cps])
    for c, m, i in zip(cps, mres, ires):
        mm = (m[0] == 'true', m[1] == 'true', unS(m[2]), unS(m[3]), m[4] == 'true')
        ii = (i['is_upper'], i['is_lower'], i['lower_c'], i['upper_c'], i['is_ws'])
        chk.evaluations += 1
        if mm != ii:
            chk.violation(f'unicode-{c}', {'correspondence': 'Model/Unicode.v uc_exec vs Rust std', 'cp': c, 'model': mm, 'impl': ii},
                          f'Unicode table mismatch at U+{c:04X}', no_input=True)
    tabulated = set(cps)
    strs = [s for s in strs if all(ord(ch) in tabulated for ch in s)]

    # --- 1. the six RenameExt methods directly, any string
    cases = [(m, s) for s in strs for m in METHODS]
    mres = vf.model([f'(c16_direct {m} {S(s)})' for m, s in cases])
    ires = vf.impl([{'cmd': 'rename_direct', 'method': m, 's': s} for m, s in cases])
    mism_direct = []
    for (m, s), a, b in zip(cases, mres, ires):
        chk.evaluations += 1
        om, oi = outcome_of_model(a), outcome_of_impl(b)
        if om != oi:
            mism_direct.append((m, s, om, oi))
    chk.count('direct_calls', len(cases))

    # --- 2. end-to-end, valid identifiers, all rules, both positions; 3-way with real serde
    idents = [s for s in strs if is_ident(s)]
    chk.count('identifiers', len(idents))
    rules = [None] + RULES + UNKNOWN_RULES
    e2e = [(p, r, s) for s in idents for p in ('field', 'variant') for r in rules]
    mres = vf.model([f'(c16 {p} {O(r)} {S(s)})' for p, r, s in e2e])
    ires = vf.impl([{'cmd': 'rename_e2e', 'pos': p, 'rule': r, 's': s} for p, r, s in e2e])
    sres = vf.impl([{'cmd': 'serde_case', 'pos': p, 'rule': r if r is not None else '', 's': s} for p, r, s in e2e])
    good_req, good_idx = [], []
    rows = []
    for k, ((p, r, s), a, b, c) in enumerate(zip(e2e, mres, ires, sres)):
        chk.evaluations += 1
        om = outcome_of_model(sx_get(a, 'model'))
        oi = outcome_of_impl(b)
        known = sx_opt(sx_get(a, 'known'))
        serde_model = sx_opt(sx_get(a, 'serde'), unS)
        # spec validation against the real case.rs
        if r in RULES:
            serde_real = c['ok'] if 'ok' in c else None
            if serde_real != serde_model:
                chk.violation(f'serde-spec-{k}', {'correspondence': 'Spec/SerdeCase.v vs serde_derive case.rs', 'pos': p, 'rule': r, 's': s,
                                                  'spec': serde_model, 'real': serde_real}, 'the Gallina serde spec disagrees with real serde_derive', no_input=True)
        rows.append([p, r, s, om, oi, known, None, serde_model])
        good_req.append(f'(c16_good {p} {O(r)} {S(s)} {outcome_sx(oi)})')
    goods = vf.model(good_req)
    per_class = {}
    corr_broken = []
    for row, g in zip(rows, goods):
        p, r, s, om, oi, known, _, serde_model = row
        good = (g == 'true')
        equal = (om == oi)
        payload = {'pos': p, 'rule': r, 'ident': s, 'typeshare': oi, 'model': om, 'serde': serde_model, 'known_class': known}
        if known is None and r in RULES:
            chk.nontrivial.add((p, r, s))
        if good and equal:
            continue
        if not good and known is None:
            chk.violation(f'{p}-{r}-{s}', payload, f'typeshare computes {oi} for {p} {s!r} under {r!r}, serde computes {serde_model!r}')
        elif not good and not equal:
            chk.violation(f'{p}-{r}-{s}', payload, f'{p} {s!r} under {r!r} fails differently from what finding class {known} predicts')
        elif not good:
            if not chk.known(known, payload):
                chk.violation(f'{p}-{r}-{s}', payload, f'{p} {s!r} under {r!r}: typeshare {oi}, serde {serde_model!r}; class {known} is not a recorded open finding')
            else:
                per_class.setdefault(known, payload)
        elif known is not None:
            chk.count('known_class_input_where_impl_differs_from_model_but_is_good')
        else:
            corr_broken.append(payload)
    for k, v in per_class.items():
        chk.sample({'known_finding_witness': v})
    for (p, r, s) in [('field', 'camelCase', 'address_line1'), ('variant', 'SCREAMING-KEBAB-CASE', 'AddressLine1')]:
        chk.sample({'pos': p, 'rule': r, 'ident': s})
    # correspondence broken on inputs the theorem covers, or on direct calls, and no failing input found
    if not [v for v in chk.violations if not v[2]]:
        if corr_broken:
            chk.violation('correspondence-e2e', {'correspondence': 'Model.Rename.rename_all_to_case vs parser::parse', 'cases': corr_broken[:10]},
                          'model and implementation disagree on identifiers the theorem covers, yet every name still equals serde\'s', no_input=True)
        if mism_direct:
            chk.violation('correspondence-direct', {'correspondence': 'Model.Rename.* vs RenameExt', 'cases': [dict(method=m, s=s, model=a, impl=b) for m, s, a, b in mism_direct[:10]]},
                          'model and implementation of RenameExt disagree', no_input=True)
    # thorough tier: a sample re-evaluated INSIDE Coq (vm_compute) against what the extracted model answered
    if chk.tier == 'thorough':
        eqs = []
        step = max(1, len(e2e) // 600)
        for (p, r, s), a in list(zip(e2e, mres))[::step]:
            om = outcome_of_model(sx_get(a, 'model'))
            rule = 'None' if r is None else f'(Some {vf.coq_lit_str(r)})'
            rhs = f'Ok {vf.coq_lit_str(om[1])}' if om[0] == 'ok' else None
            if rhs:
                eqs.append(f'rename_all_to_case uc_exec {vf.coq_lit_str(s)} {rule} = {rhs}')
        fails = vf.coq_check_equalities('From TS Require Import Model.Str Model.Outcome Model.Unicode Model.Rename.', eqs)
        chk.count('in_coq_reevaluated', len(eqs))
        for f in fails:
            chk.violation('extraction-crosscheck', {'correspondence': 'extracted OCaml model vs vm_compute inside Coq', 'detail': f[2]}, 'the extracted model disagrees with Coq\'s own evaluation', no_input=True)
    chk.count('e2e_cases', len(e2e))
    chk.count('direct_mismatches', len(mism_direct))


def replay(chk, path):
    chk.prepare()
    d = json.load(open(path))
    p, r, s = d['pos'], d['rule'], d['ident']
    a = vf.model([f'(c16 {p} {O(r)} {S(s)})'])[0]
    b = vf.impl([{'cmd': 'rename_e2e', 'pos': p, 'rule': r, 's': s}])[0]
    print('model:', a)
    print('impl :', b)
    return 0
