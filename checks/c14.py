"""C14 - multi-file mode partitions types by crate and imports cross-crate references.
Proof: Props/C14.v (37 theorems: partition = find_crate_name of the path, every file holds exactly the declarations of
its crate's sources, union over the files = the single-file run; imports sound unconditionally - an import names a
TYPE of its module, never a const -, complete on dom_C14 = named references (serde-renamed targets included: the import
names the generated name) and references covered by a glob import,
good_C14 holds of the model for every workspace and every iteration order, the import list used_imports builds does not
depend on the iteration order of the import set (as a set of pairs and as a value); one witness per open finding class, one regression pin per class repaired in
/repo: C14-glob, C14-glob-order, C14-glob-const, C14-renamed-import, C14-kotlin-import-prefix; for Kotlin the import
block is one line `import <package>.<module>.<prefix><name>` per pair and the module's file declares that very class,
C14_kotlin_import_block / C14_kotlin_imports_name_declared_classes).
Correspondence, through the REAL BINARY with `-d`: generated workspaces of 1-5 crates (directory names with
dashes / underscores / digits, files at depth 0-3 under <crate>/src, files outside any src, nested
src/../src), cross-crate references introduced by every `use` form of the property and by qualified
paths, serde-renamed targets, type mappings, same-named types, ignored and unknown crates.
Observed per language (all six): the set of files written and their names; the definitions in each file
(union over files = the definitions of the single-file `-o` run on the same tree); for TypeScript and
Kotlin the import statements.  Kotlin runs twice, without and WITH a prefix (`--kotlin-prefix KP`): the import reader strips
the prefix (a Kotlin import names prefix + generated name - an imported name that lacks the prefix is kept, marked, and matches
nothing), and every imported name must be DECLARED in the file of the module it is imported from (closed world, both languages).  Compared with (a) the extracted model byte for byte (whole files, all six
languages), (b) the extracted Spec.C14Spec predicates evaluated on the OBSERVED import pairs (sound;
complete on dom_C14; finding classes).  Where the model takes a hash-iteration order as an argument the
model is evaluated under several orders and the binary is run repeatedly: only the same-name fallback (C14-same-name)
may vary; a glob import next to an explicit import of the same crate must give ONE output under every order and in
every run (it did not before the /repo fix of mod.rs:472)."""
import concurrent.futures, json, os, pathlib, re, shutil, subprocess
import vf, progs, back
from vf import S, Lst, sx_opt

KT_PREFIX = 'KP'
# the first component is a LABEL: `kotlin+prefix` is the language kotlin under `--kotlin-prefix KP` (base() gives the language)
LANGS = [('typescript', 'ts', [], {}), ('kotlin', 'kt', ['--java-package', 'p'], {'package': 'p'}), ('swift', 'swift', [], {}),
         ('scala', 'scala', ['--scala-package', 'p'], {'package': 'p'}), ('go', 'go', ['--go-package', 'p'], {'package': 'p'}), ('python', 'py', [], {}),
         ('kotlin+prefix', 'kt', ['--java-package', 'p', '--kotlin-prefix', KT_PREFIX], {'package': 'p', 'prefix': KT_PREFIX})]
IMPORT_LANGS = ('typescript', 'kotlin', 'kotlin+prefix')
NO_PREFIX_MARK = '<unprefixed>'


def base(lang):
    return lang.split('+')[0]


def prefix_of(lang):
    return KT_PREFIX if lang.endswith('+prefix') else ''
CRATE_DIRS = ['alpha', 'beta-core', 'gamma_util', 'op-proxy2', 'x9', 'data-model', 'net_io', 'a1-b2_c3', 'delta', 'my-crate', 'core2', 'zeta_9-x', 'k-8s', 'u_i',
              'two-dash-crate', 'x-y-z', 'q--r']
# module directories below src; the last ones are named like crates the import collector ignores when they are the BASE of a path
# (std, serde, time, http, regex, ...) or do not start with a lowercase letter: as inner path segments they must make no difference
SUBDIRS = [[], [], ['m1'], ['m1', 'm2'], ['deep', 'er', 'est'], ['api'], ['model', 'v1'], ['a', 'b', 'c'],
           ['time'], ['http', 'v2'], ['m1', 'regex'], ['serde'], ['std', 'x'], ['_gen'], ['Models'], ['tokio', 'time']]
GROUPS = [[], [], [], ['libs'], ['crates', 'shared']]
FILE_STEMS = ['lib', 'mod', 'types', 'x', 'model', 'dto', 'y2', 'time', 'zip', 'anyhow']
NAME_POOL = progs.TYPE_IDENTS + [n + s for s in ('Dto', 'Info', 'Spec', 'Rec') for n in progs.TYPE_IDENTS]
ORDERS = [(0, 0, 0), (1, 1, 1), (0, 0, 1), (2, 2, 0), (3, 3, 0), (2, 2, 1), (3, 3, 1)]

# ------------------------------------------------------------------ observation: definitions and imports in generated text
DEF_RE = {
    'typescript': re.compile(r'^export (interface|type|enum|const) (\w+)', re.M),
    'kotlin': re.compile(r'^(data class|object|sealed class|enum class|typealias|value class) (\w+)', re.M),
    'swift': re.compile(r'^public (struct|enum|indirect enum|typealias) (\w+)', re.M),
    'scala': re.compile(r'^\s*(case class|class|sealed trait|case object|object|type) (\w+)', re.M),
    'go': re.compile(r'^(type) (\w+)', re.M),
    'python': re.compile(r'^(class) (\w+)|^()(\w+) = (?!TypeVar\()', re.M),
}
NOT_DEFS = {'typescript': {'ReviverFunc', 'ReplacerFunc'}, 'scala': {'UByte', 'UShort', 'UInt', 'ULong'}, 'kotlin': set(), 'swift': set(), 'go': set(), 'python': set()}


def definitions(lang, text):
    lang = base(lang)
    out = []
    for m in DEF_RE[lang].finditer(text):
        g = [x for x in m.groups() if x is not None]
        kind, name = (g[0], g[1]) if len(g) >= 2 else ('', g[-1])
        if lang == 'scala' and kind == 'object' and name == 'p':
            continue                      # the package object wrapper
        if name not in NOT_DEFS[lang]:
            out.append((kind, name))
    return sorted(out)


def raw_imports_of(lang, text):
    """(module, name as printed) of the import statements of one generated file"""
    if base(lang) == 'kotlin':
        return [(m.group(1), m.group(2)) for m in re.finditer(r'^import p\.([^.\n]+)\.(\S+)$', text, re.M)]
    return imports_of(lang, text)


def imports_of(lang, text):
    """(module, GENERATED name) pairs of the import statements of one generated file.  Kotlin prints prefix + generated name
    (Spec.C14KotlinSpec.c14_kt_import_line): the prefix is stripped; a printed name that lacks it stands for no generated name"""
    pairs = []
    pfx = prefix_of(lang)
    lang = base(lang)
    if lang == 'typescript':
        for m in re.finditer(r'^import \{ (.*?) \} from "\./(.*?)";$', text, re.M):
            for n in m.group(1).split(', '):
                if n.strip():              # `import {  } from "./k";`: a glob import of a crate without types
                    pairs.append((m.group(2), n))
    elif lang == 'kotlin':
        for m in re.finditer(r'^import p\.([^.\n]+)\.(\S+)$', text, re.M):
            nm = m.group(2)
            pairs.append((m.group(1), nm[len(pfx):] if nm.startswith(pfx) else NO_PREFIX_MARK + nm))
    return pairs


# ------------------------------------------------------------------ workspaces
class Ws:
    def __init__(self):
        self.files = {}            # relative path (tuple of components) -> source text
        self.mappings = {}         # type_mappings for the import languages
        self.tags = set()          # features the generator planted (for counters / non-triviality)
        self.maybe_order_dependent = False      # the same-name fallback is planted: the one construct whose result may vary
        self.glob_mix = False                   # a glob next to an explicit import of the same crate: run repeatedly, must NOT vary
        self.expect_crash = False
        self.desc = ''


def file_obs(lang, text):
    """what C14 observes in one generated file: its definitions and (TS/Kotlin) its import pairs"""
    if text is None:
        return None
    return (sorted(definitions(lang, text)), sorted(imports_of(lang, text)) if lang in IMPORT_LANGS else [])


def crate_name(d):
    return d.replace('-', '_')


def modpath(sub, stem):
    return list(sub) + ([] if stem in ('lib', 'mod') else [stem])


def gen_workspace(rng, allow_const):
    ws = Ws()
    gen = progs.ProgGen(rng, progs.Profile(n_items=(1, 3), p_unannotated=0.1, p_nested=0.1, allow_const=allow_const, p_rename_type=0.2))
    names = NAME_POOL[:]
    rng.shuffle(names)
    ncr = rng.choice([1, 2, 2, 3, 3, 3, 4, 5])
    dirs = rng.sample(CRATE_DIRS, ncr)
    crates = []                    # dict(dir, name, base, files=[dict(path, sub, stem, prog)])
    for d in dirs:
        base = tuple(rng.choice(GROUPS)) + (d, 'src')
        c = {'dir': d, 'name': crate_name(d), 'base': base, 'files': []}
        for _ in range(rng.choice([1, 1, 2, 2, 3])):
            for _try in range(10):
                sub, stem = rng.choice(SUBDIRS), rng.choice(FILE_STEMS)
                path = base + tuple(sub) + (stem + '.rs',)
                if all(f['path'] != path for f in c['files']):
                    break
            else:
                continue
            prog = progs.Program(rng.getrandbits(32))
            for _ in range(rng.randint(1, 3)):
                if not names:
                    break
                it = gen.item(names.pop(), prog.items)
                prog.items.append(it)
            if not any(i.annotated for i in prog.items):
                prog.items[0].annotated = True
            c['files'].append({'path': path, 'sub': sub, 'stem': stem, 'prog': prog, 'uses': [], 'crate': c})
        crates.append(c)
    ws.tags.add(f'crates{ncr}')
    ws.tags.add('depth' + str(max(len(f['sub']) for c in crates for f in c['files'])))
    allfiles = [f for c in crates for f in c['files']]
    # a generic envelope type per crate (`pub struct Env2<T> { pub inner: T }`): the outer type of NESTED qualified references
    # `e::..::Env2<d::..::Name>` - the inner path occurs only inside the generic arguments of another qualified path
    envelopes = []                 # (file, item)
    for k, c in enumerate(crates):
        if c['files'] and rng.random() < 0.8:
            f = rng.choice(c['files'])
            it = progs.Item()
            it.ident, it.kind, it.generics = f'Env{k}', 'struct', ['T']
            fld = progs.Field()
            fld.ident, fld.ty = 'inner', ('param', 'T')
            it.fields = [fld]
            f['prog'].items.append(it)
            envelopes.append((f, it))

    def targets_of(f, same_crate):
        out = []
        for g in allfiles:
            if g is f or (g['crate'] is f['crate']) != same_crate:
                continue
            for it in g['prog'].items:
                if it.annotated and it.kind != 'const' and not it.nest and it.ident != 'Shared':
                    out.append((g, it))
        return out

    # same-named types in two crates, used from a third through a `use` naming one of them
    same = None
    if ncr >= 3 and rng.random() < 0.25:
        a, e, b = rng.sample(crates, 3)
        for c in (a, e):
            it = progs.Item()
            it.ident, it.kind = 'Shared', 'struct'
            fld = progs.Field()
            fld.ident, fld.ty = ('of_' + c['name'])[:12], progs.t_prim('u8')
            it.fields = [fld]
            c['files'][0]['prog'].items.append(it)
        same = (a, e, b, rng.random() < 0.6)      # last: the use names one of the two crates (else an unknown crate)
        ws.tags.add('same-name')
        if same[3]:
            b.setdefault('explicit', set()).add(a['name'])
    link = 0
    for f in allfiles:
        if rng.random() < 0.15:
            continue
        refs = []
        cross = targets_of(f, False)
        local = targets_of(f, True)
        rng.shuffle(cross)
        rng.shuffle(local)
        picks = [(g, it, False) for g, it in cross[:rng.choice([0, 1, 1, 2, 3])]] + [(g, it, True) for g, it in local[:rng.choice([0, 0, 1])]]
        tree_names = {}            # target crate -> names to put in one grouped / nested use
        globbed, explicit = set(), set()
        for g, it, is_local in picks:
            d = g['crate']['name']
            mods = modpath(g['sub'], g['stem'])
            args = [progs.t_prim(rng.choice(['u8', 'String', 'bool'])) for _ in it.generics]
            name = it.ident
            if is_local:
                mode = rng.choice(['use_crate', 'use_super', 'use_self', 'q_crate', 'q_super'])
                ws.tags.add(mode)
                head = {'use_crate': 'crate', 'use_super': 'super', 'use_self': 'self', 'q_crate': 'crate', 'q_super': 'super'}[mode]
                p = '::'.join([head] + (mods if head != 'super' else []))
                if mode.startswith('use_'):
                    f['uses'].append(f'use {p}::{name};')
                    t = ('user', name, args)
                else:
                    t = ('raw', p + '::' + progs.show_type(('user', name, args)))
            else:
                mode = rng.choice(['single', 'single', 'tree', 'tree', 'glob', 'qualified', 'qualified'])
                # a glob next to an explicit import of the same crate (in one file or in two files of the importing
                # crate) was order-dependent before the /repo fix of mod.rs:472; now any mix is deterministic and
                # nothing restricts the modes.  The only order-dependent construct left is the same-name fallback.
                cr = f['crate']
                gl, exl = cr.setdefault('globbed', set()), cr.setdefault('explicit', set())
                (gl if mode == 'glob' else exl).add(d)
                ws.tags.add(mode)
                if it.rename:
                    ws.tags.add('renamed-target')
                if mode == 'single':
                    f['uses'].append('use ' + '::'.join([d] + mods + [name]) + ';')
                    explicit.add(d)
                    t = ('user', name, args)
                elif mode == 'tree':
                    tree_names.setdefault(d, []).append(name)
                    explicit.add(d)
                    t = ('user', name, args)
                elif mode == 'glob':
                    gform = rng.random()
                    if gform < 0.8:
                        f['uses'].append('use ' + '::'.join([d] + (mods if rng.random() < 0.5 else []) + ['*']) + ';')
                    else:                  # the glob inside a group
                        f['uses'].append('use ' + d + '::{' + '::'.join((mods if rng.random() < 0.5 else ['m']) + ['*']) + ', zz::Nope' + str(len(f['uses'])) + '};')
                        ws.tags.add('glob-in-group')
                    globbed.add(d)
                    t = ('user', name, args)
                else:
                    inner = '::'.join([d] + (mods if rng.random() < 0.7 else [])) + '::' + progs.show_type(('user', name, args))
                    if envelopes and rng.random() < 0.55:
                        # the qualified path sits ONLY inside the generic arguments of another qualified path: an envelope of a third
                        # crate, of the target's crate, or of the file's own crate (crate:: / self:: / super::), possibly under Vec / Option / HashMap
                        ef, eit = rng.choice(envelopes)
                        emods = modpath(ef['sub'], ef['stem'])
                        if ef['crate'] is f['crate']:
                            head = 'self' if ef is f else rng.choice(['crate', 'crate', 'super'])
                            outer = '::'.join([head] + (emods if head == 'crate' else [])) + '::' + eit.ident
                            ws.tags.add('nested-qualified-local-envelope')
                        else:
                            outer = '::'.join([ef['crate']['name']] + (emods if rng.random() < 0.6 else [])) + '::' + eit.ident
                            cr['explicit'].add(ef['crate']['name'])
                            ws.tags.add('nested-qualified-third-crate' if ef['crate']['name'] != d else 'nested-qualified-same-crate')
                        wi = rng.random()
                        inner = f'Vec<{inner}>' if wi < 0.2 else f'Option<{inner}>' if wi < 0.35 else f'HashMap<String, {inner}>' if wi < 0.45 else inner
                        if rng.random() < 0.2 and len(envelopes) > 1:      # two levels: e1::Env<e2::Env<d::Name>>
                            ef2, eit2 = rng.choice(envelopes)
                            if ef2['crate'] is not f['crate']:
                                inner = ef2['crate']['name'] + '::' + eit2.ident + '<' + inner + '>'
                                cr['explicit'].add(ef2['crate']['name'])
                                ws.tags.add('nested-qualified-two-levels')
                        t = ('raw', f'{outer}<{inner}>')
                        ws.tags.add('nested-qualified')
                    else:
                        t = ('raw', inner)
                    explicit.add(d)
            w = rng.random()
            t = ('vec', t, '') if w < 0.25 else ('option', t) if w < 0.45 else ('hashmap', progs.t_prim('String'), t, '') if w < 0.55 else t
            refs.append(t)
        for d, ns in tree_names.items():
            if len(ns) == 1 and rng.random() < 0.5:
                f['uses'].append(f'use {d}::{{{ns[0]}}};')
            elif rng.random() < 0.5:
                f['uses'].append(f'use {d}::{{{", ".join(ns)}}};')
                ws.tags.add('grouped')
            else:
                inner = [rng.choice(['', 'x::', 'sub::y::']) + n for n in ns[1:]]
                f['uses'].append(f'use {d}::m::{{{", ".join(["z::{" + ns[0] + "}"] + inner)}}};')
                ws.tags.add('nested')
        r = rng.random()
        if r < 0.12:
            f['uses'].append('use zz_unknown::Mystery;')
            refs.append(('user', 'Mystery', []))
            ws.tags.add('unknown-crate')
        elif r < 0.2:
            f['uses'].append('use std::sync::Arc;')
            f['uses'].append('use serde_json::Value;')
            ws.tags.add('ignored-crate')
        if same and f['crate'] is same[2] and f is same[2]['files'][0]:
            if same[3]:
                f['uses'].append(f'use {same[0]["name"]}::Shared;')
            else:
                f['uses'].append('use zz_unknown::Shared;')
                ws.maybe_order_dependent = True
                ws.tags.add('same-name-unknown-crate')
            refs.append(('user', 'Shared', []))
        if refs:
            # the item that carries the references: a struct, an algebraic enum (tuple and struct variants),
            # a type alias or a newtype - reconcile_referenced_types walks each kind separately
            it = progs.Item()
            link += 1
            it.ident = f'Link{link}'
            shape = rng.random()
            if shape < 0.45:
                it.kind = 'struct'
                for k, t in enumerate(refs):
                    fld = progs.Field()
                    fld.ident, fld.ty = f'r{k}', t
                    it.fields.append(fld)
                ws.tags.add('refs-in-struct')
            elif shape < 0.8:
                it.kind, it.tag, it.content = 'alg_enum', 't', 'c'
                for k, t in enumerate(refs):
                    v = progs.Variant()
                    v.ident = f'V{k}'
                    if rng.random() < 0.5:
                        v.kind, v.ty = 'tuple', t
                        ws.tags.add('refs-in-tuple-variant')
                    else:
                        v.kind = 'struct'
                        fld = progs.Field()
                        fld.ident, fld.ty = f'r{k}', t
                        v.fields = [fld]
                        ws.tags.add('refs-in-struct-variant')
                    it.variants.append(v)
                if rng.random() < 0.3:
                    v = progs.Variant()
                    v.ident = 'Nothing'
                    it.variants.append(v)
            else:
                it.kind, it.ty = rng.choice(['alias', 'newtype']), refs[0]
                ws.tags.add('refs-in-' + it.kind)
                if len(refs) > 1:
                    it2 = progs.Item()
                    it2.ident, it2.kind = f'Link{link}Rest', 'struct'
                    for k, t in enumerate(refs[1:]):
                        fld = progs.Field()
                        fld.ident, fld.ty = f'r{k}', t
                        it2.fields.append(fld)
                    f['prog'].items.append(it2)
            f['prog'].items.append(it)
    for c in crates:
        if c.get('globbed', set()) & c.get('explicit', set()):
            ws.glob_mix = True
            ws.tags.add('glob+explicit')
    # a type mapping on a type that is referenced across crates (TypeScript / Kotlin suppress the import)
    if rng.random() < 0.25:
        cands = [it.ident for f in allfiles for it in f['prog'].items if it.annotated and it.kind == 'struct' and not it.generics and not it.rename]
        if cands:
            ws.mappings[rng.choice(cands)] = 'string'
            ws.tags.add('type-mapping')
    for f in allfiles:
        f['prog'].prelude = '\n'.join(f['uses'])
        ws.files[f['path']] = progs.source(f['prog'])
    # files the tool must ignore / attribute to another crate
    r = rng.random()
    if r < 0.3:
        ws.files[(crates[0]['dir'], 'build.rs')] = '#[typeshare]\npub struct OutsideSrc { pub a: u8 }\n'
        ws.files[('notes', 'scratch.rs')] = '#[typeshare]\npub struct OutsideSrc2 { pub a: u8 }\n'
        ws.tags.add('outside-src')
    elif r < 0.5:
        ws.files[crates[0]['base'] + ('inner-part', 'src', 'deep.rs')] = '#[typeshare]\npub struct NestedSrcType { pub a: u8 }\n'
        ws.tags.add('nested-src')
    elif r < 0.6:
        ws.files[crates[0]['base'] + ('src', 'twice.rs')] = '#[typeshare]\npub struct SrcSrcType { pub a: u8 }\n'
        ws.tags.add('src-src')
    ws.desc = f'{ncr} crates {[c["dir"] for c in crates]}'
    return ws


def corpus():
    """hand-written workspaces: one per finding class and per boundary of the domain"""
    A = '#[typeshare]\npub struct A1 { pub x: u8 }\n#[typeshare]\n#[serde(rename = "A2Renamed")]\npub struct A2 { pub x: u8 }\n#[typeshare]\npub struct A3 { pub y: String }\n'
    out = []

    def mk(name, files, order=False, crash=False, mappings=None, reps=1, mix=False):
        w = Ws()
        w.files = {tuple(k.split('/')): v for k, v in files.items()}
        w.maybe_order_dependent, w.expect_crash, w.desc, w.reps, w.glob_mix = order, crash, name, reps, mix
        w.mappings = mappings or {}
        w.tags.add('corpus:' + name)
        out.append(w)
    # former witness of C14-kotlin-import-prefix (under --kotlin-prefix KP b.kt said `import p.a.A1` while a.kt declares
    # `data class KPA1`), repaired in /repo (kotlin.rs write_imports prints the prefix): it must PASS in the run `kotlin+prefix`;
    # the second one imports a struct, a unit enum, an algebraic enum, a JvmInline alias and a plain alias (none serde-renamed)
    mk('kotlin-import-prefix', {'a/src/lib.rs': '#[typeshare]\npub struct A1 { pub x: u8 }\n', 'b/src/lib.rs': 'use a::A1;\n#[typeshare]\npub struct B1 { pub f: A1 }\n'})
    mk('kotlin-import-prefix-kinds', {'a/src/lib.rs': '#[typeshare]\npub struct S1 { pub x: u8 }\n#[typeshare]\npub enum U1 { Red, Green }\n'
                                                      '#[typeshare]\n#[serde(tag = "t", content = "c")]\npub enum E1 { V0(u8), V1 { f: String } }\n'
                                                      '#[typeshare(kotlin = "JvmInline")]\npub struct N1(String);\n#[typeshare]\npub type L1 = Vec<u8>;\n',
                                      'b/src/lib.rs': 'use a::{S1, U1, E1, N1, L1};\n#[typeshare]\npub struct B1 { pub s: S1, pub u: U1, pub e: Option<E1>, pub n: N1, pub l: L1 }\n'})
    mk('two-crates', {'a/src/lib.rs': A, 'b/src/m/x.rs':'use a::A1;\nuse a::{A3};\n#[typeshare]\npub struct B1 { pub f: A1, pub g: Vec<A3>, pub h: a::inner::A1 }\n'})
    # former witness of C14-renamed-import (a serde-renamed type of another crate was referenced under its new name and never
    # imported), repaired in /repo (reconcile.rs:71: the import set is put back with the generated names): it must PASS, and so
    # must every other way of naming a renamed type of another crate
    mk('renamed-import', {'a/src/lib.rs': A, 'b/src/lib.rs': 'use a::A2;\n#[typeshare]\npub struct B1 { pub f: A2 }\n'})
    mk('renamed-import-path', {'a/src/lib.rs': A, 'b/src/lib.rs': '#[typeshare]\npub struct B1 { pub f: a::A2, pub g: Vec<a::m::A2> }\n'})
    mk('renamed-import-grouped', {'a/src/lib.rs': A, 'b/src/d1/x.rs': 'use a::{A1, m::{A2}};\n#[typeshare]\n#[serde(tag = "t", content = "c")]\npub enum E1 { V0(A2), V1 { f: Option<A1> } }\n'})
    # two files of the importing crate, one importing the renamed type, the other one another type of the same crate; a
    # third crate with a type CALLED like the generated name of the renamed one (a::A2 -> A2Renamed, e::A2Renamed)
    mk('renamed-import-two-files', {'a/src/lib.rs': A, 'e/src/lib.rs': '#[typeshare]\npub struct A2Renamed { pub q: u8 }\n',
                                    'b/src/lib.rs': 'use a::A2;\n#[typeshare]\npub struct B1 { pub f: A2 }\n',
                                    'b/src/m.rs': 'use a::A3;\n#[typeshare]\npub type L1 = Vec<A3>;\n'}, reps=4, mix=True)
    # renamed enum, renamed alias and renamed generic struct as targets; the renamed generic is referenced with arguments
    mk('renamed-import-kinds', {'a/src/lib.rs': '#[typeshare]\n#[serde(rename = "ColorName")]\npub enum Color { Red, Green }\n'
                                                '#[typeshare]\n#[serde(rename = "UserId")]\npub type Id = String;\n'
                                                '#[typeshare]\n#[serde(rename = "PageOf")]\npub struct Page<T> { pub items: Vec<T> }\n',
                                'b/src/lib.rs': 'use a::{Color, Id};\nuse a::Page;\n#[typeshare]\npub struct B1 { pub c: Color, pub i: Option<Id>, pub p: Page<Color>, pub q: a::Page<u8> }\n'})
    # a type with the Rust name of the imported one exists in a third crate that the use does NOT name (before the repair the
    # import of a::A2 missed in a's table and the fallback imported e's A2 instead)
    mk('renamed-import-third-crate-same-rust-name', {'a/src/lib.rs': A, 'e/src/lib.rs': '#[typeshare]\npub struct A2 { pub q: u8 }\n',
                                                     'b/src/lib.rs': 'use a::A2;\n#[typeshare]\npub struct B1 { pub f: A2 }\n'}, reps=4, mix=True)
    # former witnesses of C14-glob (a glob imported nothing) and C14-glob-order (its effect depended on the HashSet order),
    # repaired in /repo (mod.rs:472): they must PASS, and give one output in every run
    mk('glob', {'a/src/lib.rs': A, 'my-crate/src/lib.rs': 'use a::*;\n#[typeshare]\npub struct C1 { pub f: A1 }\n'}, reps=6, mix=True)
    mk('glob+explicit', {'a/src/lib.rs': A, 'b/src/lib.rs': 'use a::*;\nuse a::A1;\n#[typeshare]\npub struct B1 { pub f: A1, pub g: A3 }\n'}, reps=12, mix=True)
    mk('glob+explicit-two-files', {'a/src/lib.rs': A, 'b/src/lib.rs': 'use a::*;\n#[typeshare]\npub struct B1 { pub g: A3 }\n',
                                   'b/src/m.rs': 'use a::A1;\n#[typeshare]\npub struct B2 { pub f: A1 }\n'}, reps=12, mix=True)
    mk('glob-renamed-target', {'a/src/lib.rs': A, 'b/src/lib.rs': 'use a::*;\n#[typeshare]\npub struct B1 { pub f: A2 }\n'}, reps=4, mix=True)
    mk('glob-nested', {'a/src/lib.rs': A, 'c/src/lib.rs': '#[typeshare]\npub enum C1 { X, Y }\n',
                       'b/src/lib.rs': 'use a::m::n::*;\nuse c::{x::*, y::Nope};\n#[typeshare]\npub struct B1 { pub f: A1, pub g: Vec<A2>, pub h: C1 }\n'}, reps=4, mix=True)
    mk('glob-of-ignored-and-unknown-crates', {'time/src/lib.rs': '#[typeshare]\npub struct Clock { pub x: u8 }\n', 'a/src/lib.rs': A,
                                              'b/src/lib.rs': 'use time::*;\nuse zz::*;\nuse crate::*;\nuse super::*;\nuse std::collections::*;\n#[typeshare]\npub struct B1 { pub x: Clock, pub y: A1 }\n'}, reps=4, mix=True)
    mk('glob-of-two-crates-same-name', {'a/src/lib.rs': '#[typeshare]\npub struct S { pub x: u8 }\n', 'c/src/lib.rs': '#[typeshare]\npub struct S { pub z: u8 }\n#[typeshare]\npub struct C1 { pub z: u8 }\n',
                                        'b/src/x.rs': 'use a::*;\nuse c::*;\n#[typeshare]\npub struct B1 { pub f: S, pub g: C1 }\n'}, reps=6, mix=True)
    mk('same-name-unknown-crate', {'a/src/lib.rs': '#[typeshare]\npub struct S { pub x: u8 }\n', 'c/src/lib.rs': '#[typeshare]\npub struct S { pub z: u8 }\n',
                                   'b/src/x.rs': 'use zz::S;\n#[typeshare]\npub struct B1 { pub f: S }\n'}, order=True, reps=12)
    mk('same-name-named-crate', {'a/src/lib.rs': '#[typeshare]\npub struct S { pub x: u8 }\n', 'c/src/lib.rs': '#[typeshare]\npub struct S { pub z: u8 }\n',
                                 'b/src/x.rs': 'use c::S;\n#[typeshare]\npub struct B1 { pub f: S }\n'})
    # `use foo;` was a worker panic (hang) at visitors.rs:401 - fixed in /repo (C07-visitors.rs:401): a leaf without a path imports nothing
    mk('bare-use', {'a/src/lib.rs': 'use foo;\nuse {a1, b::B1};\nuse *;\n#[typeshare]\npub struct A1 { pub x: u8 }\n', 'b/src/lib.rs': '#[typeshare]\npub struct B1 { pub x: u8 }\n'})
    mk('swift-file-collision', {'a_b/src/lib.rs': '#[typeshare]\npub struct A1 { pub x: u8 }\n', 'a__b/src/lib.rs': '#[typeshare]\npub struct A2 { pub x: u8 }\n'})
    mk('dash-and-underscore-same-crate', {'a-b/src/lib.rs': '#[typeshare]\npub struct A1 { pub x: u8 }\n', 'a_b/src/lib.rs': '#[typeshare]\npub struct A2 { pub x: A1 }\n'})
    mk('aliases-outside-domain', {'a/src/lib.rs': A, 'e/src/lib.rs': '#[typeshare]\npub struct E1 { pub x: u8 }\n',
                                  'b/src/lib.rs': 'use a::A1 as X1;\nuse a as ax;\nuse e::A3;\n#[typeshare]\npub struct B1 { pub f: X1, pub g: ax::A1, pub h: A3 }\n'})
    mk('toplevel-group', {'a/src/lib.rs': A, 'c/src/lib.rs': '#[typeshare]\npub struct C1 { pub x: u8 }\n',
                          'b/src/lib.rs': 'use {a::A1, c::C1};\n#[typeshare]\npub struct B1 { pub x: A1, pub y: C1 }\n'})
    mk('nested-src-and-outside', {'outer/src/inner-x/src/f.rs': '#[typeshare]\npub struct In1 { pub x: u8 }\n', 'outer/src/lib.rs': 'use inner_x::In1;\n#[typeshare]\npub struct Out1 { pub x: In1 }\n',
                                  'outer/build.rs': '#[typeshare]\npub struct Nope { pub x: u8 }\n', 'top.rs': '#[typeshare]\npub struct Nope2 { pub x: u8 }\n',
                                  'outer/src/src/g.rs': '#[typeshare]\npub struct SrcSrc { pub x: u8 }\n'})
    mk('ignored-crate-name', {'time/src/lib.rs': '#[typeshare]\npub struct Clock { pub x: u8 }\n', 'b/src/lib.rs': 'use time::Clock;\n#[typeshare]\npub struct B1 { pub x: Clock }\n'})
    mk('crate-super-self', {'a/src/lib.rs': A, 'a/src/m/x.rs': 'use crate::A1;\nuse super::A3;\nuse self::inner::A2;\n#[typeshare]\npub struct M1 { pub a: A1, pub b: A3, pub c: crate::A2, pub d: super::A1 }\n'})
    mk('type-mapping', {'a/src/lib.rs': A, 'b/src/lib.rs': 'use a::{A1, A3};\n#[typeshare]\npub struct B1 { pub f: A1, pub g: A3 }\n'}, mappings={'A3': 'string'})
    mk('nested-use-tree', {'a/src/lib.rs': A, 'c/src/lib.rs': '#[typeshare]\npub enum C1 { X, Y }\n',
                           'b/src/d1/d2/d3/f.rs': 'use a::m::{x::A1, y::z::{A3}};\nuse c::{self, C1};\n#[typeshare]\npub struct B1 { pub f: A1, pub g: Option<A3>, pub h: C1 }\n'})
    mk('two-dashes', {'my-two-dash/src/lib.rs': A, 'q--r/src/lib.rs': 'use my_two_dash::A1;\n#[typeshare]\npub struct Q1 { pub f: A1 }\n',
                      'b/src/lib.rs': 'use my_two_dash::A3;\nuse q__r::Q1;\n#[typeshare]\npub struct B1 { pub f: A3, pub g: Q1 }\n'})
    mk('refs-in-variants', {'a/src/lib.rs': A, 'c/src/lib.rs': '#[typeshare]\npub struct C1 { pub x: u8 }\n#[typeshare]\npub struct C2 { pub x: u8 }\n',
                            'b/src/lib.rs': 'use a::{A1, A3};\nuse c::{C1, C2};\n#[typeshare]\n#[serde(tag = "t", content = "c")]\npub enum E1 { V0(A1), V1 { f: Vec<A3> }, V2 }\n'
                                            '#[typeshare]\npub type L1 = Option<C1>;\n#[typeshare]\npub struct N1(C2);\n'})
    mk('nested-tree-wrong-base', {'a/src/lib.rs': A, 'x/src/lib.rs': '#[typeshare]\npub struct X1 { pub x: u8 }\n',
                                  'b/src/lib.rs': 'use a::x::{y::A1, z::{A3}};\nuse x::a::X1;\n#[typeshare]\npub struct B1 { pub f: A1, pub g: A3, pub h: X1 }\n'})
    # former witness of C14-glob-const (a glob listed consts under names TypeScript does not export), repaired in /repo
    # (parser.rs push: a const is not entered into type_names): must PASS in every run
    mk('glob-const', {'k/src/lib.rs': '#[typeshare]\npub struct K1 { pub x: u8 }\n#[typeshare]\npub const MyConst: u32 = 1;\n',
                      'my-crate/src/lib.rs': 'use k::*;\nuse k::K1;\n#[typeshare]\npub struct B1 { pub f: K1 }\n'}, reps=12, mix=True)
    mk('glob-const-alone', {'k/src/lib.rs': '#[typeshare]\npub struct K1 { pub x: u8 }\n#[typeshare]\npub const MyConst: u32 = 1;\n#[typeshare]\npub const OTHER_ONE: u8 = 2;\n',
                            'my-crate/src/lib.rs': 'use k::*;\n#[typeshare]\npub struct B1 { pub f: K1 }\n'}, reps=4, mix=True)
    # a crate with nothing but consts has an empty type table: the glob creates an entry with no name (`import {  } from "./k0";`)
    mk('glob-crate-of-consts-only', {'k0/src/lib.rs': '#[typeshare]\npub const MyConst: u32 = 1;\n', 'a/src/lib.rs': A,
                                     'b/src/lib.rs': 'use k0::*;\nuse a::A1;\n#[typeshare]\npub struct B1 { pub f: A1 }\n'}, reps=4, mix=True)
    # consts are not type names (parser.rs push): a const of the importing file named like the imported type does not make the
    # reference "local", and a const of a third crate is no candidate of the import fallback (one output in every run)
    mk('local-const-named-like-import', {'a/src/lib.rs': A, 'b/src/lib.rs': 'use a::A1;\n#[typeshare]\npub const A1: u32 = 1;\n#[typeshare]\npub struct B1 { pub f: A1 }\n'})
    mk('fallback-ignores-consts', {'a/src/lib.rs': A, 'e/src/lib.rs': '#[typeshare]\npub const A1: u32 = 1;\n#[typeshare]\npub struct E1 { pub x: u8 }\n',
                                   'b/src/lib.rs': 'use zz::A1;\n#[typeshare]\npub struct B1 { pub f: A1 }\n'}, reps=12, mix=True)
    # a cross-crate type named ONLY by a qualified path inside the generic arguments of another qualified path (seeded C14_c)
    ENV = '#[typeshare]\npub struct Envelope<T> { pub inner: T }\n#[typeshare]\npub struct Page<T> { pub items: Vec<T> }\n'
    mk('nested-qualified-paths', {'envelope/src/lib.rs': ENV, 'a/src/lib.rs': A,
                                  'b/src/lib.rs': '#[typeshare]\npub struct Local<T> { pub v: T }\n#[typeshare]\npub struct B1 { pub f: envelope::Envelope<a::A1>, pub g: Option<envelope::Page<a::A3>>, pub h: crate::Local<a::m::A1> }\n'
                                                  '#[typeshare]\n#[serde(tag = "t", content = "c")]\npub enum E1 { V0(envelope::Envelope<Vec<a::A3>>), V1 { f: self::Local<envelope::Page<a::A1>> } }\n'
                                                  '#[typeshare]\npub type L1 = envelope::Page<a::A1>;\n'})
    mk('nested-qualified-only-inner', {'envelope/src/lib.rs': ENV, 'a/src/lib.rs': A,
                                       'b/src/lib.rs': '#[typeshare]\npub struct B1 { pub f: envelope::Envelope<a::A3> }\n'})
    # a type of the importing crate shadows a glob-imported (and serde-renamed) type of the same Rust name: the reference is LOCAL
    # (seeded C09_d: rename resolution consulted glob-imported crates before the crate's own types)
    mk('local-type-shadows-glob-renamed', {'a/src/lib.rs': A, 'b/src/lib.rs': 'use a::*;\n#[typeshare]\npub struct A2 { pub z: u8 }\n#[typeshare]\npub struct B1 { pub f: A2, pub g: Vec<A2>, pub h: A1 }\n'}, reps=4, mix=True)
    mk('local-type-shadows-glob-renamed-two-files', {'a/src/lib.rs': A, 'b/src/lib.rs': 'use a::*;\n#[typeshare]\npub struct B0 { pub h: A3 }\n',
                                                     'b/src/own.rs': '#[typeshare]\npub struct A2 { pub z: u8 }\n#[typeshare]\n#[serde(tag = "t", content = "c")]\npub enum E1 { V0(A2), V1 { f: Option<A2> } }\n'}, reps=4, mix=True)
    # crate directories whose name contains a dot (a version suffix): the file is named after the WHOLE crate name plus the extension
    # (seeded C14_f: Path::with_extension replaced what follows the last dot, acme_proto_0.ts for both crates)
    mk('dotted-crate-names', {'acme-proto-0.3/src/lib.rs': '#[typeshare]\npub struct P3 { pub x: u8 }\n', 'acme-proto-0.4/src/lib.rs': '#[typeshare]\npub struct P4 { pub x: u8 }\n',
                              'v1.2.3/src/lib.rs': '#[typeshare]\npub struct V1 { pub x: u8 }\n', 'b/src/lib.rs': '#[typeshare]\npub struct B1 { pub x: u8 }\n'})
    # a type reached through a crate that merely re-exports it (the import names the facade, the type is generated by a third crate:
    # the fallback finds it), while ANOTHER file of the importing crate glob-imports the facade (seeded C14_g: an explicit import of a
    # glob-imported crate was taken for redundant and skipped, so the fallback never ran)
    mk('reexport-through-facade-next-to-glob', {'core-types/src/lib.rs': '#[typeshare]\npub struct Money { pub cents: u32 }\n#[typeshare]\npub enum Side { Buy, Sell }\n',
                                                'facade/src/lib.rs': 'pub use core_types::{Money, Side};\n#[typeshare]\npub struct F1 { pub x: u8 }\n',
                                                'app/src/lib.rs': 'use facade::*;\n#[typeshare]\npub struct Uses { pub f: F1 }\n',
                                                'app/src/orders.rs': 'use facade::Money;\nuse facade::Side;\n#[typeshare]\npub struct Order { pub m: Money, pub s: Side }\n'}, reps=4, mix=True)
    mk('reexport-through-facade', {'core-types/src/lib.rs': '#[typeshare]\npub struct Money { pub cents: u32 }\n',
                                   'facade/src/lib.rs': 'pub use core_types::Money;\n#[typeshare]\npub struct F1 { pub x: u8 }\n',
                                   'app/src/lib.rs': 'use facade::Money;\n#[typeshare]\npub struct Order { pub m: Money }\n'})
    mk('generic-param-not-a-reference', {'a/src/lib.rs': '#[typeshare]\npub struct U { pub x: u8 }\n', 'b/src/lib.rs': 'use a::U;\n#[typeshare]\npub struct B1<U> { pub f: U }\n'})
    # a generic parameter of ONE item called like an imported type that ANOTHER item of the same file really uses (seeded C14_h:
    # the generic names of all items of a file subtracted from every item's references - the import of Payload is lost)
    mk('generic-param-named-like-import', {'a/src/lib.rs': '#[typeshare]\npub struct Payload { pub x: u8 }\n#[typeshare]\n#[serde(rename = "StatusRenamed")]\npub enum Status { On, Off }\n',
                                           'b/src/lib.rs': 'use a::{Payload, Status};\n#[typeshare]\npub struct Envelope<Payload, Status> { pub p: Payload, pub s: Vec<Status> }\n'
                                                           '#[typeshare]\npub struct Request { pub payload: Payload, pub st: Option<Status> }\n'})
    # a type of another crate referenced ONLY as a HashMap key or as a non-last generic argument (seeded C09_h: the iterator
    # over a type's referenced names drops pending sibling arguments, the import and with it the rename of the reference are lost)
    mk('only-non-last-argument', {'a/src/lib.rs': A + '#[typeshare]\n#[serde(rename = "KeyRenamed")]\npub struct K1(String);\n#[typeshare]\npub struct Paged<T, U> { pub t: T, pub u: U }\n',
                                  'b/src/lib.rs': 'use a::{A1, A2, A3, K1, Paged};\nuse std::collections::HashMap;\n#[typeshare]\npub struct B1 { pub m: HashMap<K1, u8>, pub p: Paged<A2, u8>, pub q: Paged<A1, Paged<A3, String>> }\n'})
    return out


# ------------------------------------------------------------------ running the real binary
def run_binary(args):
    tree, lang, ext, extra, cfgfile, multi = args
    lang = base(lang)
    out = vf.tmpdir()
    if multi:
        cmd = [str(vf.TYPESHARE), '--lang', lang, '-d', str(out / 'gen')] + extra
    else:
        cmd = [str(vf.TYPESHARE), '--lang', lang, '-o', str(out / f'out.{ext}')] + extra
    if cfgfile:
        cmd += ['-c', str(cfgfile)]
    cmd.append(str(tree))
    try:
        p = subprocess.run(['timeout', '20'] + cmd, capture_output=True, text=True, timeout=40, cwd=out)
        rc, err = p.returncode, p.stderr
    except subprocess.TimeoutExpired:
        rc, err = 124, ''
    files = {}
    if multi and (out / 'gen').is_dir():
        for f in sorted(os.listdir(out / 'gen')):
            files[f] = (out / 'gen' / f).read_text()
    elif not multi and (out / f'out.{ext}').exists():
        files['out'] = (out / f'out.{ext}').read_text()
    shutil.rmtree(out, ignore_errors=True)
    return {'rc': rc, 'files': files, 'panicked': 'panicked at' in err, 'stderr_tail': err[-300:] if rc not in (0, 124) else ''}


def in_some_crate(path):
    idx = [i for i, c in enumerate(path) if c == 'src']
    return bool(idx) and idx[-1] > 0


def materialise(ws, root, only_crates=False):
    for path, src in ws.files.items():
        if only_crates and not in_some_crate(path):
            continue
        p = root.joinpath(*path)
        p.parent.mkdir(parents=True, exist_ok=True)
        p.write_text(src)


def lang_cfg(lang, cfg, ws):
    c = dict(cfg, no_version_header=False, version=vf.core_version())
    if lang in IMPORT_LANGS and ws.mappings:
        c['type_mappings'] = dict(ws.mappings)
    return c


def model_request(lang, cfg, order, entries, obs):
    files = Lst(entries, lambda e: f'({Lst(e[0], S)} {e[1]} {e[2]})')
    o = 'none' if obs is None else '(some ' + Lst(sorted(obs.items()), lambda kv: f'({S(kv[0])} {Lst(kv[1], lambda p: f"({S(p[0])} {S(p[1])})")})') + ')'
    return f'(c14 {base(lang)} {back.cfg_sx(cfg)} (n{order[0]} n{order[1]} n{order[2]}) {files} {o})'


def decode_model(m):
    d = {k[0]: k[1] for k in m}
    status = d['status'] if isinstance(d['status'], str) else d['status'][0]
    files = {}
    for name, crate, pairs, text, decls in d['files']:
        files[vf.unS(name)] = {'crate': vf.unS(crate), 'imports': [(vf.unS(a), vf.unS(b)) for a, b in pairs], 'text': vf.unS(text),
                               'decls': [(k, vf.unS(o), vf.unS(r)) for k, o, r in decls]}
    for name, text in d['extra']:
        files[name] = {'crate': None, 'imports': [], 'text': vf.unS(text), 'decls': []}
    sp = {k[0]: k[1] for k in d['spec']}
    spec = {'paths': [([vf.unS(c) for c in p], sx_opt(o, vf.unS)) for p, o in sp['paths']],
            'crates': [{'crate': vf.unS(c), 'file': vf.unS(f), 'conventional': conv == 'true', 'defs': [vf.unS(x) for x in defs]} for c, f, conv, defs in sp['crates']],
            'judge': {}}
    for c, good, unsound, refs, consts in sp['judge']:     # refs: (name from generated imported elsewhere dom known unique)
        spec['judge'][vf.unS(c)] = {'good': good == 'true', 'unsound': [(vf.unS(a), vf.unS(b)) for a, b in unsound],
                                    'const_imports': [(vf.unS(a), vf.unS(b)) for a, b in consts],
                                    'refs': [{'name': vf.unS(n), 'from': vf.unS(fr), 'generated': vf.unS(g), 'imported': imp == 'true',
                                              'elsewhere': [vf.unS(x) for x in els], 'dom': dom == 'true', 'known': sx_opt(kn), 'unique': uq == 'true'}
                                             for n, fr, g, imp, els, dom, kn, uq in refs]}
    return {'status': status, 'files': files, 'spec': spec}


def run(chk):
    chk.rule = ('seeded workspaces of 1-5 crates (directory names with - _ digits, optionally under libs/ or crates/shared/), 1-3 files per crate at depth 0-3 '
                'under src, 1-3 generated items per file (lib/progs.py, 20% serde-renamed types) plus one item per file - a struct, an algebraic enum with tuple and '
                'struct variants, a type alias or a newtype - whose member types refer to types of other crates / other files of the same crate; each reference is introduced by one of: use d::..::N, grouped use d::{..}, nested use d::m::{z::{N}, x::M}, '
                'glob (plain, below modules, inside a group; freely mixed with explicit imports of the same crate), qualified path d::..::N, crate:: / super:: / self:: (use or path), unknown crate, std/serde_json (ignored crates); 25% with a type mapping on a '
                'referenced type, 25% (>=3 crates) with a same-named type in two crates; files outside src, nested src/x/src, src/src; plus a hand-written corpus with '
                'one workspace per finding class (open or repaired) and domain boundary. Every workspace is run through the real binary in all six languages (Kotlin twice: without and with --kotlin-prefix KP) with -d and with -o; '
                'workspaces with the same-name fallback or with a glob next to an explicit import of the same crate 4-12 times (TypeScript, Kotlin): only the former may vary. '
                'Kotlin import names are read with the prefix stripped and every printed import must name a class the module\'s file declares. '
                'non-trivial = distinct (workspace, language) with at least one cross-crate reference or a corpus case')
    chk.assumptions = ['syn is not modelled: the model receives the AST (items, use trees, every syn::Path) produced by harness/libdrive/src/ast.rs from the same text',
                       'the directory walk (ignore rules, symlinks, *.rs filter) is not modelled: the model is given the list of .rs files the generator wrote',
                       'hash iteration orders are arguments of the model; the binary is compared with the set of model outputs over the evaluated orders and run repeatedly; outside the planted same-name fallback every order and every run must give the same bytes',
                       'the spec predicates take the annotated items of each file from the single-file front end (Model.Parse.parse_file, tied to the code by C03/C08)',
                       'arrival order at the collector = path order (names are distinct inside a crate, where C06 proves the order irrelevant)']
    chk.prepare(need_cli=True)
    if not (chk.harness_ok and chk.cli_ok):
        return
    rng = chk.rng
    n = 36 if chk.tier == 'quick' else 400
    work = vf.tmpdir()
    wss = corpus()
    for k in range(n):
        wss.append(gen_workspace(rng, allow_const=(k % 5 == 4)))
    # ---- materialise, ASTs
    srcs = sorted(set(s for ws in wss for s in ws.files.values()))
    asts = dict(zip(srcs, vf.impl([{'cmd': 'ast', 'src': s} for s in srcs])))
    jobs, jmeta = [], []
    for w, ws in enumerate(wss):
        root = work / f'w{w}' / 'tree'
        materialise(ws, root)
        ws.root = root
        ws.single_root = root
        if not all(in_some_crate(p) for p in ws.files):
            # single-file mode reads every .rs file, multi-file mode only those under some <crate>/src:
            # "the same sources" for the -o run = the files that belong to a crate
            ws.single_root = work / f'w{w}' / 'crates_only'
            materialise(ws, ws.single_root, only_crates=True)
        ws.cfgfile = None
        if ws.mappings:
            ws.cfgfile = work / f'w{w}' / 'mappings.toml'
            body = ''.join(f'"{k}" = "{v}"\n' for k, v in sorted(ws.mappings.items()))
            ws.cfgfile.write_text(f'[typescript.type_mappings]\n{body}\n[kotlin.type_mappings]\n{body}')
        reps = getattr(ws, 'reps', 1)
        if (ws.maybe_order_dependent or ws.glob_mix) and reps == 1:
            reps = 4
        for lang, ext, extra, cfg in LANGS:
            cf = ws.cfgfile if lang in IMPORT_LANGS else None
            for r in range(reps if lang in IMPORT_LANGS else 1):
                jobs.append((root, lang, ext, extra, cf, True))
                jmeta.append((w, lang, 'multi'))
            jobs.append((ws.single_root, lang, ext, extra, cf, False))
            jmeta.append((w, lang, 'single'))
    with concurrent.futures.ThreadPoolExecutor(max_workers=vf.NPROC) as ex:
        outs = list(ex.map(run_binary, jobs))
    runs = {}
    for (w, lang, mode), o in zip(jmeta, outs):
        runs.setdefault((w, lang, mode), []).append(o)
    chk.count('binary_runs', len(jobs))
    # ---- model: every (workspace, language); all orders where the generator planted an order-dependent construct
    mreq, mmeta = [], []
    for w, ws in enumerate(wss):
        entries = []
        for path in sorted(ws.files):
            a = asts[ws.files[path]]
            if 'ok' not in a:
                continue
            comps = list(pathlib.Path(ws.root.joinpath(*path)).parts)
            entries.append((comps, a['ok'], a['tstrs']))
        ws.entries = entries
        for lang, ext, extra, cfg in LANGS:
            c = lang_cfg(lang, cfg, ws)
            first = runs[(w, lang, 'multi')][0]
            obs = None
            if lang in IMPORT_LANGS:
                obs = {}          # crate (from the generated file name) -> observed pairs; file name -> crate via the stem
                for fname, text in first['files'].items():
                    obs[fname.rsplit('.', 1)[0]] = imports_of(lang, text)
            orders = ORDERS if ((ws.maybe_order_dependent or ws.glob_mix) and lang in IMPORT_LANGS) else ORDERS[:2]
            for k, order in enumerate(orders):
                mreq.append(model_request(lang, c, order, entries, obs if k == 0 else None))
                mmeta.append((w, lang, order))
    mres = {}
    for meta, m in zip(mmeta, vf.model(mreq)):
        mres.setdefault(meta[:2], []).append((meta[2], decode_model(m)))
    chk.count('model_runs', len(mreq))
    # ---- verdicts
    corr = []
    for w, ws in enumerate(wss):
        for lang, ext, extra, cfg in LANGS:
            chk.evaluations += 1
            variants = mres[(w, lang)]
            m0 = variants[0][1]
            multi_runs = runs[(w, lang, 'multi')]
            single = runs[(w, lang, 'single')][0]
            impl = multi_runs[0]
            spec = m0['spec']
            payload = {'workspace': {'/'.join(p): s for p, s in ws.files.items()}, 'desc': ws.desc, 'lang': lang, 'mappings': ws.mappings,
                       'impl': {'rc': impl['rc'], 'files': impl['files'], 'stderr': impl['stderr_tail']},
                       'model': {'status': m0['status'], 'files': {k: v['text'] for k, v in m0['files'].items()}}}
            tag = f'w{w}-{lang}'
            for t in ws.tags:
                chk.count('ws_' + t) if lang == 'typescript' else None
            if lang == 'typescript':
                ws.has_refs = any(j['refs'] for j in spec['judge'].values())
            xrefs = ws.has_refs
            if xrefs or any(t.startswith('corpus:') for t in ws.tags):
                chk.nontrivial.add((w, lang))
            bad = []                     # (what is not good, recorded class that explains it or None)
            # --- crash class (C07's subject): the model must predict it, nothing else is observable
            if impl['rc'] in (124, 134) or (impl['rc'] == 101 and m0['status'] == 'panic'):
                chk.count('crashed_runs')
                if m0['status'] != 'panic':
                    chk.violation(tag, payload, f'the binary crashed or hung (rc={impl["rc"]}) on a workspace the model generates normally')
                elif not ws.expect_crash and impl['rc'] == 124:
                    chk.violation(tag, payload, 'a generated workspace hangs the tool (worker panic) - not one of the planted crash cases')
                elif impl['rc'] == 101 and sorted(impl['files']) != sorted(m0['files']):
                    corr.append(dict(payload, why='files left behind by a crashing run differ from the model'))
                continue
            if m0['status'] == 'panic':
                chk.violation(tag, payload, f'the model predicts a panic, the binary exits {impl["rc"]}', no_input=True)
                continue
            # --- (i) file set and names: implementation vs spec
            spec_files = {c['file']: c for c in spec['crates']}
            collision = 'C14-swift-file-collision' if (lang == 'swift' and len(spec_files) != len(spec['crates'])) else None
            if impl['rc'] == 0 and m0['status'] == 'ok':
                expect = set(spec_files) | ({'Codable.swift'} if 'Codable.swift' in impl['files'] and lang == 'swift' else set())
                if len(spec_files) != len(spec['crates']):
                    bad.append(('two crates are written to the same file name', collision))
                if set(impl['files']) != expect:
                    bad.append((f'files written {sorted(impl["files"])}, expected one per crate {sorted(spec_files)}', collision))
                # crate of every path: model = spec = independent recomputation
                for comps, sc in spec['paths']:
                    idx = [i for i, c in enumerate(comps) if c == 'src']
                    mine = comps[idx[-1] - 1].replace('-', '_') if idx and idx[-1] > 0 else None
                    if sc != mine:
                        chk.violation(tag + '-crate', dict(payload, path=comps, spec=sc, expected=mine), 'Spec.C14Spec.crate_of disagrees with the generator', no_input=True)
                # --- (ii) union of the definitions over the files = definitions of the single-file run
                multi_defs = sorted(d for f, t in impl['files'].items() for d in definitions(lang, t))
                if single['rc'] == 0 and 'out' in single['files']:
                    single_defs = definitions(lang, single['files']['out'])
                    if multi_defs != single_defs:
                        bad.append((f'definitions differ from single-file mode: only multi {sorted(set(multi_defs) - set(single_defs))}, only single {sorted(set(single_defs) - set(multi_defs))}', collision))
                    chk.count('definition_sets_compared')
                # every definition sits in the file of the crate that contains its source
                if lang == 'typescript':
                    for c in spec['crates']:
                        found = definitions(lang, impl['files'].get(c['file'], ''))
                        here = {nm for _, nm in found}
                        # a const is written under the SCREAMING_SNAKE_CASE of its generated name
                        consts = {nm.replace('_', '') for kind, nm in found if kind == 'const'}
                        miss = [d for d in c['defs'] if d not in here and d.replace('_', '').upper() not in consts]
                        if miss and len(spec_files) == len(spec['crates']):
                            bad.append((f'{c["file"]} lacks the definitions {miss} of crate {c["crate"]}', None))
                # --- (iii) imports: spec on the OBSERVED pairs
                if lang in IMPORT_LANGS:
                    for c, j in spec['judge'].items():
                        if j['unsound']:
                            consts = [p for p in j['unsound'] if p in j['const_imports']]
                            bad.append((f'{c}: imports {j["unsound"]} name a type the module does not define (or the file itself)'
                                        + (f'; {consts} are CONSTS of their module - a const is not a type (regression of the fixed finding C14-glob-const?)' if consts else ''), None))
                        here_defs = None
                        for r in j['refs']:
                            chk.count('references_judged')
                            if r['dom']:
                                chk.count('references_in_domain')
                                if r['generated'] != r['name']:      # a serde-renamed target (in the domain since the /repo fix of C14-renamed-import)
                                    chk.count('renamed_references_in_domain')
                            if not r['imported']:
                                if r['known']:
                                    bad.append((f'{c}: {r["generated"]} (from {r["from"]}) is used but not imported', r['known']))
                                elif r['dom']:
                                    bad.append((f'{c}: {r["generated"]} (from {r["from"]}) is used, introduced by a plain use/path or covered by a glob import of {r["from"]}, and not imported', None))
                                else:
                                    chk.count('unimported_outside_domain')
                            elif r['elsewhere'] and r['dom'] and r['unique']:
                                bad.append((f'{c}: {r["generated"]} is also imported from {r["elsewhere"]}', None))
                    # sound against what the implementation itself DECLARED in the module's file, by the printed names (TypeScript:
                    # the generated names; Kotlin: prefix + generated name - C14_kotlin_imports_name_declared_classes)
                    if base(lang) == 'kotlin':
                        for fname, text in impl['files'].items():
                            for mod, nm in raw_imports_of(lang, text):
                                chk.count('kotlin_imports_resolved_closed_world')
                                target = impl['files'].get(mod + '.kt')
                                declared = {x for _, x in definitions(lang, target)} if target is not None else set()
                                if nm in declared:
                                    continue
                                # the one class the theorem leaves out: a plain typealias of a serde-renamed alias is declared under
                                # prefix + RUST name (open finding C09-kotlin-alias, recorded and reproduced under C09; not C14's subject)
                                pfx = prefix_of(lang)
                                al = [o for k, o, r in m0['files'].get(mod + '.kt', {}).get('decls', []) if pfx + r == nm and o != r]
                                if al and any(('typealias', pfx + o) in definitions(lang, target or '') for o in al):
                                    chk.count('kotlin_import_of_renamed_typealias(C09-kotlin-alias)')
                                    continue
                                bad.append((f'{fname} says `import p.{mod}.{nm}` but {mod}.kt declares no class {nm}'
                                            + (f' (the classes of that file carry the prefix {pfx}: regression of the fixed finding C14-kotlin-import-prefix?)' if pfx and pfx + nm in declared else ''), None))
                    if lang == 'typescript':
                        for fname, text in impl['files'].items():
                            for mod, nm in imports_of(lang, text):
                                target = impl['files'].get(mod + '.ts')
                                if target is None or nm not in {x for _, x in definitions(lang, target)}:
                                    # a const of the module, imported under its generated name (written in SCREAMING_SNAKE_CASE): what the
                                    # fixed finding C14-glob-const was about - a plain violation now
                                    is_const = (mod, nm) in spec['judge'].get(fname.rsplit('.', 1)[0], {}).get('const_imports', [])
                                    bad.append((f'{fname} imports {nm} from ./{mod} which does not define it' + (' (a const of that module, written under another name)' if is_const else ''), None))
            # --- equality with the model (per file: some evaluated order must give exactly these bytes)
            equal = True
            bytes_equal = True
            model_status_rc = {'ok': 0, 'err': 1, 'parse_errors': 1}.get(m0['status'])
            if model_status_rc != impl['rc']:
                equal = False
            varying = False
            for run_i in multi_runs:
                if run_i['rc'] != impl['rc'] or sorted(run_i['files']) != sorted(impl['files']):
                    varying = True
                for fname, text in run_i['files'].items():
                    if text != impl['files'].get(fname):
                        varying = True
                    # the property's observation (definitions and import pairs of the file) decides "as the model predicts";
                    # a byte difference with equal observations is drift of the layout, reported without a failing input
                    if not any(v['files'].get(fname, {}).get('text') == text for _, v in variants):
                        bytes_equal = False
                        if not any(file_obs(lang, v['files'].get(fname, {}).get('text')) == file_obs(lang, text) for _, v in variants):
                            equal = False
                if any(sorted(v['files']) != sorted(run_i['files']) for _, v in variants):
                    equal = False
            texts = [{f: x['text'] for f, x in v['files'].items()} for _, v in variants]
            model_varies = any(t != texts[0] for t in texts[1:])
            if model_varies or varying:
                chk.count('order_dependent_cases')
                if not ws.maybe_order_dependent:
                    chk.violation(tag, dict(payload, orders=[o for o, _ in variants], runs_differ=varying, model_orders_differ=model_varies),
                                  'the output depends on a hash iteration order although no order-dependent construct was planted'
                                  + (' (this workspace is run repeatedly because it must give ONE output since the /repo fixes of C14-glob-order / C14-glob-const: a glob import creates its own entry, a const is no candidate of a glob or of the fallback)' if ws.glob_mix else ''))
                    continue
                # the only recorded dependence: the fallback's choice among several crates, through the order of CrateTypes
                # (orders 0 and 2 differ in it alone); no order of an import SET may reach the output (orders 0/3/4 and 2/5/6)
                set_dep = any(texts[i] != texts[j] for i, j in ((0, 3), (0, 4), (2, 5), (2, 6)) if len(texts) > 6)
                fallback_dep = len(texts) > 2 and texts[0] != texts[2]
                if model_varies and (set_dep or not fallback_dep):
                    chk.violation(tag, dict(payload, orders=[o for o, _ in variants]), 'the model output depends on an iteration order in a way that is not the fallback dependence (C14_import_list_order_irrelevant)')
                    continue
                if fallback_dep:
                    if varying:
                        chk.count('variation_observed_C14-same-name')
                    if equal and not chk.known('C14-same-name', payload):
                        chk.violation(tag, payload, 'order-dependent import resolution (C14-same-name) is not a recorded open finding')
            elif ws.glob_mix and lang in IMPORT_LANGS:
                chk.count('glob_mix_cases_stable', len(multi_runs))
            if lang in IMPORT_LANGS and impl['rc'] == 0:
                chk.count('import_lists_compared')
                if equal and len(variants) == 2:
                    for fname, text in impl['files'].items():
                        if sorted(imports_of(lang, text)) != sorted(m0['files'][fname]['imports']):
                            corr.append(dict(payload, why=f'import pairs extracted from {fname} differ from the model list although the text is equal'))
            if equal and not bytes_equal:
                corr.append(dict(payload, why='definitions and imports agree with the model but the bytes of some file differ (layout drift)'))
            # --- the verdict table
            if not bad and equal:
                if w < 40 and lang == 'typescript' and len(chk.samples) < 6 and xrefs:
                    chk.sample({'workspace': ws.desc, 'files': sorted('/'.join(p) for p in ws.files), 'written': sorted(impl['files']),
                                'imports': {f: imports_of(lang, t) for f, t in impl['files'].items()}})
                continue
            if bad:
                payload['not_good'] = [b for b, _ in bad]
                unexplained = [b for b, k in bad if k is None]
                classes = sorted(set(k for _, k in bad if k is not None))
                if unexplained:
                    chk.violation(tag, payload, '; '.join(unexplained[:3]))
                elif not equal:
                    chk.violation(tag, dict(payload, classes=classes), 'fails inside recorded finding classes but differently from what the model of the unchanged tree predicts: ' + '; '.join(payload['not_good'][:2]))
                else:
                    for k in classes:
                        if not chk.known(k, payload):
                            chk.violation(tag, payload, f'{k} is not a recorded open finding: ' + '; '.join(payload['not_good'][:2]))
            else:
                diff = [f for f, t in impl['files'].items() if not any(v['files'].get(f, {}).get('text') == t for _, v in variants)]
                corr.append(dict(payload, why=f'rc {impl["rc"]} vs model status {m0["status"]}; differing files {diff}; model files {sorted(m0["files"])}'))
    chk.count('correspondence_mismatches', len(corr))
    if corr and not [v for v in chk.violations if not v[2]]:
        chk.violation('correspondence', {'correspondence': 'Model.MultiFile (parse_workspace, multi_crates, used_imports, *_generate_multi) vs the real binary with -d', 'cases': corr[:4]},
                      'model and binary disagree on a workspace although every observed property holds', no_input=True)
    shutil.rmtree(work, ignore_errors=True)


def replay(chk, path):
    chk.prepare(need_cli=True)
    d = json.load(open(path))
    if 'cases' in d:
        d = d['cases'][0]
    ws = Ws()
    ws.files = {tuple(k.split('/')): v for k, v in d['workspace'].items()}
    ws.mappings = d.get('mappings', {})
    work = vf.tmpdir()
    root = work / 'tree'
    materialise(ws, root)
    lang, ext, extra, cfg = [l for l in LANGS if l[0] == d['lang']][0]
    cf = None
    if ws.mappings and lang in IMPORT_LANGS:
        cf = work / 'mappings.toml'
        body = ''.join(f'"{k}" = "{v}"\n' for k, v in sorted(ws.mappings.items()))
        cf.write_text(f'[typescript.type_mappings]\n{body}\n[kotlin.type_mappings]\n{body}')
    o = run_binary((root, lang, ext, extra, cf, True))
    asts = vf.impl([{'cmd': 'ast', 'src': ws.files[p]} for p in sorted(ws.files)])
    entries = [(list(root.joinpath(*p).parts), a['ok'], a['tstrs']) for p, a in zip(sorted(ws.files), asts) if 'ok' in a]
    obs = {f.rsplit('.', 1)[0]: imports_of(lang, t) for f, t in o['files'].items()} if lang in IMPORT_LANGS else None
    m = decode_model(vf.model([model_request(lang, lang_cfg(lang, cfg, ws), (0, 0, 0), entries, obs)])[0])
    print('binary rc', o['rc'])
    for f in sorted(set(o['files']) | set(m['files'])):
        same = o['files'].get(f) == m['files'].get(f, {}).get('text')
        print(f'== {f}: {"equal" if same else "DIFFERENT"}')
        if not same:
            print('--- binary\n' + str(o['files'].get(f)) + '\n--- model\n' + str(m['files'].get(f, {}).get('text')))
    print(json.dumps(m['spec']['judge'], indent=1))
    return 0
