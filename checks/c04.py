"""C04 - a generated field is optional iff the Rust field is Option<T> or bare serde(default).
Proof: Props/C04.v (front end: Option depth under any stack of references / transparent wrappers,
bare `default` word; six back ends: marker parts, base type, TypeScript `| null`).

Correspondence.  A structured program (ground truth kept on the Python side) is printed as Rust source
and built as IR; next to it its TWIN: the same program with ONE Option layer removed from every
position and every serde(default) removed.  For each of the six languages
  * the REAL tool generates both (libdrive `generate` from source, `generate_ir` from IR),
  * lib/extract.py turns the real text into one row per position (field, struct-variant field,
    newtype payload, alias target): the parts of the optional idiom present, `| null`, the type with
    the marker removed, the type as written,
  * the extracted readers (Spec/C04Readers.v) give the rows of the MODEL's declarations for the same
    input: rows(real text) = rows(model) is the correspondence (and checks extractor against reader),
  * every row of the real output is judged by the extracted good_C04 against the expectation taken
    from the source (Option depth and bare default: the generator's ground truth, cross-checked with the
    extracted Spec.C04Spec.c04_file_cells on the syn AST) and the twin's type text at the same position
    ("the marker never changes the underlying type").
The marker matrix (19 base types x depth 0..2 x 7 default spellings x 4 positions) and the wrapper matrix (10 wrappers x 8
placements around / between / inside the Option layers x 4 positions) are enumerated on every run."""
import json, re
import vf, ir, irgen, extract, back
from vf import S, B, Lst

LANGS = ['typescript', 'kotlin', 'swift', 'scala', 'go', 'python']
WRAPS = ['Box', 'Arc', 'Rc', 'Cow', 'Cell', 'RefCell', 'Mutex', 'RwLock', 'Weak']
PRIM_IR = {'String': 'String', 'u32': 'U32', 'bool': 'Bool', 'f64': 'F64', 'i8': 'I8', 'char': 'Char', 'I54': 'I54', 'u16': 'U16', 'f32': 'F32', 'U53': 'U53', 'i32': 'I32', 'u8': 'U8', 'i16': 'I16', '()': 'Unit'}
DEFAULTS = ['none', 'bare', 'merged', 'split', 'first', 'path', 'typeshare']     # how serde(default) is spelled
COUNTS = {'bare', 'merged', 'split', 'first'}                                   # spellings containing the bare word


# ------------------------------------------------------------------ type trees (ground truth)
def t_rust(t):
    k = t[0]
    if k == 'prim':
        return t[1]
    if k == 'user':
        return t[1]
    if k == 'param':
        return t[1]
    if k == 'gen':
        return f'{t[1]}<{", ".join(t_rust(a) for a in t[2])}>'
    if k == 'vec':
        return f'{t[2]}Vec<{t_rust(t[1])}>'
    if k == 'map':
        return f'{t[3]}HashMap<{t_rust(t[1])}, {t_rust(t[2])}>'
    if k == 'array':
        return f'[{t_rust(t[1])}; {t[2]}]'
    if k == 'slice':
        return f"&'static [{t_rust(t[1])}]"
    if k == 'opt':
        return f'{t[2]}Option<{t_rust(t[1])}>'
    if k == 'ref':
        return f"&'static {t_rust(t[1])}"
    if k == 'wrap':
        w, q = t[1], t[3]
        if w == 'Cow':
            return f"{q}Cow<'static, {t_rust(t[2])}>"
        return f'{q}{w}<{t_rust(t[2])}>'
    raise ValueError(t)


def t_ir(t):
    k = t[0]
    if k == 'prim':
        return ir.special(PRIM_IR[t[1]])
    if k in ('user', 'param'):
        return ir.simple(t[1])
    if k == 'gen':
        return ir.generic(t[1], [t_ir(a) for a in t[2]])
    if k == 'vec':
        return ir.special('Vec', t_ir(t[1]))
    if k == 'map':
        return ir.special('HashMap', t_ir(t[1]), t_ir(t[2]))
    if k == 'array':
        return ir.special('Array', t_ir(t[1]), n=t[2])
    if k == 'slice':
        return ir.special('Slice', t_ir(t[1]))
    if k == 'opt':
        return ir.special('Option', t_ir(t[1]))
    if k == 'ref':
        return t_ir(t[1])
    if k == 'wrap':
        return t_ir(t[2])
    raise ValueError(t)


def t_depth(t):
    if t[0] == 'opt':
        return 1 + t_depth(t[1])
    if t[0] == 'ref':
        return t_depth(t[1])
    if t[0] == 'wrap':
        return t_depth(t[2])
    return 0


def t_strip(t):
    """remove the outermost Option layer (keeping the wrappers around and inside it)"""
    if t[0] == 'opt':
        return t[1]
    if t[0] == 'ref':
        return ('ref', t_strip(t[1]))
    if t[0] == 'wrap':
        return ('wrap', t[1], t_strip(t[2]), t[3])
    return t


def opt(t, q=''):
    return ('opt', t, q)


# ------------------------------------------------------------------ structured programs
class Cell:
    def __init__(self, ident, pos, ty, default='none', go_override=None):
        self.ident, self.pos, self.ty, self.default = ident, pos, ty, default
        self.go_override = go_override        # text of #[typeshare(go(type = ".."))] on a named field, or None

    @property
    def depth(self):
        return t_depth(self.ty)

    @property
    def has_default(self):
        return self.default in COUNTS and self.pos in ('field', 'variant_field')


def attr_lines(c, twin):
    """the attribute lines in front of a named field"""
    d = 'none' if twin else c.default
    i = c.ident
    ov = [f'#[typeshare(go(type = "{c.go_override}"))]'] if c.go_override else []
    return ov + {'none': [], 'bare': ['#[serde(default)]'],
            'merged': [f'#[serde(default, rename = "{i}")]'],
            'split': ['#[serde(skip_serializing_if = "Option::is_none")]', '/// doc', '#[serde(default)]'],
            'first': [f'#[serde(alias = "{i}x", default, skip_serializing_if = "Option::is_none")]'],
            'path': ['#[serde(default = "mk")]'],
            'typeshare': ['#[typeshare(default)]']}[d]


class Prog:
    """items: ('struct', name, generics, [Cell]) | ('enum', name, generics, [('newtype', vname, Cell) | ('struct', vname, [Cell]) | ('unit', vname)])
              | ('alias', name, generics, Cell) | ('newtype_struct', name, generics, Cell)"""

    def __init__(self, items, tag='t', content='c'):
        self.items, self.tag, self.content = items, tag, content

    def cells(self):
        out = []
        for it in self.items:
            if it[0] == 'struct':
                out += it[3]
            elif it[0] == 'enum':
                for v in it[3]:
                    if v[0] == 'newtype':
                        out.append(v[2])
                    elif v[0] == 'struct':
                        out += v[2]
            else:
                out.append(it[3])
        return out

    def source(self, twin=False):
        ty = (lambda c: t_rust(t_strip(c.ty) if twin else c.ty))
        L = []
        for it in self.items:
            g = f'<{", ".join(it[2])}>' if it[2] else ''
            if it[0] == 'struct':
                L += ['#[typeshare]', f'pub struct {it[1]}{g} {{']
                for c in it[3]:
                    L += ['    ' + a for a in attr_lines(c, twin)] + [f'    pub {c.ident}: {ty(c)},']
                L += ['}', '']
            elif it[0] == 'enum':
                L += ['#[typeshare]', f'#[serde(tag = "{self.tag}", content = "{self.content}")]', f'pub enum {it[1]}{g} {{']
                for v in it[3]:
                    if v[0] == 'unit':
                        L.append(f'    {v[1]},')
                    elif v[0] == 'newtype':
                        L.append(f'    {v[1]}({ty(v[2])}),')
                    else:
                        L.append(f'    {v[1]} {{')
                        for c in v[2]:
                            L += ['        ' + a for a in attr_lines(c, twin)] + [f'        {c.ident}: {ty(c)},']
                        L.append('    },')
                L += ['}', '']
            elif it[0] == 'alias':
                L += ['#[typeshare]', f'pub type {it[1]}{g} = {ty(it[3])};', '']
            else:
                L += ['#[typeshare]', f'pub struct {it[1]}{g}(pub {ty(it[3])});', '']
        return '\n'.join(L)

    def ir_items(self, twin=False):
        ty = (lambda c: t_ir(t_strip(c.ty) if twin else c.ty))
        fld = (lambda c: {'id': ir.mk_id(c.ident), 'ty': ty(c), 'comments': [], 'has_default': c.has_default and not twin,
                          'decorators': [['Go', [{'name': 'type', 'value': c.go_override}]]] if c.go_override else []})
        structs, enums, aliases = [], [], []
        for it in self.items:
            if it[0] == 'struct':
                structs.append({'kind': 'struct', 'id': ir.mk_id(it[1]), 'generics': it[2], 'fields': [fld(c) for c in it[3]], 'comments': [],
                                'decorators': [], 'is_redacted': False})
            elif it[0] == 'enum':
                vs = []
                for v in it[3]:
                    if v[0] == 'unit':
                        vs.append({'k': 'unit', 'id': ir.mk_id(v[1]), 'comments': []})
                    elif v[0] == 'newtype':
                        vs.append({'k': 'tuple', 'id': ir.mk_id(v[1]), 'comments': [], 'ty': ty(v[2])})
                    else:
                        vs.append({'k': 'struct', 'id': ir.mk_id(v[1]), 'comments': [], 'fields': [fld(c) for c in v[2]]})
                enums.append({'kind': 'enum', 'algebraic': True, 'tag': self.tag, 'content': self.content, 'id': ir.mk_id(it[1]), 'generics': it[2],
                              'comments': [], 'variants': vs, 'decorators': [], 'is_recursive': False, 'is_redacted': False})
            else:
                aliases.append({'kind': 'alias', 'id': ir.mk_id(it[1]), 'generics': it[2], 'ty': ty(it[3]), 'comments': [], 'decorators': [], 'is_redacted': False})
        return {'structs': structs, 'enums': enums, 'aliases': aliases, 'consts': []}


BASES = [('prim', 'String'), ('prim', 'u32'), ('prim', 'bool'), ('prim', 'f64'), ('prim', 'i8'), ('prim', 'char'), ('prim', 'I54'),
         ('vec', ('prim', 'String'), ''), ('vec', opt(('prim', 'u8')), ''), ('map', ('prim', 'String'), ('prim', 'u32'), ''),
         ('array', ('prim', 'u8'), 3), ('slice', ('prim', 'String')), ('vec', ('vec', ('user', 'Other'), ''), ''),
         ('prim', '()'), ('user', 'Other'), ('gen', 'Pair', [('prim', 'String'), opt(('prim', 'u32'))]), ('param', 'T'), ('map', ('prim', 'String'), opt(('user', 'Other')), ''),
         # a type the Python back end translates through helper functions (datetime: Annotated[.., BeforeValidator, PlainSerializer]) - the
         # optional marker must survive that wrapping (seeded C04_h); an undeclared name everywhere else
         ('user', 'OffsetDateTime')]


class Namer:
    def __init__(self):
        self.n = 0

    def __call__(self, p):
        # letters only: convert_case::Snake (Python), camel / pascal conversions split at letter-digit boundaries
        self.n += 1
        n = self.n
        return p + 'q' + ''.join('abcdefghijklmnopqrstuvwxyz'[(n // k) % 26] for k in (676, 26, 1))


def matrix_program(base, k):
    """all cells of one base type: depth 0..2 x default spelling, at the four positions"""
    nm = Namer()
    gens = ['T'] if base == ('param', 'T') else []
    tys = [base, opt(base), opt(opt(base))]
    fields = [Cell(nm('f'), 'field', t, d) for t in tys for d in DEFAULTS]
    vfields = [Cell(nm('g'), 'variant_field', t, d) for t in tys for d in DEFAULTS]
    enum = ('enum', f'E{k:03d}', gens, [('newtype', nm('V'), Cell(None, 'payload', t)) for t in tys] + [('struct', nm('W'), vfields), ('unit', nm('U'))])
    for v in enum[3]:
        if v[0] == 'newtype':
            v[2].ident = v[1]
    items = [('struct', f'S{k:03d}', gens, fields), enum]
    for t in tys:
        n = nm('A')
        items.append(('alias', n, gens, Cell(n, 'alias', t)))
    n = nm('N')
    items.append(('newtype_struct', n, gens, Cell(n, 'alias', opt(base))))
    return Prog(items)


# the witness of the REPAIRED finding C04-ts-double-nonfield (KNOWN_FINDINGS.jsonl, status fixed): it stays in the stream of every run
# and must pass like any other input - TypeScript wrote `c?: string` / `string | undefined` for Option<Option<String>> at a newtype
# payload / alias target (no `| null`), the same text as for Option<String>.  There is no known class for it any more.
FIXED_WITNESS_SRC = ('#[typeshare]\n#[serde(tag = "t", content = "c")]\npub enum E { C(Option<Option<String>>) }\n\n'
                     '#[typeshare]\npub type A2 = Option<Option<String>>;\n')
FIXED_WITNESS_LINES = ['\t| { t: "C", c?: string | null };', 'export type A2 = string | null | undefined;']


def fixed_witness_program():
    """the same witness as a structured program (judged at every language, both entries, against its twin)"""
    nm = Namer()
    t = opt(opt(('prim', 'String')))
    v, a = nm('V'), nm('A')
    return Prog([('enum', 'E900', [], [('newtype', v, Cell(v, 'payload', t))]), ('alias', a, [], Cell(a, 'alias', t))])


def judge_fixed_witness(chk):
    r = vf.impl([{'cmd': 'generate', 'lang': 'typescript', 'cfg': {}, 'src': FIXED_WITNESS_SRC, 'target_os': []}])[0]
    text = r.get('ok') if isinstance(r, dict) else None
    chk.evaluations += 1
    chk.count('fixed_witness')
    missing = [l for l in FIXED_WITNESS_LINES if text is None or l not in text.split('\n')]
    if missing:
        chk.violation('fixed-C04-ts-double-nonfield', {'source': FIXED_WITNESS_SRC, 'lang': 'typescript', 'cfg': {}, 'output': (text or str(r))[:2000], 'missing_lines': missing},
                      'witness of the repaired finding C04-ts-double-nonfield: TypeScript does not write `| null` for Option<Option<String>> at the newtype payload / alias '
                      'target, so Option<Option<T>> is not distinguishable from Option<T> there (expected lines: ' + ' / '.join(repr(l) for l in missing) + ')')


GO_OVERRIDES = ['uint', 'Custom', '[]byte']     # no leading `*`: a `*`-headed user text would be read as typeshare's marker by the text reader


def go_override_program(base, k):
    """Go type overrides on named fields: base / Option / Option<Option>, with and without serde(default), struct and struct variant"""
    nm = Namer()
    tys = [base, opt(base), opt(opt(base))]
    fields = [Cell(nm('f'), 'field', t, d, o) for t in tys for d in ('none', 'bare') for o in GO_OVERRIDES]
    vfields = [Cell(nm('g'), 'variant_field', t, d, o) for t in tys for d in ('none', 'merged') for o in GO_OVERRIDES[:2]]
    n = nm('V')
    return Prog([('struct', f'S{k:03d}', [], fields), ('enum', f'E{k:03d}', [], [('newtype', n, Cell(n, 'payload', base)), ('struct', nm('W'), vfields)])])


def wrapper_program(w, base, k):
    """one reference / smart pointer at every place of the Option layers, at the four positions"""
    nm = Namer()
    W = (lambda t: ('ref', t)) if w == '&' else (lambda t: ('wrap', w, t, ''))
    tys = [W(base), W(opt(base)), opt(W(base)), W(opt(opt(base))), opt(W(opt(base))), opt(opt(W(base))), W(opt(W(opt(W(base))))), W(W(opt(base)))]
    fields = [Cell(nm('f'), 'field', t, d) for t in tys for d in ('none', 'bare')]
    vfields = [Cell(nm('g'), 'variant_field', t, d) for t in tys for d in ('none', 'merged')]
    vs = []
    for t in tys:
        n = nm('V')
        vs.append(('newtype', n, Cell(n, 'payload', t)))
    items = [('struct', f'S{k:03d}', [], fields), ('enum', f'E{k:03d}', [], vs + [('struct', nm('W'), vfields)])]
    for t in tys:
        n = nm('A')
        items.append(('alias', n, [], Cell(n, 'alias', t)))
    return Prog(items)


def random_type(rng, depth, gens):
    c = rng.random()
    if depth <= 0 or c < 0.4:
        c = rng.random()
        if c < 0.5:
            return ('prim', rng.choice(list(PRIM_IR)))
        if c < 0.8 or not gens:
            return ('user', rng.choice(['Other', 'Foo', 'UserId', 'Url']))
        return ('param', rng.choice(gens))
    q = rng.choice(['', '', 'std::vec::'])
    if c < 0.55:
        return ('vec', random_type(rng, depth - 1, gens), q)
    if c < 0.65:
        return ('map', ('prim', 'String'), random_type(rng, depth - 1, gens), rng.choice(['', 'std::collections::']))
    if c < 0.72:
        return ('array', random_type(rng, depth - 1, gens), rng.choice([1, 2, 4]))
    if c < 0.78:
        return ('slice', random_type(rng, depth - 1, gens))
    if c < 0.88:
        return opt(random_type(rng, depth - 1, gens))
    return ('gen', rng.choice(['Pair', 'Page']), [random_type(rng, depth - 1, gens) for _ in range(rng.choice([1, 2]))])


def wrap(rng, t, p):
    """put references / smart pointers around t with probability p (a stack of up to 3)"""
    n = 0
    while rng.random() < p and n < 3:
        w = rng.choice(WRAPS + ['&'])
        if w == '&':
            t = ('ref', t)
        else:
            q = {'Box': ['', 'std::boxed::'], 'Arc': ['', 'std::sync::'], 'Rc': ['', 'std::rc::'], 'Cow': ['', 'std::borrow::'], 'Cell': ['', 'std::cell::'],
                 'RefCell': ['', 'std::cell::'], 'Mutex': ['', 'std::sync::'], 'RwLock': ['', 'std::sync::'], 'Weak': ['', 'std::rc::', 'std::sync::']}[w]
            t = ('wrap', w, t, rng.choice(q))
        n += 1
    return t


def random_cell_type(rng, gens, pw=0.35):
    base = wrap(rng, random_type(rng, rng.choice([0, 1, 1, 2]), gens), pw * 0.5)
    d = rng.choice([0, 0, 1, 1, 1, 2, 2])
    t = base
    for _ in range(d):
        t = wrap(rng, opt(t, rng.choice(['', '', 'std::option::', 'core::option::'])), pw)
    return t


def renamed_wrappers_program(j):
    """a serde-renamed type referenced bare, under Option and under Option<Option<..>> in one crate (folder-mode shape of seeded C04_g)"""
    return ('#[typeshare]\n#[serde(rename = "AlphaSettings%d")]\npub struct Settings { pub x: u8 }\n'
            '#[typeshare]\npub struct Uses { pub a: Settings, pub b: Option<Settings>, #[serde(default)] pub c: Settings, pub d: Vec<Settings>, pub e: Option<Vec<Settings>>, pub f: Option<Option<Settings>> }\n'
            '#[typeshare]\n#[serde(tag = "t", content = "c")]\npub enum One { A(Option<Settings>), B(Settings), C { g: Settings, h: Option<Settings> } }\n'
            '#[typeshare]\npub type MaybeSettings = Option<Settings>;\n') % j


def random_program(rng, k):
    nm = Namer()
    items = []
    for _ in range(rng.randint(1, 3)):
        kind = rng.choice(['struct', 'struct', 'enum', 'alias', 'newtype_struct'])
        gens = rng.choice([[], [], ['T'], ['T', 'U']])
        if kind == 'struct':
            items.append(('struct', nm('S'), gens, [Cell(nm('f'), 'field', random_cell_type(rng, gens), rng.choice(DEFAULTS + ['none', 'bare']),
                                                         rng.choice(GO_OVERRIDES) if rng.random() < 0.06 else None) for _ in range(rng.randint(1, 5))]))
        elif kind == 'enum':
            vs = []
            for _ in range(rng.randint(1, 4)):
                c = rng.random()
                if c < 0.5:
                    n = nm('V')
                    vs.append(('newtype', n, Cell(n, 'payload', random_cell_type(rng, gens))))
                elif c < 0.85:
                    vs.append(('struct', nm('W'), [Cell(nm('g'), 'variant_field', random_cell_type(rng, gens), rng.choice(DEFAULTS + ['none', 'bare'])) for _ in range(rng.randint(1, 3))]))
                else:
                    vs.append(('unit', nm('U')))
            if all(v[0] == 'unit' for v in vs):
                n = nm('V')
                vs.append(('newtype', n, Cell(n, 'payload', random_cell_type(rng, gens))))
            items.append(('enum', nm('E'), gens, vs))
        else:
            n = nm('A' if kind == 'alias' else 'N')
            items.append((kind, n, gens if kind == 'alias' else [], Cell(n, 'alias', random_cell_type(rng, gens if kind == 'alias' else []))))
    return Prog(items, tag=rng.choice(['t', 'type', 'kind']), content=rng.choice(['c', 'content', 'data']))


def random_cfg(rng, lang):
    c = {}
    if lang == 'kotlin':
        c = {'package': 'com.p', 'prefix': rng.choice(['', '', 'OP'])}
    elif lang == 'scala':
        c = {'package': rng.choice(['com.p', 'a.b.c'])}
    elif lang == 'go':
        c = {'package': 'p', 'uppercase_acronyms': rng.choice([[], [], ['id', 'url']]), 'no_pointer_slice': rng.choice([False, False, True])}
    elif lang == 'swift':
        c = {'prefix': rng.choice(['', '', 'OP'])}
    if rng.random() < 0.3:
        c['type_mappings'] = rng.choice([{'Url': {'typescript': 'string', 'kotlin': 'String', 'swift': 'String', 'scala': 'String', 'go': 'string', 'python': 'str'}[lang]},
                                         {'Unused': 'Nothing'}])
    return c


BASE_CFG = {'kotlin': {'package': 'com.p'}, 'scala': {'package': 'com.p'}, 'go': {'package': 'p'}}


# ------------------------------------------------------------------ rows from generated text
def strip_head(raw, lang):
    """(type-level marker present, type without it) for payload / alias positions and for members"""
    if raw is None:
        return False, None
    if lang == 'swift' and len(raw) > 2 and raw[0] == raw[-1] == '`':
        raw = raw[1:-1]                      # a keyword-named type in back-ticks: the ticks are not part of the name
    if lang in ('kotlin', 'swift'):
        return (True, raw[:-1]) if raw.endswith('?') else (False, raw)
    if lang == 'scala':
        return (True, raw[7:-1]) if raw.startswith('Option[') and raw.endswith(']') else (False, raw)
    if lang == 'python':
        if raw.startswith('Annotated[') and raw.endswith(']'):
            # Annotated[T, BeforeValidator(..), PlainSerializer(..)] (the datetime / bytes helpers): the field's type is T, the rest is metadata;
            # the marker is read off T and the type without it keeps the metadata, so that it is compared with the twin's type AS A WHOLE
            # ("the optional marker never changes the underlying translated type")
            depth, cut = 0, None
            for i, ch in enumerate(raw[10:-1]):
                depth += ch in '[(' 
                depth -= ch in '])'
                if ch == ',' and depth == 0:
                    cut = 10 + i
                    break
            if cut is not None:
                mark, inner = strip_head(raw[10:cut].strip(), lang)
                return mark, f'Annotated[{inner}{raw[cut:]}'
        return (True, raw[9:-1]) if raw.startswith('Optional[') and raw.endswith(']') else (False, raw)
    if lang == 'go':
        return (True, raw[1:]) if raw.startswith('*') else (False, raw)
    return False, raw


STRUCT_VARIANT = re.compile(r'[Ww]q[a-z]{3}$')
NEWTYPE_VARIANT = re.compile(r'[Vv]q[a-z]{3}$')
SW_CASE = re.compile(r'^\s*case \.`?(\w+)`?:\s*$')


def swift_decode_nil(text):
    """names of the cases whose arm in init(from:) has a decodeNil branch"""
    out, cur = set(), None
    for line in text.split('\n'):
        m = SW_CASE.match(line)
        if m:
            cur = m.group(1)
        elif 'decodeNil(forKey:' in line and cur:
            out.add(cur)
        elif 'public func encode(to encoder' in line:
            cur = None
    return out


def member_row(lang, decl, pos, m, init_types):
    det = m['optional_detail']
    if lang == 'typescript':
        return [decl, m['name'], pos, det['question'], det['question'], det['null_union'], m['type'], m['type']]
    tm, base = strip_head(m['type_raw'], lang)
    if lang == 'kotlin':
        im = det['default_null']
    elif lang == 'swift':
        it = init_types.get(m['name'])
        im = bool(it) and it.endswith('?')
    elif lang == 'scala':
        im = det['default_none']
    elif lang == 'go':
        im = det['omitempty']
    else:
        im = det['default_none']
    return [decl, m['name'], pos, tm, im, False, base, m['type_raw']]


def rows_of_text(lang, text):
    """-> (rows, problems). A row is [decl, member, pos, type_mark, init_mark, null_union, base, raw]."""
    o = extract.extract(lang, text)
    nil = swift_decode_nil(text) if lang == 'swift' else set()
    rows = []
    for d in o['definitions']:
        if d['kind'] == 'struct':
            init_types = {n.strip('`'): t for n, t in (d.get('init_params') or [])}
            rows += [member_row(lang, d['name'], 'field', m, init_types) for m in d['members']]
        elif d['kind'] == 'alias':
            if lang == 'typescript':
                # `type A = T[ | null][ | undefined]`: the ` | null` of Option<Option<T>> is read like a member's
                rows.append([d['name'], '', 'alias', bool(d.get('optional')), bool(d.get('optional')),
                             bool((d.get('optional_detail') or {}).get('null_union')), d['type'], d['type']])
            else:
                tm, base = strip_head(d['type_raw'], lang)
                rows.append([d['name'], '', 'alias', tm, tm, False, base, d['type_raw']])
        elif d['kind'] == 'enum':
            for v in d['variants']:
                if lang == 'typescript' and v['payload'] == 'unit' and NEWTYPE_VARIANT.search(v['name']):
                    # a newtype variant of Option<()> is printed `content?: undefined`, the very text of a unit variant (DESIGN 15,
                    # TypeScript); the generator names newtype variants V.. and unit variants U..
                    rows.append([d['name'], v['name'], 'payload', bool(v.get('optional')), bool(v.get('optional')), False, 'undefined', 'undefined'])
                    continue
                if v['payload'] == 'newtype' and STRUCT_VARIANT.search(v['name']):
                    # Kotlin / Scala refer to the helper of a RENAMED enum under another name than it is defined (C09): the
                    # extractor cannot link it and reports a newtype payload; the generator names struct variants W..
                    continue
                if v['payload'] == 'newtype':
                    if lang == 'typescript':
                        # `{ tag: "V", content[?]: T[ | null] }`
                        rows.append([d['name'], v['name'], 'payload', bool(v.get('optional')), bool(v.get('optional')),
                                     bool((v.get('optional_detail') or {}).get('null_union')), v['type'], v['type']])
                    else:
                        tm, base = strip_head(v['type_raw'], lang)
                        raw = v['type_raw'][1:-1] if lang == 'swift' and v['type_raw'][:1] == '`' else v['type_raw']
                        rows.append([d['name'], v['name'], 'payload', tm, (v['name'] in nil) if lang == 'swift' else tm, False, base, raw])
                elif v['payload'] == 'struct' and lang == 'typescript':
                    rows += [member_row(lang, d['name'], 'variant_field', m, {}) for m in v['members']]
    return rows, o['unparsed'] + o['anomalies']


def rows_of_model(x):
    """parsed S-expression answer of c04_rows_* -> ('ok', rows) | (kind, detail)"""
    if x[0] != 'ok':
        return (x[0], None)
    return ('ok', [[vf.unS(r[0]), vf.unS(r[1]), r[2], r[3] == 'true', r[4] == 'true', r[5] == 'true', vf.unS(r[6]), vf.unS(r[7])] for r in x[1]])


def find_row(rows, cell):
    """the row of a cell: identifiers are unique tokens, back ends only change case / add prefixes"""
    tok = cell.ident.lower()
    hits = [r for r in rows if ((r[1] or r[0]).lower().endswith(tok) if cell.pos != 'alias' else (r[1] == '' and r[0].lower().endswith(tok)))]
    return hits[0] if len(hits) == 1 else None


# ------------------------------------------------------------------ the run
def run(chk):
    chk.rule = ('structured programs: structs, adjacently tagged enums (newtype + struct variants), aliases and newtype structs whose positions carry a base type '
                '(13 primitives, Vec/HashMap/array/slice/user/generic-instance/generic-parameter, nested) under 0..2 Option layers with stacks of &, Box/Arc/Rc/Cow/Cell/'
                'RefCell/Mutex/RwLock/Weak around, between and inside the layers, path-qualified or not, and serde(default) absent / bare / merged / split over several '
                'attributes / non-bare `default = "path"` / typeshare(default); both entries (source through parse, IR through generate_ir), six languages, random '
                'prefix / package / acronyms / type_mappings / Go no_pointer_slice. The marker matrix (19 base types x depth x 7 spellings x 4 positions) is enumerated every '
                'run, for Go also under no_pointer_slice = true (verdict good_C04_go: Option<Vec<T>> is `[]T` + omitempty), plus Go type overrides on named fields '
                '(verdict good_C04_go_override: the tag part). '
                'non-trivial = distinct (language, entry, position, depth, default spelling, base type) judged inside dom_C04 with known_C04 = None')
    chk.assumptions = ['syn is not modelled: the model receives the AST libdrive `ast` produces from the same text',
                       'what the generated text MEANS to the target language is the reading of Spec/C04Readers.v + lib/extract.py (no target compilers installed)',
                       'type overrides of the other languages (#[typeshare(lang(type = ..))], serialized_as) and type_mappings keyed on an Option<..> display are outside '
                       'the property\'s quantifier and are not generated; a Go type override replaces the type text by the user\'s: only the tag part (omitempty) is judged there']
    chk.notes += [
        'note (not a violation): Kotlin prints `T?? = null` for Option<Option<T>> - legal, redundant; the property asks for a distinguishable double Option only of TypeScript',
        'note (not a violation): a TypeScript alias of Option<T> is `type A = T | undefined` - the alias form of the optional idiom (a type has no `?` key); '
        'Option<Option<T>> is `T | null | undefined` there and `content?: T | null` at a newtype payload (finding C04-ts-double-nonfield, repaired: its witness runs first and must pass)',
        'note (outside the quantifier): a Kotlin/Swift/Scala/Go/TS type override on an Option field keeps the marker suffix around the user text (Kotlin `Any = null`); overrides are not generated',
        'note (outside the quantifier): serde(default) on the field of a newtype variant is ignored by typeshare - and by serde_derive itself (deserialize_newtype_variant never consults it)']
    chk.prepare(need_cli=True)
    if not chk.harness_ok:
        return
    rng = chk.rng
    if chk.cli_ok:
        # folder-output mode against the same crates generated alone (lib/multi.py): optional markers and the types under them must
        # not depend on the other crates of the run nor on the crate's import set (seeded C04_g)
        import multi
        nw = 12 if chk.tier == 'quick' else 150
        wss = [[random_program(rng, 9000 + 10 * w + j).source() for j in range(rng.choice([2, 3]))] for w in range(nw)]
        wss += [[renamed_wrappers_program(j) for j in range(2)] for _ in range(2)]
        multi.independent_crates(chk, wss, multi.facet_optional, 'optional markers (C04)')
    judge_fixed_witness(chk)
    progs = [('fixedwitness', fixed_witness_program(), {l: dict(BASE_CFG.get(l, {})) for l in LANGS})]
    progs += [('matrix', matrix_program(b, k), {l: dict(BASE_CFG.get(l, {})) for l in LANGS}) for k, b in enumerate(BASES)]
    for k, w in enumerate(WRAPS + ['&']):
        progs.append(('wrapper', wrapper_program(w, BASES[(3 * k) % 16], k), {l: dict(BASE_CFG.get(l, {})) for l in LANGS}))
    # Go only: the marker matrix and the wrapper matrix once more under no_pointer_slice = true (Option<Vec<T>> is `[]T` + omitempty),
    # and Go type overrides on named fields under both values of the switch (the tag part must stay)
    gonps = {'package': 'p', 'no_pointer_slice': True}
    for k, b in enumerate(BASES):
        progs.append(('matrixnps', matrix_program(b, 100 + k), {'go': dict(gonps, uppercase_acronyms=['id', 'url'] if k % 2 else [])}))
    for k, w in enumerate(WRAPS + ['&']):
        progs.append(('wrappernps', wrapper_program(w, BASES[7 + k % 6], 100 + k), {'go': dict(gonps)}))
    for k, b in enumerate([BASES[1], BASES[7], BASES[14]]):
        progs.append(('gooverride', go_override_program(b, 200 + k), {'go': {'package': 'p'}}))
        progs.append(('gooverridenps', go_override_program(b, 210 + k), {'go': dict(gonps)}))
    nrand = 500 if chk.tier == 'quick' else 12000
    for k in range(nrand):
        progs.append(('random', random_program(rng, k), {l: random_cfg(rng, l) for l in LANGS}))
    judge_programs(chk, progs)
    # random IR item sets (lib/irgen.py): states the parser cannot produce (has_default on anything, dashed keys, keywords, decorators)
    g = irgen.Gen(rng, edge=0.15, langs_with_datetime=False)
    nir = 300 if chk.tier == 'quick' else 8000
    judge_ir_sets(chk, [g.items(1, 4) for _ in range(nir)])
    import os
    if os.environ.get('C04_DEBUG'):
        json.dump(chk.corr[:40], open(os.environ['C04_DEBUG'], 'w'), indent=1)
    if chk.corr and not [v for v in chk.violations if not v[2]]:
        chk.violation('correspondence', {'correspondence': 'rows of the real output (lib/extract.py) vs rows of the model declarations (Spec/C04Readers.v over Model/Lang/*.v)',
                                         'cases': chk.corr[:6]},
                      'model and implementation disagree on the optionality observation, yet every implementation row passes good_C04', no_input=True)


def judge_rows(chk, tag, lang, entry, cells, rows_p, rows_t, payload, equal):
    """cells: list of (Cell-like with ident,pos,depth,has_default, key). Judges each against the real rows."""
    req, meta = [], []
    for c in cells:
        rp, rt = find_row(rows_p, c), find_row(rows_t, c)
        if rp is None or rt is None:
            chk.violation(f'{tag}-{lang}-{entry}-{c.ident}', dict(payload, cell=c.ident, lang=lang, entry=entry),
                          f'position {c.ident} ({c.pos}) is missing from (or ambiguous in) the generated {lang} definitions: a member was dropped or invented')
            continue
        extra = ''
        if lang == 'go':
            irty = c.irty if hasattr(c, 'irty') else t_ir(c.ty)
            extra = f' (go {B(bool((payload.get("cfg") or {}).get("no_pointer_slice")))} {ir.sx_ty(irty)} {B(bool(getattr(c, "go_override", None)))})'
        req.append(f'(c04_judge {lang} {c.pos} n{c.depth} {B(c.has_default)} {S(rt[7])} {B(rp[3])} {B(rp[4])} {B(rp[5])} {S(rp[6])}{extra})')
        meta.append((c, rp, rt))
    return req, meta


def python_option_drops_helpers(lang, c, rp, rt):
    """class of the open finding C04-python-option-drops-helpers: a Python field / struct-variant field whose Rust type is one or more Option
    layers around a type with a custom JSON translation.  python.rs write_field looks the translation up by the formatted text, which is
    `Optional[datetime]` there, finds none and prints the bare type: `Optional[datetime] = Field(default=None)`, while the same field without
    the Option layer is `Annotated[datetime, BeforeValidator(parse_rfc3339), PlainSerializer(serialize_datetime_data)]`.
    Decided by the EXTRACTED Gallina predicate Spec.C04PyHelpers.c04_py_option_drops_helpers (driver command c04_py_helpers_cls) on the
    Rust base type under the Option layers, their number, and the observed marker / type / twin type."""
    ty = getattr(c, 'ty', None)
    if lang != 'python' or ty is None or c.pos not in ('field', 'variant_field'):
        return False
    base = ty
    while base[0] in ('opt', 'ref', 'wrap'):
        base = base[2] if base[0] == 'wrap' else base[1]
    if base[0] != 'user':
        return False
    return vf.model([f'(c04_py_helpers_cls {S(base[1])} n{c.depth} {B(bool(rp[3]))} {S(rp[6] or "")} {S(rt[7] or "")})'])[0] == 'true'


def py_plain(t):
    """a Python type text without the Annotated[.., BeforeValidator(..), PlainSerializer(..)] metadata"""
    if isinstance(t, str) and t.startswith('Annotated[') and t.endswith(']'):
        depth = 0
        for i, ch in enumerate(t[10:-1]):
            depth += ch in '[('
            depth -= ch in '])'
            if ch == ',' and depth == 0:
                return t[10:10 + i].strip()
    return t


def model_view(lang, rows):
    """the rows as the MODEL's observation writes them: Spec/C04Readers.v reads the Python member type before the helper functions of a
    custom JSON translation are wrapped around it (the theorem speaks about the marker and the translated type `datetime`, not about the
    (de)serialisation helpers); the judgement itself runs on the rows of the real text, helpers included"""
    if lang != 'python':
        return rows
    return [r[:6] + [py_plain(r[6]), py_plain(r[7])] for r in rows]


def settle(chk, tag, lang, entry, meta, answers, payload, equal, basekey):
    for (c, rp, rt), a in zip(meta, answers):
        dom, known, good = a[0] == 'true', vf.sx_opt(a[1]), a[2] == 'true'
        chk.evaluations += 1
        chk.count(f'{lang}_{c.pos}_d{c.depth}_{"default" if c.has_default else "nodefault"}')
        if not dom:
            chk.count('outside_dom')
            continue
        if good and known is None:
            chk.nontrivial.add((lang, entry, c.pos, c.depth, getattr(c, 'default', c.has_default), basekey(c)))
        if good:
            if known is not None:
                chk.notes.append(f'finding class {known} did not reproduce on {lang} {c.ident}') if len(chk.notes) < 5 else None
            continue
        what = (f'{lang} {c.pos} {c.ident}: Rust Option depth {c.depth}, bare serde(default) {c.has_default}; generated: type-level marker {rp[3]}, '
                f'initialiser/tag marker {rp[4]}, `| null` {rp[5]}, type without marker {rp[6]!r} (as written {rp[7]!r}); the same position with one Option layer '
                f'and the default removed is written {rt[7]!r}')
        if known is None and python_option_drops_helpers(lang, c, rp, rt):
            # the open finding C04-python-option-drops-helpers: decided on the input (Python, Option<..> around a type with a custom JSON
            # translation) AND on the exact shape of the failure (marker right, bare translated type, twin carries the helpers)
            if not chk.known('C04-python-option-drops-helpers', what):
                chk.violation(f'{tag}-{lang}-{entry}-{c.ident}', dict(payload, cell=c.ident, lang=lang, entry=entry, row=rp, twin_row=rt), 'unlisted finding class: ' + what)
            continue
        if known is None or not equal:
            chk.violation(f'{tag}-{lang}-{entry}-{c.ident}', dict(payload, cell=c.ident, lang=lang, entry=entry, row=rp, twin_row=rt), what)
        elif not chk.known(known, what):
            chk.violation(f'{tag}-{lang}-{entry}-{c.ident}', dict(payload, cell=c.ident, lang=lang, entry=entry, row=rp, twin_row=rt), f'unlisted finding class {known}: ' + what)


def judge_programs(chk, progs):
    if not hasattr(chk, 'corr'):
        chk.corr = []
    # 1. the real tool: P and twin, from source and from IR
    ireq, ikey = [], []
    for n, (kind, p, cfgs) in enumerate(progs):
        src, tsrc, items, titems = p.source(), p.source(True), p.ir_items(), p.ir_items(True)
        for lang in [l for l in LANGS if l in cfgs]:
            c = cfgs[lang]
            ireq += [{'cmd': 'generate', 'lang': lang, 'cfg': c, 'src': src, 'target_os': []}, {'cmd': 'generate', 'lang': lang, 'cfg': c, 'src': tsrc, 'target_os': []},
                     {'cmd': 'generate_ir', 'lang': lang, 'cfg': c, 'items': items, 'reconcile': False}, {'cmd': 'generate_ir', 'lang': lang, 'cfg': c, 'items': titems, 'reconcile': False}]
            ikey += [(n, lang, 'src', False), (n, lang, 'src', True), (n, lang, 'ir', False), (n, lang, 'ir', True)]
    ires = dict(zip(ikey, vf.impl(ireq)))
    # 2. the model's rows for P, and the source oracle
    srcs = sorted(set(p.source() for _, p, _ in progs))
    asts = dict(zip(srcs, vf.impl([{'cmd': 'ast', 'src': s} for s in srcs])))
    mreq, mkey = [], []
    for n, (kind, p, cfgs) in enumerate(progs):
        a = asts[p.source()]
        if 'ok' not in a:
            chk.violation(f'gen-{n}', {'source': p.source(), 'ast': a}, 'generator produced source syn rejects', no_input=True)
            continue
        mreq.append(f'(c04_cells {a["ok"]})')
        mkey.append((n, None, 'cells'))
        for lang in [l for l in LANGS if l in cfgs]:
            mreq.append(f'(c04_rows_src {lang} {back.cfg_sx(cfgs[lang])} {a["ok"]} {a["tstrs"]} ())')
            mkey.append((n, lang, 'src'))
            mreq.append(f'(c04_rows_ir {lang} {back.cfg_sx(cfgs[lang])} {back.items_sx(p.ir_items())} false)')
            mkey.append((n, lang, 'ir'))
    mres = dict(zip(mkey, vf.model(mreq)))
    jreq, jmeta = [], []
    for n, (kind, p, cfgs) in enumerate(progs):
        cells = p.cells()
        if (n, None, 'cells') not in mres:
            continue
        # ground truth of the generator vs the Gallina source oracle (Spec.C04Spec.c04_file_cells on the syn AST)
        oracle = {vf.unS(x[0]): (int(x[1][1:]), x[2] == 'true') for x in mres[(n, None, 'cells')]}
        for c in cells:
            want = (c.depth, c.default in COUNTS and c.pos in ('field', 'variant_field'))
            if oracle.get(c.ident) != want:
                chk.violation(f'oracle-{n}-{c.ident}', {'source': p.source(), 'cell': c.ident, 'generator': want, 'oracle': oracle.get(c.ident)},
                              'the generator\'s ground truth and Spec.C04Spec.c04_file_cells disagree about the source', no_input=True)
        for lang in [l for l in LANGS if l in cfgs]:
            for entry in ('src', 'ir'):
                rp, rt = ires[(n, lang, entry, False)], ires[(n, lang, entry, True)]
                payload = {'kind': kind, 'source': p.source(), 'twin_source': p.source(True), 'cfg': cfgs[lang], 'items': p.ir_items() if entry == 'ir' else None}
                m = rows_of_model(mres[(n, lang, entry)])
                if 'ok' not in rp or 'ok' not in rt:
                    # the back end refuses the program (e.g. a generic HashMap key): must agree with the model; nothing to judge
                    chk.count('impl_not_ok')
                    if m[0] == 'ok':
                        chk.corr.append(dict(payload, lang=lang, entry=entry, impl=str(rp)[:300], model='ok'))
                    continue
                rows_p, prob = rows_of_text(lang, rp['ok'])
                rows_t, prob_t = rows_of_text(lang, rt['ok'])
                if prob or prob_t:
                    chk.unreadable(lang, dict(payload, entry=entry, text=rp['ok'][:3000]), prob + prob_t)
                    continue
                equal = m[0] == 'ok' and m[1] == model_view(lang, rows_p)
                if not equal:
                    chk.corr.append(dict(payload, lang=lang, entry=entry, impl_rows=rows_p, model_rows=m[1] if m[0] == 'ok' else m[0]))
                req, meta = judge_rows(chk, f'{kind}{n}', lang, entry, cells, rows_p, rows_t, payload, equal)
                jreq += req
                jmeta += [(f'{kind}{n}', lang, entry, x, payload, equal) for x in meta]
                if n % 37 == 0 and lang == 'kotlin' and entry == 'src':
                    chk.sample({'source': p.source()[:400], 'kotlin_rows': rows_p[:4]})
    answers = vf.model(jreq)
    for (tag, lang, entry, x, payload, equal), a in zip(jmeta, answers):
        settle(chk, tag, lang, entry, [x], [a], payload, equal, lambda c: t_rust(strip_all(c.ty)))
    chk.count('programs', len(progs))
    chk.count('correspondence_mismatches', len(chk.corr))


def strip_all(t):
    while t_depth(t) > 0:
        t = t_strip(t)
    return t


# ------------------------------------------------------------------ random IR item sets
class IrCell:
    def __init__(self, ident, pos, ty, has_default, override):
        self.ident, self.pos, self.irty, self.has_default, self.override = ident, pos, ty, has_default and pos in ('field', 'variant_field'), override
        d, t = 0, ty
        while t['k'] == 'special' and t['name'] == 'Option':
            d, t = d + 1, t['params'][0]
        self.depth, self.base = d, json.dumps(t, sort_keys=True)
        self.default = self.has_default


def ir_strip(t):
    return t['params'][0] if t['k'] == 'special' and t['name'] == 'Option' else t


def ir_twin_and_cells(items, nm):
    """rename every field / tuple variant / alias to a unique token (keys included), return (items, twin, cells)"""
    cp = json.loads(json.dumps(items))
    cells = []

    def field(f, pos):
        tok = nm('f')
        f['id'] = ir.mk_id(tok)
        cells.append(IrCell(tok, pos, f['ty'], f.get('has_default', False), bool(f.get('decorators'))))
    for s in cp['structs']:
        s['decorators'] = [d for d in s.get('decorators', []) if d[0] != 'Kotlin']
        for f in s['fields']:
            field(f, 'field')
    for e in cp['enums']:
        for v in e['variants']:
            if v['k'] == 'tuple':
                tok = nm('V')
                v['id'] = ir.mk_id(tok)
                cells.append(IrCell(tok, 'payload', v['ty'], False, False))
            elif v['k'] == 'struct':
                v['id'] = ir.mk_id(nm('W'))
                for f in v['fields']:
                    field(f, 'variant_field')
            else:
                v['id'] = ir.mk_id(nm('U'))
    for a in cp['aliases']:
        tok = nm('A')
        a['id'] = ir.mk_id(tok)
        a['decorators'] = []
        cells.append(IrCell(tok, 'alias', a['ty'], False, False))
    cp['consts'] = []
    tw = json.loads(json.dumps(cp))
    for s in tw['structs']:
        for f in s['fields']:
            f['ty'], f['has_default'] = ir_strip(f['ty']), False
    for e in tw['enums']:
        for v in e['variants']:
            if v['k'] == 'tuple':
                v['ty'] = ir_strip(v['ty'])
            elif v['k'] == 'struct':
                for f in v['fields']:
                    f['ty'], f['has_default'] = ir_strip(f['ty']), False
    for a in tw['aliases']:
        a['ty'] = ir_strip(a['ty'])
    return cp, tw, cells


def ir_cfg(lang, n):
    """configuration of the n-th IR set: Go alternates no_pointer_slice"""
    c = dict(BASE_CFG.get(lang, {}))
    if lang == 'go' and n % 2:
        c['no_pointer_slice'] = True
    return c


def judge_ir_sets(chk, sets):
    if not hasattr(chk, 'corr'):
        chk.corr = []
    prepared = []
    for n, items in enumerate(sets):
        prepared.append(ir_twin_and_cells(items, Namer()))
    ireq, mreq, key = [], [], []
    for n, (cp, tw, cells) in enumerate(prepared):
        for lang in LANGS:
            c = ir_cfg(lang, n)
            ireq += [{'cmd': 'generate_ir', 'lang': lang, 'cfg': c, 'items': cp, 'reconcile': False}, {'cmd': 'generate_ir', 'lang': lang, 'cfg': c, 'items': tw, 'reconcile': False}]
            mreq.append(f'(c04_rows_ir {lang} {back.cfg_sx(c)} {back.items_sx(cp)} false)')
            key.append((n, lang))
    ires = vf.impl(ireq)
    mres = vf.model(mreq)
    jreq, jmeta = [], []
    for k, (n, lang) in enumerate(key):
        cp, tw, cells = prepared[n]
        rp, rt, m = ires[2 * k], ires[2 * k + 1], rows_of_model(mres[k])
        payload = {'kind': 'irset', 'items': cp, 'twin_items': tw, 'cfg': ir_cfg(lang, n)}
        if 'ok' not in rp or 'ok' not in rt:
            chk.count('impl_not_ok')
            if m[0] == 'ok' and 'ok' not in rp:
                chk.corr.append(dict(payload, lang=lang, entry='irset', impl=str(rp)[:300], model='ok'))
            continue
        rows_p, prob = rows_of_text(lang, rp['ok'])
        rows_t, prob_t = rows_of_text(lang, rt['ok'])
        if prob or prob_t:
            chk.count('irset_text_outside_template')     # planted keywords / dashes / quotes: lexical subject of C10/C15, nothing judged here
            continue
        equal = m[0] == 'ok' and m[1] == rows_p
        if not equal:
            chk.corr.append(dict(payload, lang=lang, entry='irset', impl_rows=rows_p, model_rows=m[1] if m[0] == 'ok' else m[0]))
        # a type override replaces the printed type: outside the quantifier (python ignores overrides)
        judged = [c for c in cells if not (c.override and lang != 'python')]
        req, meta = judge_rows(chk, f'irset{n}', lang, 'irset', judged, rows_p, rows_t, payload, equal)
        jreq += req
        jmeta += [(f'irset{n}', lang, 'irset', x, payload, equal) for x in meta]
    answers = vf.model(jreq)
    for (tag, lang, entry, x, payload, equal), a in zip(jmeta, answers):
        settle(chk, tag, lang, entry, [x], [a], payload, equal, lambda c: c.base)
    chk.count('ir_sets', len(sets))
    chk.count('correspondence_mismatches', len(chk.corr) - chk.counters.get('correspondence_mismatches', 0))


def replay(chk, path):
    chk.prepare(need_cli=False)
    d = json.load(open(path))
    lang = d.get('lang')
    for l in ([lang] if lang else LANGS):
        cfg = d.get('cfg') or BASE_CFG.get(l, {})
        if d.get('items') is not None:
            r = vf.impl([{'cmd': 'generate_ir', 'lang': l, 'cfg': cfg, 'items': d['items'], 'reconcile': False}])[0]
            m = vf.model([f'(c04_rows_ir {l} {back.cfg_sx(cfg)} {back.items_sx(d["items"])} false)'])[0]
        else:
            r = vf.impl([{'cmd': 'generate', 'lang': l, 'cfg': cfg, 'src': d['source'], 'target_os': []}])[0]
            a = vf.impl([{'cmd': 'ast', 'src': d['source']}])[0]
            m = vf.model([f'(c04_rows_src {l} {back.cfg_sx(cfg)} {a["ok"]} {a["tstrs"]} ())'])[0]
        print(f'== {l}')
        if 'ok' in r:
            print(r['ok'][:3000])
            for row in rows_of_text(l, r['ok'])[0]:
                print('impl row :', row)
        else:
            print('impl:', str(r)[:500])
        mm = rows_of_model(m)
        for row in (mm[1] or []):
            print('model row:', row)
    return 0
