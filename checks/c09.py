"""C09 - every reference to a generated type uses the name the type is defined under.
Proof: Props/C09.v (spec Spec/C09Spec.v).  Correspondence: generated programs of 2-8 mutually
referencing items of every kind (checks/c09_gen.py), every subset carrying serde(rename), three prefix
settings, Go acronym lists; per language the REAL output (libdrive `generate`, and the real binary on a
subset) is turned by lib/extract.py into the C09 observation (names of the definitions, multiset of
(declaration, position, referenced name)); the extracted model produces the same observation from its
declarations (Model/Lang/Decl.v read by Spec.C09Spec.c09_observe); both are judged by the extracted
good_C09 / c09_failures, each failing reference is classified by the extracted c09_ref_class from the
input program + configuration + the coordinates of the reference.
Two findings of the unchanged tree, C09-generic-ref and C09-const-type, are repaired in /repo (core/src/reconcile.rs:
check_type resolves the id of a Generic, reconcile_aliases visits the const types): they are in no class any more
(Props C09_generic_ref_fixed*, C09_const_type_fixed*), their witnesses run first in every language that can print
them and must PASS - a reference that keeps the Rust name is a plain violation."""
import concurrent.futures, json, subprocess
import vf, progs, back, extract
import c09_gen
from vf import S, Lst, sx_opt, unS

LANGS = ['typescript', 'kotlin', 'swift', 'scala', 'go', 'python']
PREFIXES = ['', 'OP', 'X_']
# Go acronym lists: lower case, UPPER case and Mixed case spellings (go.rs:582 searches the PascalCase form: id, Id and ID all
# give Id), a non-idempotent triple, and `id` again so that the generic parameter TId of c09_gen is rewritten at its uses
ACRONYMS = [[], [], ['id', 'api'], ['ID', 'url', 'HTTP'], ['xy', 'yZw', 'wQr'], ['Id', 'Api', 'http'], ['id'],
            ['no', 'it', 'co', 'id']]      # occurrences followed by a lower-case letter (Node, Item, Config, Color) must stay: go.rs:588
EXT = {'typescript': 'ts', 'kotlin': 'kt', 'swift': 'swift', 'scala': 'scala', 'go': 'go', 'python': 'py'}


def cfg_for(lang, k):
    """the k-th configuration of a language: prefixes rotate for Kotlin/Swift, acronym lists for Go"""
    if lang == 'kotlin':
        return {'package': 'com.example', 'prefix': PREFIXES[k % 3]}
    if lang == 'swift':
        return {'prefix': PREFIXES[k % 3]}
    if lang == 'scala':
        return {'package': 'com.example'}
    if lang == 'go':
        return {'package': 'example', 'uppercase_acronyms': ACRONYMS[k % len(ACRONYMS)]}
    return {}


# ---------------------------------------------------------------- observation of real text
def idents(lang, text):
    out = []
    for ident, _ in extract.type_idents(lang, text or ''):
        if lang == 'go' and '.' in ident:
            continue
        if ident in extract.HELPERS[lang] or ident in extract.BUILTINS[lang]:
            continue
        out.append(ident)
    return out


def observe_text(lang, text):
    """C09 observation of a generated file: (sorted definition names, sorted (in, position, name)), plus
    what the extractor could not attribute (a blind extractor must not look like agreement)"""
    o = extract.extract(lang, text)
    defs, refs = [], []
    for d in o['definitions']:
        kind, name = d['kind'], d['name']
        if kind in ('struct', 'enum', 'alias'):
            defs.append(name)
        if kind == 'alias':
            refs += [(name, 'alias', n) for n in idents(lang, d.get('type'))]
        elif kind == 'const':
            refs += [(name, 'const', n) for n in idents(lang, d.get('type'))]
        elif kind in ('struct', 'enum'):
            for m in d['members']:
                refs += [(name, 'field', n) for n in idents(lang, m.get('type'))]
            for v in d['variants']:
                if v.get('parent') and 'string_value' not in v:      # Kotlin enum-class entries spell no parent
                    refs.append((name, 'parent', v['parent']))
                if v['payload'] in ('newtype', 'struct') and not v.get('members'):
                    refs += [(name, 'payload', n) for n in idents(lang, v.get('type'))]
                for m in v.get('members') or []:
                    refs += [(name, 'field', n) for n in idents(lang, m.get('type'))]
    return sorted(defs), sorted(refs), o['unparsed'] + o['anomalies']


def obs_sx(defs, refs):
    return '(' + Lst(defs, S) + ' ' + Lst(refs, lambda r: f'({S(r[0])} {r[1]} {S(r[2])})') + ')'


def ref_of(x):
    return (unS(x[0]), x[1], unS(x[2]))


def judge_of(x):
    """(good, [(ref, class or None)])"""
    return x[0] == 'true', [(ref_of(f[0]), sx_opt(f[1])) for f in x[1]]


# ---------------------------------------------------------------- witnesses of the recorded classes
W_COMMON = '''
#[typeshare]
#[serde(rename = "SRen")]
pub struct S { pub a: u32 }
'''
WITNESSES = {
    'C09-kotlin-enum-parent': ('kotlin', {'package': 'p', 'prefix': 'KP'}, '''
#[typeshare]
#[serde(tag = "type", content = "content", rename = "ERen")]
pub enum E { V1(u32), V2 }
'''),
    'C09-kotlin-inner': ('kotlin', {'package': 'p', 'prefix': 'KP'}, '''
#[typeshare]
#[serde(tag = "type", content = "content", rename = "ERen")]
pub enum E { V1 { a: u32 } }
'''),
    'C09-kotlin-alias': ('kotlin', {'package': 'p', 'prefix': 'KP'}, '''
#[typeshare]
#[serde(rename = "ARen")]
pub type A = u32;
#[typeshare]
pub struct H { pub a: A }
'''),
    'C09-kotlin-inline-generic': ('kotlin', {'package': 'p', 'prefix': 'KP'}, '''
#[typeshare(kotlin = "JvmInline")]
pub type A<T> = Vec<T>;
'''),
    'C09-scala-enum-parent': ('scala', {'package': 'p.q'}, '''
#[typeshare]
#[serde(tag = "type", content = "content", rename = "ERen")]
pub enum E { V1(u32), V2 }
'''),
    'C09-scala-inner': ('scala', {'package': 'p.q'}, '''
#[typeshare]
#[serde(tag = "type", content = "content", rename = "ERen")]
pub enum E { V1 { a: u32 } }
'''),
    'C09-scala-alias': ('scala', {'package': 'p.q'}, '''
#[typeshare]
#[serde(rename = "ARen")]
pub type A = u32;
#[typeshare]
pub struct H { pub a: A }
'''),
    'C09-go-alias': ('go', {'package': 'p'}, '''
#[typeshare]
#[serde(rename = "ARen")]
pub type A = u32;
#[typeshare]
pub struct H { pub a: A }
'''),
    'C09-go-enum': ('go', {'package': 'p'}, '''
#[typeshare]
#[serde(rename = "URen")]
pub enum U { X, Y }
#[typeshare]
pub struct H { pub u: U }
'''),
    'C09-go-acronym-target': ('go', {'package': 'p', 'uppercase_acronyms': ['id']}, '''
#[typeshare]
pub struct UserId { pub a: u32 }
#[typeshare]
pub type Ids = Vec<UserId>;
'''),
    'C09-go-acronym-generic': ('go', {'package': 'p', 'uppercase_acronyms': ['ID']}, '''
#[typeshare]
pub struct UserId { pub a: u32 }
#[typeshare]
pub struct Foo<TId> { pub x: TId, pub v: Vec<UserId> }
'''),
    'C09-go-acronym-inner': ('go', {'package': 'p', 'uppercase_acronyms': ['xy', 'yZw', 'wQr']}, '''
#[typeshare]
#[serde(tag = "type", content = "content")]
pub enum E { XyZwQr { a: u32 }, Other(u32) }
'''),
}

# witnesses of the findings repaired in /repo (KNOWN_FINDINGS.jsonl status fixed): (finding, lang, cfg, source, a reference the
# generated file must spell).  They are outside every class and must PASS.
W_GENERIC = W_COMMON + '''
#[typeshare]
#[serde(rename = "GRen")]
pub struct G<T> { pub t: T }
#[typeshare]
pub struct H { pub g: G<S>, pub v: Vec<G<u32>>, pub o: Option<G<G<S>>> }
#[typeshare]
pub type GA = G<S>;
#[typeshare]
#[serde(tag = "type", content = "content")]
pub enum E { V1(G<S>), V2 { g: G<u32> } }
'''
W_CONST = '''
#[typeshare]
#[serde(rename = "ARen")]
pub type A = u32;
#[typeshare]
pub const LIMIT: A = 5;
'''
FIXED_WITNESSES = [
    ('C09-generic-ref', 'typescript', {}, W_GENERIC, ('H', 'field', 'GRen')),
    ('C09-generic-ref', 'typescript', {}, W_GENERIC, ('GA', 'alias', 'GRen')),
    ('C09-generic-ref', 'typescript', {}, W_GENERIC, ('E', 'payload', 'GRen')),
    ('C09-generic-ref', 'kotlin', {'package': 'p', 'prefix': 'KP'}, W_GENERIC, ('KPH', 'field', 'KPGRen')),
    ('C09-generic-ref', 'swift', {'prefix': 'OP'}, W_GENERIC, ('OPH', 'field', 'OPGRen')),
    ('C09-generic-ref', 'scala', {'package': 'p.q'}, W_GENERIC, ('H', 'field', 'GRen')),
    ('C09-generic-ref', 'go', {'package': 'p'}, W_GENERIC, ('H', 'field', 'GRen')),
    ('C09-generic-ref', 'python', {}, W_GENERIC, ('H', 'field', 'GRen')),
    ('C09-const-type', 'typescript', {}, W_CONST, ('LIMIT', 'const', 'ARen')),
    ('C09-const-type', 'python', {}, W_CONST, ('LIMIT', 'const', 'ARen')),
]


def fixed_witnesses(chk, corr):
    """the witnesses of the repaired findings: inside the domain, in no class, generated, the implementation's observation is good,
    equals the model's and spells the renamed reference.  Anything else is a regression (plain violation)."""
    res = run_cases([(l, c, s) for _, l, c, s, _ in FIXED_WITNESSES])
    for k, ((fid, lang, cfg, src, ref), r) in enumerate(zip(FIXED_WITNESSES, res)):
        chk.count('fixed_witness_runs')
        nv = len(chk.violations)
        verdict(chk, r, f'fixed-{fid}-{k}', corr)
        if len(chk.violations) > nv:
            continue                      # a failing reference was reported (known_C09 = None: every failure is a violation)
        payload = {k2: r.get(k2) for k2 in ('lang', 'cfg', 'source', 'impl', 'model', 'known', 'classes', 'dom', 'impl_obs', 'model_obs')}
        payload['fixed_finding'] = fid
        payload['expected_reference'] = {'in': ref[0], 'position': ref[1], 'name': ref[2]}
        if r.get('model_raw') != 'ok' or r['impl'] != 'ok' or r.get('model') != 'ok' or not r.get('dom'):
            chk.violation(f'fixed-{fid}-{k}', payload, f'witness of the fixed finding {fid} ({lang}) is no longer generated inside dom_C09 by implementation and model')
        elif r['known'] is not None:
            chk.violation(f'fixed-{fid}-{k}', payload, f'witness of the fixed finding {fid} ({lang}) falls into class {r["known"]}: the class was removed from known_C09', no_input=True)
        elif not r['impl_judge'][0]:
            chk.violation(f'fixed-{fid}-{k}', payload, f'witness of the fixed finding {fid} ({lang}) fails good_C09 again: regression')
        elif ref not in r['impl_obs'][1]:
            chk.violation(f'fixed-{fid}-{k}', payload, f'witness of the fixed finding {fid} ({lang}): the generated file does not spell the {ref[1]} reference `{ref[2]}` in `{ref[0]}`')
        elif r['impl_obs'] != r['model_obs']:
            chk.violation(f'fixed-{fid}-{k}', payload, f'witness of the fixed finding {fid} ({lang}): model and implementation observe different references', no_input=True)


# ---------------------------------------------------------------- running a batch
def run_cases(cases):
    """cases: list of (lang, cfg, source). -> list of dict"""
    srcs = sorted(set(c[2] for c in cases))
    asts = dict(zip(srcs, vf.impl([{'cmd': 'ast', 'src': s} for s in srcs])))
    ires = vf.impl([{'cmd': 'generate', 'lang': l, 'cfg': c, 'src': s, 'target_os': []} for l, c, s in cases])
    out, mreq, midx = [], [], []
    for k, ((l, c, s), ir) in enumerate(zip(cases, ires)):
        impl = back.impl_canon(ir)
        r = {'lang': l, 'cfg': c, 'source': s, 'impl': impl[0], 'impl_obs': None, 'extract_leftover': []}
        a = asts[s]
        if impl[0] == 'ok':
            d, rf, left = observe_text(l, impl[1])
            r['impl_obs'] = (d, rf)
            r['extract_leftover'] = left
            r['impl_text'] = impl[1]
        else:
            r['impl_detail'] = impl[1]
        if 'ok' in a:
            io = 'none' if r['impl_obs'] is None else f'(some {obs_sx(*r["impl_obs"])})'
            mreq.append(f'(c09 {l} {back.cfg_sx(c)} {a["ok"]} {a["tstrs"]} {io})')
            midx.append(k)
        out.append(r)
    for k, m in zip(midx, vf.model(mreq)):
        r = out[k]
        r['model_raw'] = m[0]
        if m[0] != 'ok':
            continue
        r['dom'] = m[1] == 'true'
        r['known'] = sx_opt(m[2])
        r['classes'] = sorted(set(m[3]))
        mm = m[4]
        r['model'] = mm[0]
        if mm[0] == 'ok':
            r['model_obs'] = (sorted(unS(x) for x in mm[1][0]), sorted(ref_of(x) for x in mm[1][1]))
            r['model_judge'] = judge_of(mm[2])
        r['impl_judge'] = sx_opt(m[5], judge_of)
    return out


def verdict(chk, r, name, corr, witness_of=None):
    """applies the verdict table of DESIGN §7 to one case; returns the set of classes reproduced"""
    chk.evaluations += 1
    payload = {k: r.get(k) for k in ('lang', 'cfg', 'source', 'impl', 'known', 'classes', 'dom', 'impl_obs', 'model_obs', 'extract_leftover')}
    hit = set()
    if r.get('model_raw') != 'ok':
        chk.count('front_end_rejects')
        return hit
    if r['impl'] != 'ok' or r['model'] != 'ok':
        chk.count(f'{r["lang"]}_not_generated')
        if (r['impl'] == 'ok') != (r['model'] == 'ok'):
            corr.append(dict(payload, what=f'implementation {r["impl"]} but model {r["model"]}'))
        return hit
    if not r['dom']:
        chk.count('outside_dom')
        return hit
    chk.count('in_dom_' + r['lang'])
    equal = r['impl_obs'] == r['model_obs']
    good, fails = r['impl_judge']
    mgood, mfails = r['model_judge']
    if r['extract_leftover']:
        corr.append(dict(payload, what='lib/extract.py left lines of the real output unattributed'))
        if not equal and not good:
            chk.unreadable(r['lang'], payload, r['extract_leftover'])       # lines the extractor cannot read: the observation is not judgeable
            return hit
    # the theorem, evaluated on the extracted model: outside the recorded classes the model's observation is good
    if r['known'] is None and not mgood:
        chk.violation(name + '-theorem', dict(payload, model_failures=mfails),
                      'extracted model contradicts C09_L: known_C09 = None but good_C09 (model observation) = false', no_input=True)
    if r['known'] is None and r['model_obs'][1]:
        chk.nontrivial.add((r['source'], r['lang'], json.dumps(r['cfg'], sort_keys=True)))
    if good:
        if not equal:
            corr.append(dict(payload, what='observations differ (implementation observation is good)'))
        return hit
    mset = {f[0] for f in mfails}
    for ref, cls in fails:
        p = dict(payload, failing_reference={'in': ref[0], 'position': ref[1], 'name': ref[2]}, class_=cls)
        if cls is None:
            chk.violation(name, p, f'{r["lang"]}: in `{ref[0]}` the {ref[1]} reference `{ref[2]}` is not the name any generated type is defined under '
                                   f'(definitions: {", ".join(r["impl_obs"][0])}); no recorded class explains it')
        elif r['known'] is None:
            chk.violation(name, p, f'{r["lang"]}: reference `{ref[2]}` fails in class {cls} although known_C09 = None for this program')
        elif ref not in mset:
            chk.violation(name, p, f'{r["lang"]}: in `{ref[0]}` the {ref[1]} reference `{ref[2]}` does not match its definition; the input is in class {cls} '
                                   f'but the model (the recorded finding) does not predict this failure')
        elif not chk.known(cls, p):
            chk.violation(name, p, f'{r["lang"]}: failing reference `{ref[2]}` in class {cls}, which is not an open finding in KNOWN_FINDINGS.jsonl')
        else:
            hit.add(cls)
    if not equal:
        # fails, and differently from the model: every differing failure was reported above; differing good parts:
        corr.append(dict(payload, what='observations differ on a case with failing references'))
    return hit


def run_binary(job):
    lang, cfg, src = job
    d = vf.tmpdir()
    (d / 'src').mkdir()
    (d / 'src' / 'lib.rs').write_text(src)
    out = d / f'out.{EXT[lang]}'
    args = ['timeout', '20', str(vf.TYPESHARE), '--lang', lang, '-o', str(out)]
    if lang == 'kotlin':
        args += ['--java-package', cfg['package']] + (['--kotlin-prefix', cfg['prefix']] if cfg['prefix'] else [])
    if lang == 'swift' and cfg['prefix']:
        args += ['--swift-prefix', cfg['prefix']]
    if lang == 'scala':
        args += ['--scala-package', cfg['package']]
    if lang == 'go':
        args += ['--go-package', cfg['package']]
        if cfg.get('uppercase_acronyms'):
            (d / 'typeshare.toml').write_text('[go]\nuppercase_acronyms = [' + ', '.join(f'"{a}"' for a in cfg['uppercase_acronyms']) + ']\n')
            args += ['-c', str(d / 'typeshare.toml')]
    try:
        p = subprocess.run(args + [str(d / 'src')], capture_output=True, text=True, timeout=30, cwd=d)
        rc = p.returncode
    except subprocess.TimeoutExpired:
        rc = 124
    return (rc, out.read_text() if out.exists() else None)



# ---------------------------------------------------------------- multi-file (folder output): every reference resolves in its file
A_LIB = ('#[typeshare]\npub struct A1 { pub x: u8 }\n#[typeshare]\n#[serde(rename = "A2Renamed")]\npub struct A2 { pub x: u8 }\n'
         '#[typeshare]\npub struct A3 { pub y: String }\n#[typeshare]\npub struct Wrap<T> { pub inner: T }\n')
MULTI_WS = [
    # a cross-crate reference to a serde-RENAMED type: spelled with the generated name AND imported under it (the import was lost
    # before the /repo fix of finding C14-renamed-import, reconcile.rs:71) - by `use`, by qualified path, grouped with other kinds
    ('use of a renamed type of another crate', {'a/src/lib.rs': A_LIB, 'b/src/lib.rs': 'use a::A2;\nuse a::A1;\n#[typeshare]\npub struct B1 { pub f: A2, pub g: Vec<A2>, pub h: A1 }\n'},
     {'b': ['A1', 'A2Renamed', 'A2Renamed']}),
    ('qualified path to a renamed type of another crate', {'a/src/lib.rs': A_LIB, 'b/src/lib.rs': '#[typeshare]\npub struct B1 { pub f: a::A2, pub g: Option<a::m::A2>, pub h: a::Wrap<a::A2> }\n'},
     {'b': ['A2Renamed', 'A2Renamed', 'A2Renamed', 'Wrap']}),
    ('renamed enum, alias and generic struct of another crate', {'a/src/lib.rs': '#[typeshare]\n#[serde(rename = "ColorName")]\npub enum Color { Red, Green }\n'
                                                                                 '#[typeshare]\n#[serde(rename = "UserId")]\npub type Id = String;\n'
                                                                                 '#[typeshare]\n#[serde(rename = "PageOf")]\npub struct Page<T> { pub items: Vec<T> }\n',
                                                                 'b/src/lib.rs': 'use a::{Color, Id, Page};\n#[typeshare]\n#[serde(tag = "t", content = "c")]\npub enum E1 { V0(Color), V1 { f: Option<Id>, g: Page<Color> } }\n'
                                                                                 '#[typeshare]\npub type L1 = Page<Id>;\n'},
     {'b': ['ColorName', 'ColorName', 'PageOf', 'PageOf', 'UserId', 'UserId']}),
    ('explicit imports from a crate that also has a renamed type', {'a/src/lib.rs': A_LIB, 'b/src/lib.rs': 'use a::{A1, A3, Wrap};\n#[typeshare]\npub struct B1 { pub f: A1, pub g: Vec<A3>, pub h: Wrap<A3> }\n'},
     {'b': ['A1', 'A3', 'A3', 'Wrap']}),
    ('glob import of a crate with a renamed type', {'a/src/lib.rs': A_LIB, 'b/src/lib.rs': 'use a::*;\n#[typeshare]\npub struct B1 { pub f: A1, pub g: Option<A3>, pub h: Wrap<A1> }\n'},
     {'b': ['A1', 'A1', 'A3', 'Wrap']}),
    # the importing crate has a type of its own under the Rust name of a glob-imported, serde-renamed type (seeded C09_d)
    ('local type shadows a glob-imported renamed type', {'a/src/lib.rs': A_LIB, 'b/src/lib.rs': 'use a::*;\n#[typeshare]\npub struct A2 { pub z: u8 }\n'
                                                                                                  '#[typeshare]\npub struct B1 { pub f: A2, pub g: Vec<A2>, pub h: A1 }\n#[typeshare]\npub type L1 = Option<A2>;\n'},
     {'b': ['A1', 'A2', 'A2', 'A2']}),
    ('local renamed type shadows a glob-imported type', {'a/src/lib.rs': A_LIB, 'b/src/lib.rs': 'use a::*;\n#[typeshare]\n#[serde(rename = "MineA1")]\npub struct A1 { pub z: u8 }\n'
                                                                                                  '#[typeshare]\npub struct B1 { pub f: A1, pub g: A3 }\n'},
     {'b': ['A3', 'MineA1']}),
    ('shadowing type in another file of the crate', {'a/src/lib.rs': A_LIB, 'b/src/lib.rs': 'use a::*;\n#[typeshare]\npub struct B0 { pub h: A3 }\n',
                                                     'b/src/own.rs': '#[typeshare]\npub struct A2 { pub z: u8 }\n#[typeshare]\npub struct B1 { pub f: A2, pub g: Wrap2<A2> }\n#[typeshare]\npub struct Wrap2<T> { pub v: T }\n'},
     {'b': ['A2', 'A2', 'A3', 'Wrap2']}),
    ('three crates, a renamed local type', {'a/src/lib.rs': A_LIB, 'c/src/lib.rs': '#[typeshare]\npub struct C1 { pub x: u8 }\n#[typeshare]\n#[serde(rename = "CeeTwo")]\npub struct C2 { pub x: u8 }\n',
                                            'b/src/lib.rs': 'use a::A3;\nuse c::*;\n#[typeshare]\n#[serde(rename = "BeeOne")]\npub struct B1 { pub f: A3, pub g: C1 }\n#[typeshare]\npub struct B2 { pub b: B1, pub c: Vec<C1> }\n'},
     {'b': ['A3', 'BeeOne', 'C1', 'C1']}),
]
# the witness of the OPEN finding C09-multi-glob-renamed (class Spec.C09MultiSpec.c9m_known, Props C09_multi_glob_renamed_refuted): a
# glob import reaches a serde-renamed type the importing crate has no type of its own for - the import line lists A2Renamed, the
# reference keeps the Rust name A2 (reconcile.rs resolve_renamed filters the import set by type_name == id; a glob's name is `*`)
GLOB_RENAMED_WITNESS = 'glob-imported renamed type (witness of C09-multi-glob-renamed)'
MULTI_WS.append((GLOB_RENAMED_WITNESS, {'a/src/lib.rs': '#[typeshare]\n#[serde(rename = "A2Renamed")]\npub struct A2 { pub x: u8 }\n',
                                        'b/src/lib.rs': 'use a::*;\n#[typeshare]\npub struct B1 { pub f: A2 }\n'},
                 {'b': ['A2Renamed']}))
# former witness of C14-kotlin-import-prefix (fix 26 of /repo): under a Kotlin prefix the import named the UNPREFIXED class
MULTI_WS.append(('plain import under a Kotlin prefix', {'a/src/lib.rs': '#[typeshare]\npub struct A1 { pub x: u8 }\n',
                                                        'b/src/lib.rs': 'use a::A1;\n#[typeshare]\npub struct B1 { pub f: A1 }\n'},
                 {'b': ['A1']}))
# the witness of the OPEN finding C09-multi-emitted-generic (class Spec.C09MultiLangSpec.c9m_lknown, Props C09_multi_emitted_generic_refuted):
# the reference `f: A2` is rewritten to the emitted name X2 of a's type, which is also the name of a generic parameter of the owner; the
# Kotlin / Swift printers decide "generic parameter or prefixed name" on the rewritten name (format_simple_type) and print it without
# the prefix: my_crate.kt says `val f: X2`, a.kt declares and my_crate.kt imports KPX2.  Expected spellings: `$X2` = the generic
# parameter X2, verbatim in every language; `X2` = the type of crate a, prefix + X2
EMITTED_GENERIC_WITNESS = 'emitted name of an imported type is a generic parameter of the owner (witness of C09-multi-emitted-generic)'
MULTI_WS.append((EMITTED_GENERIC_WITNESS, {'a/src/lib.rs': '#[typeshare]\n#[serde(rename = "X2")]\npub struct A2 { pub x: u8 }\n',
                                           'my_crate/src/lib.rs': 'use a::A2;\n#[typeshare]\npub struct G<X2> { pub f: A2, pub g: X2 }\n'},
                 {'my_crate': ['$X2', 'X2']}))
# a renamed type of another crate referenced ONLY as a HashMap key or as a NON-LAST generic argument (seeded C09_h: the iterator over
# the names a type refers to dropped pending sibling arguments, so the import was pruned and the reference kept its Rust name)
MULTI_WS.append(('renamed type only as a map key / non-last generic argument',
                 {'a/src/lib.rs': A_LIB + '#[typeshare]\n#[serde(rename = "KeyRenamed")]\npub enum K1 { X, Y }\n#[typeshare]\npub struct Pair<T, U> { pub t: T, pub u: U }\n',
                  'b/src/lib.rs': 'use a::{A2, K1, Pair};\nuse std::collections::HashMap;\n#[typeshare]\npub struct B1 { pub m: HashMap<K1, u8>, pub p: Pair<A2, u8> }\n'
                                  '#[typeshare]\npub type L1 = Pair<A2, Pair<K1, String>>;\n'},
                 {'b': ['A2Renamed', 'A2Renamed', 'KeyRenamed', 'KeyRenamed', 'Pair', 'Pair', 'Pair']}))
_re = __import__('re')
TS_IMPORT = _re.compile(r'^import \{([^}]*)\} from "\./([^"]+)";', _re.M)
KT_IMPORT = _re.compile(r'^import p\.([^.\n]+)\.(\S+)$', _re.M)
SRC_RENAME = _re.compile(r'#\[serde\(rename = "(\w+)"\)\]\s*pub (struct|enum|type) (\w+)')
SRC_TYPE = _re.compile(r'#\[typeshare[^\]]*\]\s*(?:#\[[^\]]*\]\s*)*pub (?:struct|enum|type) (\w+)')
SRC_GLOB = _re.compile(r'^use (\w+)::\*;', _re.M)
# (language, extension, prefix, CLI arguments): TypeScript, and Kotlin under a prefix (the import line must carry it: fix 26 of /repo)
MULTI_LANGS = [('typescript', 'ts', '', []), ('kotlin', 'kt', 'KP', ['--java-package', 'p', '--kotlin-prefix', 'KP'])]


def ws_facts(files):
    """what the judgement of a failure needs to know about a hand-written workspace, read off its source text: per crate the
    serde renames (Rust name -> (generated name, kind)), the crates it glob-imports, the Rust names of its own types"""
    ren, globs, own = {}, {}, {}
    for rel, txt in files.items():
        c = rel.split('/')[0].replace('-', '_')
        ren.setdefault(c, {}).update({n: (r, k) for r, k, n in SRC_RENAME.findall(txt)})
        globs.setdefault(c, set()).update(SRC_GLOB.findall(txt))
        own.setdefault(c, set()).update(SRC_TYPE.findall(txt))
    return ren, globs, own


def ws_class_request(root, files, asts):
    """(c09_ws_class ..): the extracted Spec.C09MultiSpec.c9m_known_ws on the workspace (ocaml/drv_c09multi.ml); None if a file has no AST"""
    import pathlib
    entries = []
    for rel in sorted(files):
        a = asts[files[rel]]
        if 'ok' not in a:
            return None
        entries.append((list(pathlib.Path(root, rel).parts), a['ok'], a['tstrs']))
    return f'(c09_ws_class typescript {Lst(entries, lambda e: f"({Lst(e[0], S)} {e[1]} {e[2]})")})'


def ws_lclass_request(root, files, asts, lang, pfx):
    """(c09_ws_lclass LANG PREFIX ..): the extracted Spec.C09MultiLangSpec.c9m_lknown_ws / _file / _crate for the language and the
    prefix of the run (ocaml/drv_c09multi.ml); None if a file has no AST"""
    r = ws_class_request(root, files, asts)
    return r and r.replace('(c09_ws_class typescript ', f'(c09_ws_lclass {lang} {S(pfx)} ', 1)


def lclass_answer(x):
    a = {k[0]: k[1] for k in x}
    cls = lambda v: None if v == 'none' else v[1]
    return {'status': a['status'] if isinstance(a['status'], str) else a['status'][0], 'class': cls(a['class']), 'base': cls(a['base']),
            'ids_wf': a['ids_wf'] == 'true', 'files': [(unS(f[0]), cls(f[1]), cls(f[2])) for f in a['files']]}


def file_classes(lc, crate):
    """the extracted classes of the source files of one crate (c9m_lknown_file) for the language and prefix of the run"""
    return {fc for c, fc, _ in lc['files'] if c == crate and fc} if lc and lc['status'] == 'ok' else set()


KT_OWNER_GENERICS = _re.compile(r'^(?:data class|sealed class|typealias|value class|enum class) (\w+)<([^>]*)>', _re.M)
TS_OWNER_GENERICS = _re.compile(r'^export (?:interface|type) (\w+)<([^>]*)>', _re.M)


def owner_generics(lang, text):
    """declared name -> the generic parameters its declaration lists"""
    rx = TS_OWNER_GENERICS if lang == 'typescript' else KT_OWNER_GENERICS
    return {o: [g.split(':')[0].strip() for g in gs.split(',') if g.strip()] for o, gs in rx.findall(text or '')}


def spelled(lang, text):
    """the references of a generated file the expectation lists speak about: every name in a type position of a field, payload, alias
    or const, but single-letter generic parameters, the sealed parent and the <Enum><Variant>Inner helpers the file itself declares"""
    defs, refs, _ = observe_text(lang, text)
    return [(o, pos, n) for o, pos, n in refs if len(n) > 1 and pos != 'parent' and not (pos == 'payload' and n.endswith('Inner') and n in defs)]


def resolve_files(lang, ext, pfx, outs, expect):
    """closed-world name resolution over the files of one run: failures as dicts (kind import | ref | spell, file, name, text)"""
    import re
    defs = {m: set(observe_text(lang, t)[0]) for m, t in outs.items()}
    fails, imported_by = [], {}
    for m, t in outs.items():
        imported = {}
        if lang == 'typescript':
            pairs = [(x.strip(), src) for names, src in TS_IMPORT.findall(t) for x in names.split(',') if x.strip()]
            generics = set(g.strip() for gs in re.findall(r'export (?:interface|type) \w+<([^>]*)>', t) for g in gs.split(','))
        else:
            pairs = [(n, src) for src, n in KT_IMPORT.findall(t)]
            generics = set(g.strip() for gs in re.findall(r'^(?:data class|sealed class|typealias|value class|enum class) \w+<([^>]*)>', t, re.M) for g in gs.split(','))
        for n, src in pairs:
            imported[n] = src
            if n not in defs.get(src, set()):
                fails.append({'kind': 'import', 'file': m, 'name': n, 'from': src,
                              'text': f'{m}.{ext} imports {n} from {src}, whose file does not define it'})
        imported_by[m] = imported
        for owner, pos, n in observe_text(lang, t)[1]:
            if n not in defs[m] and n not in imported and n not in generics:
                fails.append({'kind': 'ref', 'file': m, 'name': n, 'text': f'{m}.{ext}: {owner} ({pos}) refers to {n}, which is neither defined in the file nor imported'})
    for m, want in expect.items():
        # generic parameters are single letters in the workspaces (not listed) - but `$G`: a longer generic parameter G, verbatim;
        # every other name is a generated type and carries the prefix of the run
        want = sorted(n[1:] if n.startswith('$') else pfx + n for n in want)
        refs = spelled(lang, outs.get(m, ''))
        got = sorted(n for _, _, n in refs)
        if got != want:
            fails.append({'kind': 'spell', 'file': m, 'got': got, 'want': want, 'refs': refs, 'generics': owner_generics(lang, outs.get(m, '')),
                          'text': f'{m}.{ext} spells its references {got}; the definitions they denote are emitted as {want}'})
    return fails, defs, imported_by


def classify_multi_failure(f, pfx, facts, defs, imported_by, lc):
    """the recorded class that explains ONE failure of a folder-output run, or None.  lc: the answer of c09_ws_lclass for the language
    and the prefix of the run (the extracted Spec.C09MultiLangSpec.c9m_lknown_file of every source file).
    C09-multi-glob-renamed (only when a source file of the failing file's crate is in that class): the unresolved / mis-spelled name
    is the Rust name of a type that a crate glob-imported by this file's crate serde-renames, the crate has no type of its own under
    that name, and the generated name IS imported from that crate - exactly the failure of the witness.
    C09-multi-emitted-generic (only when a source file of the crate is in that class for this language and prefix - never without a
    prefix): the file spells k references as a bare name g where prefix + g was due, g is a generic parameter of the declaration each
    of them stands in, and prefix + g is a type the file imports or declares - exactly the failure of the witness.
    C09-kotlin-alias: Kotlin declares a plain typealias under prefix + Rust name; an import of a serde-renamed alias names
    prefix + generated name."""
    import collections
    ren, globs, own = facts
    b = f['file']
    classes = file_classes(lc, b)

    def glob_renamed(n):
        n0 = n[len(pfx):] if pfx and n.startswith(pfx) else n
        if n0 in own.get(b, set()):
            return None
        for d in sorted(globs.get(b, set())):
            r = ren.get(d, {}).get(n0)
            if r and imported_by.get(b, {}).get(pfx + r[0]) == d:
                return pfx + r[0]
        return None

    def emitted_generic():
        if not pfx or f['kind'] != 'spell':
            return False
        got, want = collections.Counter(f['got']), collections.Counter(f['want'])
        bare, due = got - want, want - got          # spelled but not due / due but not spelled
        if not bare or {pfx + g: k for g, k in bare.items()} != dict(due):
            return False
        for g, k in bare.items():
            if pfx + g not in imported_by.get(b, {}) and pfx + g not in defs.get(b, set()):
                return False                        # prefix + g is no type this file can name
            cand = [r for r in f['refs'] if r[2] == g and g in f['generics'].get(r[0], [])]
            if len(cand) < k:
                return False                        # a bare g outside a declaration with the generic parameter g
        return True
    if f['kind'] == 'import':
        for n0, (r, kind) in ren.get(f['from'], {}).items():
            if kind == 'type' and f['name'] == pfx + r and pfx + n0 in defs.get(f['from'], set()):
                return 'C09-kotlin-alias'
        return None
    if 'C09-multi-emitted-generic' in classes and emitted_generic():
        return 'C09-multi-emitted-generic'
    if 'C09-multi-glob-renamed' not in classes:
        return None
    if f['kind'] == 'ref':
        return 'C09-multi-glob-renamed' if glob_renamed(f['name']) else None
    if f['kind'] == 'spell':
        fixed = sorted(glob_renamed(n) or n for n in f['got'])
        return 'C09-multi-glob-renamed' if fixed == f['want'] and fixed != f['got'] else None
    return None


def phase_multi(chk):
    """--output-folder, TypeScript and Kotlin under the prefix KP: in every generated file each referenced user type is defined in
    that file or imported into it, every imported name is defined in the file it is imported from (closed-world name resolution:
    C09's statement for a run that writes several files; Kotlin names carry the prefix everywhere, import lines included - fix 26 of
    /repo), and the references are spelled as the workspace's expectation says (prefix + generated name of the denoted type; a generic
    parameter verbatim).  Workspaces are hand-written and outside the recorded C14 classes (named or glob-covered references - to
    serde-renamed types of other crates too, since the /repo fix of C14-renamed-import -, unique generated names).  Every workspace
    is judged, for the language AND the prefix of the run, by the EXTRACTED class predicates Spec.C09MultiLangSpec.c9m_lknown_ws /
    c9m_lknown_file (driver command c09_ws_lclass; they contain the language-independent classes of Spec.C09MultiSpec.c9m_known_ws): a
    failure is a recorded finding only if a source file of the failing file's crate is IN the class and the failure is exactly the
    class's (classify_multi_failure); any other failure, and any failure of a workspace outside the class, is a violation.  The
    Kotlin observation of every generated file must also satisfy the extracted judgement good_C09_multi (theorem C09_multi_Kotlin;
    driver command c09_ws_good), which accepts a reference only at a position kind of a source mention and, outside the classes, only
    under the demanded spelling."""
    srcs = sorted({t for _, files, _ in MULTI_WS for t in files.values()})
    asts = dict(zip(srcs, vf.impl([{'cmd': 'ast', 'src': x} for x in srcs])))
    roots, reqs, lreqs = [], [], []
    for name, files, expect in MULTI_WS:
        d = vf.tmpdir('verif-c09-')
        for rel, txt in files.items():
            q = d / 'ws' / rel
            q.parent.mkdir(parents=True, exist_ok=True)
            q.write_text(txt)
        roots.append(d)
        reqs.append(ws_class_request(d / 'ws', files, asts))
        lreqs.append([ws_lclass_request(d / 'ws', files, asts, lang, pfx) for lang, _, pfx, _ in MULTI_LANGS])
    answers = iter(vf.model([r for r in reqs if r is not None] + [r for rs in lreqs for r in rs if r is not None]))
    classes = []
    for r in reqs:
        if r is None:
            classes.append(None)
            continue
        a = {k[0]: k[1] for k in next(answers)}
        classes.append({'status': a['status'] if isinstance(a['status'], str) else a['status'][0],
                        'class': None if a['class'] == 'none' else a['class'][1], 'ids_wf': a['ids_wf'] == 'true'})
    lclasses = [[lclass_answer(next(answers)) if r is not None else None for r in rs] for rs in lreqs]
    good_reqs = []            # (workspace, language, crate, payload, request of c09_ws_good)
    for (name, files, expect), d, gc, lcs, lrs in zip(MULTI_WS, roots, classes, lclasses, lreqs):
        ws_class = gc['class'] if gc and gc['status'] == 'ok' else None
        chk.count('multi_ws_class_' + str(ws_class))
        facts = ws_facts(files)
        if gc is None or gc['status'] != 'ok' or not gc['ids_wf']:
            chk.violation(f'multi-{name}', {'phase': 'multi', 'workspace': name, 'files': files, 'class_answer': gc},
                          'the model cannot parse a hand-written workspace (or it is outside c9m_ids_wf): no class can be evaluated', no_input=True)
        for (lang, ext, pfx, extra), lc, lreq in zip(MULTI_LANGS, lcs, lrs):
            out = d / ('out_' + ext)
            out.mkdir()
            p = subprocess.run(['timeout', '30', str(vf.TYPESHARE), '--lang', lang, '--output-folder', str(out)] + extra + [str(d / 'ws')], capture_output=True, text=True)
            chk.evaluations += 1
            chk.count('multi_file_workspaces')
            lws_class = lc['class'] if lc and lc['status'] == 'ok' else None
            chk.count(f'multi_ws_lclass_{lang}_{lws_class}')
            payload = {'phase': 'multi', 'workspace': name, 'files': files, 'lang': lang, 'prefix': pfx, 'extracted_class': lws_class,
                       'language_independent_class': ws_class, 'file_classes': lc and lc['files']}
            if gc is not None and (lc is None or lc['status'] != 'ok' or lc['base'] != ws_class):
                chk.violation(f'multi-{name}-{lang}', dict(payload, class_answer=lc), 'c09_ws_lclass gives no answer on a hand-written workspace, or a '
                              'language-independent class other than c09_ws_class does', no_input=True)
            if p.returncode != 0:
                chk.violation(f'multi-{name}-{lang}', dict(payload, rc=p.returncode, stderr=p.stderr[-400:]), 'the real binary fails on a plain multi-crate workspace')
                continue
            outs = {f.stem: f.read_text() for f in sorted(out.glob('*.' + ext))}
            payload['outputs'] = outs
            if lang == 'kotlin' and lreq is not None:
                for m, t in outs.items():
                    dd, rf, left = observe_text(lang, t)
                    good_reqs.append((name, lang, m, dict(payload, crate=m, observation=(dd, rf), extract_leftover=left),
                                      lreq.replace('(c09_ws_lclass ', '(c09_ws_good ', 1)[:-1] + f' {S(m)} {obs_sx(dd, rf)})'))
            fails, defs, imported_by = resolve_files(lang, ext, pfx, outs, expect)
            for f in fails:
                f['class'] = classify_multi_failure(f, pfx, facts, defs, imported_by, lc)
                f.pop('refs', None)
            # a witness that shows no failure of its class (the finding did not reproduce): noted, as for the single-file witnesses
            for wname, wcls, wlangs in ((GLOB_RENAMED_WITNESS, 'C09-multi-glob-renamed', ('typescript', 'kotlin')),
                                        (EMITTED_GENERIC_WITNESS, 'C09-multi-emitted-generic', ('kotlin',))):
                if name == wname and lang in wlangs and wcls not in {f['class'] for f in fails}:
                    chk.notes.append(f'the witness of {wcls} shows no failure of that class in {lang}: the finding did not reproduce')
                    chk.known_nohit.add(wcls)
            unexplained = [f['text'] for f in fails if f['class'] is None]
            if unexplained:
                chk.violation(f'multi-{name}-{lang}', dict(payload, unresolved=[f['text'] for f in fails]),
                              f'{lang}{" with prefix " + pfx if pfx else ""}, folder output, workspace "{name}"'
                              + (f' (in class {lws_class}, but this is not that failure)' if lws_class else '') + ': ' + '; '.join(unexplained[:3]))
                continue
            for k in sorted({f['class'] for f in fails}):
                if not chk.known(k, dict(payload, failures=[f['text'] for f in fails if f['class'] == k])):
                    chk.violation(f'multi-{name}-{lang}', dict(payload, unresolved=[f['text'] for f in fails]), f'{k} is not a recorded open finding: ' + '; '.join(f['text'] for f in fails if f['class'] == k)[:400])
            if not fails:
                chk.nontrivial.add(('multi', name, lang))
    # the extracted judgement of the Kotlin theorem on the observation of every file the real binary wrote
    for (name, lang, m, payload, _), a in zip(good_reqs, vf.model([g[4] for g in good_reqs])):
        a = {k[0]: k[1] for k in a}
        chk.evaluations += 1
        chk.count('multi_good_judged_files')
        if a['status'] != 'ok':
            chk.violation(f'multi-good-{name}-{m}', dict(payload, answer=str(a)), 'c09_ws_good gives no answer on a hand-written workspace', no_input=True)
        elif a['good'] != 'true':
            bad = [unS(x) for x in a['bad_defs']] + [ref_of(x) for x in a['bad_refs']]
            if payload['extract_leftover']:
                chk.unreadable(lang, payload, payload['extract_leftover'])
                continue
            chk.violation(f'multi-good-{name}-{m}', dict(payload, rejected=bad),
                          f'{lang} with prefix {payload["prefix"]}, folder output, workspace "{name}": good_C09_multi rejects the file generated for crate {m}: '
                          f'definitions / references {bad[:4]} are not what Spec.C09MultiLangSpec demands (theorem C09_multi_Kotlin)')
    # the extracted predicates must put the two witnesses into their classes (and the emitted-generic one into none without a prefix)
    for k, (name, _, _) in enumerate(MULTI_WS):
        by_lang = {l[0]: (lc and lc['class']) for l, lc in zip(MULTI_LANGS, lclasses[k])}
        if name == GLOB_RENAMED_WITNESS and not (classes[k] and classes[k]['class'] == 'C09-multi-glob-renamed' and set(by_lang.values()) == {'C09-multi-glob-renamed'}):
            chk.violation('multi-witness-class', {'phase': 'multi', 'workspace': name, 'class_answer': classes[k], 'language_level': by_lang},
                          'the extracted c9m_known_ws / c9m_lknown_ws do not put the witness of C09-multi-glob-renamed into its class', no_input=True)
        if name == EMITTED_GENERIC_WITNESS and by_lang != {'typescript': None, 'kotlin': 'C09-multi-emitted-generic'}:
            chk.violation('multi-witness-lclass', {'phase': 'multi', 'workspace': name, 'class_answer': classes[k], 'language_level': by_lang},
                          'the extracted c9m_lknown_ws does not put the witness of C09-multi-emitted-generic into its class under the Kotlin prefix KP '
                          'and into no class without a prefix (Props C09_multi_emitted_generic_refuted)', no_input=True)


def run(chk):
    chk.rule = ('programs of 2-8 mutually referencing items (struct, generic struct, unit enum, tagged enum with unit/tuple/struct variants, generic '
                'tagged enum, alias, generic alias, JvmInline alias, const typed by an alias); references direct, through Vec/Option/HashMap/array/slice/Box, '
                'as generic arguments (nested to depth 2), forward, backward and recursive; a third of the programs without serde(rename), a third with '
                'every subset member renamed at random, small programs with ALL subsets enumerated; prefixes "", "OP", "X_" (Kotlin, Swift); in 3/7 of '
                'the programs most item names of every kind begin with a prefix setting or a proper prefix of one (OPEvent, OEvent, X_Node, XNode), half of '
                'those generated under that very prefix; Go acronym lists [], [id, api], [ID, url, HTTP], [xy, yZw, wQr], [Id, Api, http], [id], [no, it, co, id] (lower, upper and mixed case spellings; occurrences followed by a lower-case letter; '
                'a quarter of the generic structs have the parameter TId, which `id` rewrites at its uses); 6 languages. non-trivial = distinct (program, language, configuration) inside dom_C09 with '
                'known_C09 = None and at least one reference to a generated type')
    chk.assumptions = ['syn is not modelled: the model receives the AST produced by harness/libdrive/src/ast.rs from the same text',
                       'what a name in a type position of the target language MEANS is fixed by Spec/C09Spec.v (c09_observe, builtin tables) and '
                       'lib/extract.py; no target-language compiler is installed',
                       'single-file mode (p_imports = []) for the generated programs; folder output: twelve hand-written workspaces through the real binary (TypeScript; Kotlin under the prefix KP), every reference resolved in its file and spelled as expected, failures judged by the extracted language-level classes Spec.C09MultiLangSpec.c9m_lknown_ws / c9m_lknown_file for the language and prefix of the run (which contain those of Spec.C09MultiSpec.c9m_known_ws), every Kotlin file also by the extracted good_C09_multi; import completeness in general is C14\'s subject',
                       'C09_Go covers every alphanumeric uppercase_acronyms list on ASCII programs (all generated programs and lists are); '
                       'non-alphanumeric acronyms and non-ASCII names are outside the theorem and are not generated']
    chk.prepare(need_cli=True)
    if not chk.harness_ok:
        return
    rng = chk.rng
    corr = []
    # 0. the witnesses of the two findings repaired in /repo must pass
    fixed_witnesses(chk, corr)
    if chk.cli_ok:
        phase_multi(chk)
        # folder-output mode against the same crates generated alone (lib/multi.py): how a crate spells its references must not depend
        # on the other crates of the run (seeded C09_f: a memo of resolved renames keyed by the bare Rust name, shared by all crates)
        import multi
        g0 = c09_gen.Gen(rng)
        nw = 12 if chk.tier == 'quick' else 150
        wss = [[progs.source(g0.program(rename_mode=rng.choice([None, 'all', None]))) for _ in range(rng.choice([2, 3, 3]))] for _ in range(nw)]
        # the directed shape: the alphabetically first crate renames a type and refers to it, a later crate has its own type of that name
        wss.append(['#[typeshare]\n#[serde(rename = "AccountSession")]\npub struct Session { pub x: u8 }\n#[typeshare]\npub struct UsesA { pub s: Session, pub v: Vec<Session> }\n',
                    '#[typeshare]\n#[serde(rename = "PaymentSession")]\npub struct Session { pub y: u8 }\n#[typeshare]\npub struct UsesB { pub s: Session }\n#[typeshare]\n#[serde(tag = "t", content = "c")]\npub enum Ev { Settled { s: Session }, Other(Session) }\n',
                    '#[typeshare]\npub struct Session { pub z: u8 }\n#[typeshare]\npub type Alias = Option<Session>;\n'])
        multi.independent_crates(chk, wss, multi.facet_types, 'the spelling of references (C09)', swift_prefix='OP')
    # 1. the witnesses of the recorded classes, against the real code
    wl = sorted(WITNESSES.items())
    res = run_cases([(l, c, s) for _, (l, c, s) in wl])
    for (cls, _), r in zip(wl, res):
        hit = verdict(chk, r, f'witness-{cls}', corr)
        chk.count('witness_runs')
        if cls not in hit:
            chk.notes.append(f'witness of {cls} did not reproduce the finding (classes of the program: {r.get("classes")})')
            chk.known_nohit.add(cls)
    # 2. generated programs
    g = c09_gen.Gen(rng)
    nprog = 260 if chk.tier == 'quick' else 6000
    progs_ = []
    for k in range(nprog):
        mode = [None, 'none', None, 'all', 'none', None][k % 6]
        progs_.append(g.program(rename_mode=mode, with_const=(k % 5 == 0), prefix_names=(k % 7 in (1, 4, 6))))
    # all subsets of small programs
    nsmall = 6 if chk.tier == 'quick' else 60
    for k in range(nsmall):
        n = rng.choice([2, 3, 3, 4])
        base_seed = rng.getrandbits(32)
        import random as _random
        for mask in range(1 << n):
            gg = c09_gen.Gen(_random.Random(base_seed))
            progs_.append(gg.program(rename_mode=frozenset(i for i in range(n) if mask >> i & 1), n=n))
    cases = []
    for k, p in enumerate(progs_):
        src = progs.source(p)
        for j, lang in enumerate(LANGS):
            cfg = cfg_for(lang, k + j)
            if lang in ('kotlin', 'swift') and getattr(p, 'c09_prefix', None):
                chk.count('prefix_named_programs_' + lang)
                if (k + j) % 2 == 0:        # half of them under the very prefix the names begin with
                    cfg = dict(cfg, prefix=p.c09_prefix)
                if cfg['prefix'] and any(it.ident.startswith(cfg['prefix']) for it in p.items):
                    chk.count('name_begins_with_configured_prefix_' + lang)
            cases.append((lang, cfg, src))
        for it in p.items:
            chk.count('item_' + it.c09_kind + ('_renamed' if it.rename else ''))
    res = run_cases(cases)
    for k, r in enumerate(res):
        hit = verdict(chk, r, f'{k}', corr)
        for c in r.get('classes') or []:
            chk.count('class_' + c)
        if k % 397 == 0 and r.get('model_obs'):
            chk.sample({'lang': r['lang'], 'cfg': r['cfg'], 'known': r['known'], 'defs': r['impl_obs'][0] if r['impl_obs'] else None,
                        'n_refs': len(r['impl_obs'][1]) if r['impl_obs'] else None})
    # 3. the same observation through the real binary on a subset
    if chk.cli_ok:
        nb = 120 if chk.tier == 'quick' else 1500
        sub = [(k, r) for k, r in enumerate(res) if r['impl'] == 'ok' and r.get('dom')][::max(1, len(res) // nb)][:nb]
        with concurrent.futures.ThreadPoolExecutor(max_workers=vf.NPROC) as ex:
            outs = list(ex.map(run_binary, [(r['lang'], r['cfg'], r['source']) for _, r in sub]))
        for (k, r), (rc, text) in zip(sub, outs):
            chk.evaluations += 1
            chk.count('cli_runs')
            if rc != 0 or text is None:
                corr.append({'lang': r['lang'], 'cfg': r['cfg'], 'source': r['source'], 'what': f'the binary exits {rc} where the library generates'})
                continue
            d, rf, _ = observe_text(r['lang'], text)
            if (d, rf) != r['impl_obs']:
                corr.append({'lang': r['lang'], 'cfg': r['cfg'], 'source': r['source'], 'what': 'the binary and the library give different C09 observations',
                             'binary_obs': (d, rf), 'library_obs': r['impl_obs']})
    chk.count('correspondence_mismatches', len(corr))
    if corr and not [v for v in chk.violations if not v[2]]:
        chk.violation('correspondence', {'correspondence': 'Spec.C09Spec.c09_observe (Model.*_file_decls) vs lib/extract.py (real output)', 'cases': corr[:6]},
                      'model and implementation give different C09 observations, yet no failing reference was found outside the recorded classes',
                      no_input=True)


def replay(chk, path):
    chk.prepare(need_cli=False)
    d = json.load(open(path))
    if 'source' not in d:
        print(json.dumps(d, indent=1)[:3000])
        return 0
    r = run_cases([(d['lang'], d['cfg'], d['source'])])[0]
    print('implementation:', r['impl'])
    print(r.get('impl_text', r.get('impl_detail')))
    print('impl  observation:', r.get('impl_obs'))
    print('model observation:', r.get('model_obs'))
    print('dom:', r.get('dom'), 'known:', r.get('known'), 'classes:', r.get('classes'))
    print('impl  judgement:', r.get('impl_judge'))
    print('model judgement:', r.get('model_judge'))
    return 0
