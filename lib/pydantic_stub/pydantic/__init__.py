"""Minimal stand-in for pydantic (which is not installed here): just enough surface for the modules
typeshare's Python back end generates to be IMPORTED (class bodies, defaults and module-level
assignments are evaluated; annotations are not, the generated files start with
`from __future__ import annotations`).  Used only by checks/c10.py."""


class _FieldInfo:
    def __init__(self, **kw):
        allowed = {'alias', 'default'}
        extra = set(kw) - allowed
        if extra:
            raise TypeError(f'Field() got unexpected keyword arguments {sorted(extra)}')
        self.kw = kw


def Field(*args, **kw):
    if args:
        raise TypeError('Field() takes keyword arguments only in generated code')
    return _FieldInfo(**kw)


def ConfigDict(**kw):
    return dict(kw)


class BaseModel:
    model_config = {}

    def __init__(self, **data):
        for k, v in data.items():
            setattr(self, k, v)


class BeforeValidator:
    def __init__(self, func):
        if not callable(func):
            raise TypeError('BeforeValidator needs a callable')
        self.func = func


class PlainSerializer:
    def __init__(self, func, **kw):
        if not callable(func):
            raise TypeError('PlainSerializer needs a callable')
        self.func = func
