"""stub of pydantic.networks (see __init__.py)"""


class AnyUrl(str):
    pass
