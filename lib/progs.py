"""Seeded generator of Rust source programs in the grammar typeshare supports, with ground truth.

A program is a list of Item objects (plain Python objects, fields documented below) from which
`source(prog)` prints Rust text (attribute spelling, order and splitting randomised by the program's
own seed so that printing is reproducible).  The ground truth a check needs (which items are
annotated, which members are skipped, which rename / rename_all / default / tag / content was
planted, the type-expression tree of every member) is read off the objects - it never comes from
typeshare or from the Gallina model.

Profiles switch features on and off so that each property can stay inside its own domain."""
import random

RUST_KEYWORDS = {'as', 'break', 'const', 'continue', 'crate', 'else', 'enum', 'extern', 'false', 'fn', 'for', 'if', 'impl', 'in', 'let', 'loop',
                 'match', 'mod', 'move', 'mut', 'pub', 'ref', 'return', 'self', 'Self', 'static', 'struct', 'super', 'trait', 'true', 'type', 'unsafe',
                 'use', 'where', 'while', 'async', 'await', 'dyn', 'abstract', 'become', 'box', 'do', 'final', 'macro', 'override', 'priv', 'typeof',
                 'unsized', 'virtual', 'yield', 'try', 'gen'}
# may be written r#kw ; `crate self super Self` cannot be raw identifiers
RAWABLE = ['type', 'fn', 'let', 'in', 'match', 'ref', 'use', 'mod', 'enum', 'struct', 'static', 'const', 'final', 'override', 'yield', 'as', 'box', 'do', 'try']
FIELD_IDENTS = ['id', 'name', 'user_id', 'created_at', 'value', 'items', 'count', 'kind', 'data', 'flag', 'x', 'y2', 'address_line1', 'is_ok', 'a_b_c',
                'class', 'default', 'func', 'var', 'is', 'from', 'import', 'object', 'val', 'package', 'def', 'none', 'interface', 'internal', 'inout',
                'switch', 'case', 'extension', 'protocol', 'go', 'chan', 'range', 'lambda', 'pass', 'with', 'global', 'del', 'public', 'private', 'init',
                # not keywords themselves, but keywords once a back end has re-cased them (convert_case's Snake drops the outer underscores)
                'from_', 'in_', '_from', 'is_', 'class_', '_import', 'operator', 'return_', 'try_', 'true_', 'type_']
TYPE_IDENTS = ['Foo', 'Bar', 'Baz', 'Item', 'UserId', 'Config', 'Point', 'Wrapper', 'Node', 'Color', 'Shape', 'Event', 'Payload', 'Options', 'Account',
               'Address', 'Credential', 'Vault', 'Session', 'Token']
VARIANT_IDENTS = ['A', 'B', 'Red', 'GreenLight', 'Unit', 'Ready', 'Failed', 'Ok2', 'V1', 'Http2', 'AddressLine1', 'Pending', 'Done', 'Empty', 'Full', 'Leaf', 'Branch']
RULES = ['lowercase', 'UPPERCASE', 'PascalCase', 'camelCase', 'snake_case', 'SCREAMING_SNAKE_CASE', 'kebab-case', 'SCREAMING-KEBAB-CASE']
PRIMS = ['bool', 'char', 'String', 'i8', 'i16', 'i32', 'u8', 'u16', 'u32', 'I54', 'U53', 'f32', 'f64']
WRAPPERS = ['Box', 'Arc', 'Rc', 'Cell', 'RefCell', 'Mutex', 'RwLock']
KEY_ALPHA = 'abcdefghijklmnopqrstuvwxyzABCDEFGHIJKLMNOPQRSTUVWXYZ'
DOCS = ['A doc line', 'second line here', 'Mentions `code` and "quotes"', "it's fine", 'trailing', 'x']


class Profile:
    """Feature switches / probabilities. Defaults: the plain supported grammar."""

    def __init__(self, **kw):
        self.n_items = (1, 5)
        self.p_unannotated = 0.15      # decoy items without #[typeshare]
        self.p_nested = 0.2            # item inside mod / fn body
        self.p_rename = 0.25           # serde(rename) on a field / variant
        self.p_rename_type = 0.0       # serde(rename) on a type
        self.p_rename_all = 0.4
        self.p_unknown_rule = 0.0
        self.p_raw = 0.1               # r#keyword field identifiers
        self.p_skip = 0.1
        self.p_default = 0.15
        self.p_option = 0.25
        self.p_doc = 0.3
        self.p_generic = 0.2
        self.p_ref_other = 0.4         # reference another generated type
        self.p_wrapper = 0.15          # Box/Arc/.. and & around a type
        self.p_qualify = 0.1           # std::vec::Vec<..>
        self.type_depth = 3
        self.dash_in_rename = 0.3      # renamed keys containing '-'
        self.p_digit_variant = 0.0     # unit-enum variant named `_` + digit + .. (`_1Red`; Swift puts `_` in front of the camelCased `1Red`: fix 31 of /repo)
        self.kinds = ['struct', 'struct', 'struct', 'unit_enum', 'alg_enum', 'alg_enum', 'alias', 'newtype', 'unit_struct']
        self.allow_const = False
        self.allow_unit_type = True
        self.allow_array_slice = True
        self.allow_hashmap = True
        self.tag_content = [('type', 'content'), ('t', 'c'), ('kind', 'data'), ('tag', 'value')]
        for k, v in kw.items():
            if not hasattr(self, k):
                raise AttributeError(k)
            setattr(self, k, v)


# ---------------------------------------------------------------- type expressions
def t_prim(n):
    return ('prim', n)


def show_type(t):
    k = t[0]
    if k == 'prim':
        return t[1]
    if k == 'unit':
        return '()'
    if k == 'param':
        return t[1]
    if k == 'user':
        return t[1] + (f'<{", ".join(show_type(a) for a in t[2])}>' if t[2] else '')
    if k == 'vec':
        return f'{t[2] if len(t) > 2 else ""}Vec<{show_type(t[1])}>'
    if k == 'option':
        return f'Option<{show_type(t[1])}>'
    if k == 'hashmap':
        return f'{t[3] if len(t) > 3 else ""}HashMap<{show_type(t[1])}, {show_type(t[2])}>'
    if k == 'array':
        return f'[{show_type(t[1])}; {t[2]}]'
    if k == 'slice':
        return f'&[{show_type(t[1])}]'
    if k == 'ref':
        return f"&{t[2] if len(t) > 2 else ''}{show_type(t[1])}"
    if k == 'wrap':
        return f'{t[1]}<{show_type(t[2])}>'
    if k == 'raw':
        return t[1]
    raise ValueError(t)


def strip_transparent(t):
    """the type with references and serde-transparent wrappers removed (what serde sees on the wire)"""
    k = t[0]
    if k in ('ref', 'wrap'):
        return strip_transparent(t[1] if k == 'ref' else t[2])
    if k in ('vec', 'option', 'slice'):
        return (k, strip_transparent(t[1])) + tuple(t[2:]) if k != 'vec' else ('vec', strip_transparent(t[1]))
    if k == 'array':
        return ('array', strip_transparent(t[1]), t[2])
    if k == 'hashmap':
        return ('hashmap', strip_transparent(t[1]), strip_transparent(t[2]))
    if k == 'user':
        return ('user', t[1], [strip_transparent(a) for a in t[2]])
    return t


def is_option(t):
    return strip_transparent_top(t)[0] == 'option'


def strip_transparent_top(t):
    while t[0] in ('ref', 'wrap'):
        t = t[1] if t[0] == 'ref' else t[2]
    return t


class Field:
    def __init__(self):
        self.ident = 'x'         # as written in source (may start with r#)
        self.rename = None
        self.ty = t_prim('u8')
        self.default = False     # bare serde(default)
        self.default_path = False  # serde(default = "path") - does NOT count as optional
        self.skip = None         # None | 'serde' | 'typeshare'
        self.docs = []
        self.flatten = False
        self.serialized_as = None
        self.extra_attrs = []    # raw attribute strings

    @property
    def name(self):
        return self.ident[2:] if self.ident.startswith('r#') else self.ident


class Variant:
    def __init__(self):
        self.ident = 'A'
        self.rename = None
        self.rename_all = None   # applies to the fields of a struct variant
        self.kind = 'unit'       # unit | tuple | struct
        self.ty = None
        self.fields = []
        self.skip = None
        self.docs = []
        self.extra_attrs = []


class Item:
    def __init__(self):
        self.kind = 'struct'     # struct | unit_struct | newtype | unit_enum | alg_enum | alias | const
        self.ident = 'Foo'
        self.annotated = True
        self.rename = None
        self.rename_all = None
        self.generics = []
        self.fields = []
        self.variants = []
        self.ty = None           # newtype / alias / const type
        self.value = None        # const initialiser text
        self.tag = None
        self.content = None
        self.docs = []
        self.nest = []           # e.g. ['mod m', 'fn f'] : wrappers from outside in
        self.extra_attrs = []    # raw attribute strings printed on the item
        self.typeshare_args = None  # text inside #[typeshare(...)] or None


class Program:
    def __init__(self, seed):
        self.seed = seed
        self.items = []
        self.prelude = ''


# ---------------------------------------------------------------- generation
class ProgGen:
    def __init__(self, rng, profile=None):
        self.rng = rng
        self.p = profile or Profile()

    def key(self):
        r = self.rng
        n = r.randint(1, 8)
        s = r.choice(KEY_ALPHA + '_') + ''.join(r.choice(KEY_ALPHA + '0123456789_') for _ in range(n))
        if r.random() < self.p.dash_in_rename:
            i = r.randint(1, len(s) - 1)
            s = s[:i] + '-' + s[i:]
        return s

    def docs(self):
        r = self.rng
        if r.random() > self.p.p_doc:
            return []
        return [r.choice(DOCS) for _ in range(r.choice([1, 1, 2, 3]))]

    def ty(self, depth, others, generics, top=True):
        r, p = self.rng, self.p
        if depth <= 0 or r.random() < 0.3:
            c = r.random()
            if others and c < p.p_ref_other:
                o = r.choice(others)
                args = [self.ty(depth - 1, [x for x in others if not x.generics], generics, False) for _ in o.generics]
                return ('user', o.ident, args)
            if generics and c < p.p_ref_other + 0.15:
                return ('param', r.choice(generics))
            if p.allow_unit_type and c > 0.97:
                return ('unit',)
            if c > 0.93:
                return ('ref', t_prim('str'), r.choice(['', "'static "]))
            return t_prim(r.choice(PRIMS))
        c = r.random()
        sub = lambda: self.ty(depth - 1, others, generics, False)
        if c < 0.25:
            return ('vec', sub(), 'std::vec::' if r.random() < p.p_qualify else '')
        if c < 0.45:
            return ('option', sub())
        if c < 0.6 and p.allow_hashmap:
            return ('hashmap', t_prim(r.choice(['String', 'String', 'u32', 'i32'])), sub(), 'std::collections::' if r.random() < p.p_qualify else '')
        if c < 0.7 and p.allow_array_slice:
            return ('array', sub(), r.choice([1, 2, 3, 4]))
        if c < 0.78 and p.allow_array_slice:
            return ('slice', sub())
        if c < 0.78 + p.p_wrapper:
            return ('wrap', r.choice(WRAPPERS), sub()) if r.random() < 0.7 else ('ref', sub(), '')
        return sub()

    def field(self, ident, others, generics):
        r, p = self.rng, self.p
        f = Field()
        f.ident = ident
        if r.random() < p.p_rename:
            f.rename = self.key()
        t = self.ty(r.randint(0, p.type_depth), others, generics)
        if r.random() < p.p_option and strip_transparent_top(t)[0] != 'option':
            t = ('option', t)
            if r.random() < 0.15:
                t = ('option', t)
            if r.random() < p.p_wrapper:
                t = ('wrap', r.choice(WRAPPERS), t)
        f.ty = t
        f.default = r.random() < p.p_default
        if not f.default and r.random() < 0.03:
            f.default_path = True
        if r.random() < p.p_skip:
            f.skip = r.choice(['serde', 'typeshare'])
        f.docs = self.docs()
        return f

    def fields(self, others, generics, lo=0, hi=5):
        r, p = self.rng, self.p
        n = r.randint(lo, hi)
        idents = r.sample(FIELD_IDENTS, n)
        out = []
        for i in idents:
            if r.random() < p.p_raw:
                i = 'r#' + r.choice(RAWABLE)
                if any(f.ident == i for f in out):
                    continue
            if i in RUST_KEYWORDS:
                continue
            out.append(self.field(i, others, generics))
        return out

    def rule(self):
        r, p = self.rng, self.p
        if r.random() < p.p_unknown_rule:
            return r.choice(['Camelcase', 'snake-case', 'lower case'])
        return r.choice(RULES) if r.random() < p.p_rename_all else None

    def item(self, ident, others):
        r, p = self.rng, self.p
        it = Item()
        it.ident = ident
        it.kind = r.choice(p.kinds + (['const'] if p.allow_const else []))
        it.annotated = r.random() >= p.p_unannotated
        it.docs = self.docs()
        if r.random() < p.p_rename_type:
            it.rename = ident + 'Renamed'
        if it.kind in ('struct', 'alg_enum', 'alias', 'newtype') and r.random() < p.p_generic:
            it.generics = r.sample(['T', 'U'], r.choice([1, 1, 2]))
        if r.random() < p.p_nested:
            it.nest = r.choice([['mod inner'], ['mod a', 'mod b'], ['fn body'], ['mod m', 'fn g'], ['impl Holder']])
        usable = [o for o in others if o.annotated and o.kind != 'const']
        if it.kind == 'struct':
            it.rename_all = self.rule()
            it.fields = self.fields(usable, it.generics, 1 if it.generics else 0, 5)
            for g in it.generics:   # every generic parameter must be used
                f = self.field(f'g_{g.lower()}', usable, it.generics)
                f.ty = r.choice([('param', g), ('vec', ('param', g), ''), ('option', ('param', g))])
                f.skip = None
                it.fields.append(f)
        elif it.kind == 'newtype':
            it.ty = self.ty(r.randint(0, 2), usable, it.generics)
            if it.generics:
                it.ty = ('vec', ('param', it.generics[0]), '') if len(it.generics) == 1 else ('hashmap', t_prim('String'), ('param', it.generics[0]), '')
                if len(it.generics) == 2:
                    it.generics = it.generics[:1]
        elif it.kind == 'alias':
            it.ty = self.ty(r.randint(0, 2), usable, it.generics)
            if it.generics:
                it.generics = it.generics[:1]
                it.ty = ('vec', ('param', it.generics[0]), '')
        elif it.kind == 'unit_enum':
            it.rename_all = self.rule()
            for v in r.sample(VARIANT_IDENTS, r.randint(1, 5)):
                va = Variant()
                va.ident = v
                if p.p_digit_variant and r.random() < p.p_digit_variant:    # no draw when the switch is off: the other corpora stay as they were
                    va.ident = '_' + r.choice('123456789') + v
                if r.random() < p.p_rename:
                    va.rename = self.key()
                if r.random() < p.p_skip:
                    va.skip = r.choice(['serde', 'typeshare'])
                va.docs = self.docs()
                it.variants.append(va)
        elif it.kind == 'alg_enum':
            it.rename_all = self.rule()
            it.tag, it.content = r.choice(p.tag_content)
            for v in r.sample(VARIANT_IDENTS, r.randint(1, 5)):
                va = Variant()
                va.ident = v
                va.kind = r.choice(['unit', 'tuple', 'tuple', 'struct'])
                if r.random() < p.p_rename:
                    va.rename = self.key()
                if r.random() < p.p_skip:
                    va.skip = r.choice(['serde', 'typeshare'])
                va.docs = self.docs()
                if va.kind == 'tuple':
                    va.ty = self.ty(r.randint(0, 2), usable + ([it] if r.random() < 0.1 and not it.generics else []), it.generics)
                    if it is va.ty or (va.ty[0] == 'user' and va.ty[1] == it.ident):
                        va.ty = ('wrap', 'Box', va.ty)
                elif va.kind == 'struct':
                    va.rename_all = self.rule()
                    va.fields = self.fields(usable, it.generics, 1, 3)
                    if not va.fields:
                        f = self.field('value', usable, it.generics)
                        va.fields = [f]
                it.variants.append(va)
            if not any(v.kind != 'unit' and v.skip is None for v in it.variants):
                va = Variant()
                va.ident = 'Last'
                va.kind = 'tuple'
                va.ty = t_prim('String')
                it.variants.append(va)
            used = show_type(('user', 'X', [v.ty for v in it.variants if v.ty] + [f.ty for v in it.variants for f in v.fields]))
            it.generics = [g for g in it.generics if g in used.replace(',', ' ').replace('<', ' ').replace('>', ' ').replace('[', ' ').replace(']', ' ').replace(';', ' ').replace('&', ' ').split()]
        elif it.kind == 'const':
            it.ty = t_prim(r.choice(['u32', 'i32', 'u8']))
            it.value = str(r.choice([0, 1, 42, 255]))
        return it

    def program(self, seed=None):
        r = self.rng
        prog = Program(seed if seed is not None else r.getrandbits(32))
        n = r.randint(*self.p.n_items)
        for ident in r.sample(TYPE_IDENTS, n):
            prog.items.append(self.item(ident, prog.items))
        return prog


# ---------------------------------------------------------------- printing
def rs_lit(s):
    return '"' + s.replace('\\', '\\\\').replace('"', '\\"').replace('\n', '\\n') + '"'


def rs_lit_full(s):
    """a Rust string literal for ANY text (control characters and non-ASCII as escapes)"""
    out = []
    for ch in s:
        o = ord(ch)
        if ch == '\\':
            out.append('\\\\')
        elif ch == '"':
            out.append('\\"')
        elif ch == '\n':
            out.append('\\n')
        elif ch == '\r':
            out.append('\\r')
        elif ch == '\t':
            out.append('\\t')
        elif o < 32 or o == 127 or o > 126:
            out.append('\\u{%x}' % o)
        else:
            out.append(ch)
    return '"' + ''.join(out) + '"'


def doc_src(d):
    """source text of one doc attribute. A plain string d is printed as `/// d` (the historical form);
    a pair (form, text) prints text verbatim as `///text` (form 'line'), `/**text*/` (form 'block', may span
    lines; the caller keeps `*/` and `/*` out of it and starts it with a blank) or `#[doc = "text"]` (form 'attr')."""
    if isinstance(d, str):
        return f'/// {d}'
    form, text = d
    if form == 'line':
        return f'///{text}'
    if form == 'block':
        return f'/**{text}*/'
    return f'#[doc = {rs_lit_full(text)}]'


def serde_attrs(r, parts):
    """print serde(...) arguments either merged in one attribute or split over several, any order"""
    if not parts:
        return []
    parts = parts[:]
    r.shuffle(parts)
    if len(parts) > 1 and r.random() < 0.5:
        return [f'#[serde({p})]' for p in parts]
    return [f'#[serde({", ".join(parts)})]']


def field_attrs(r, f):
    parts = []
    if f.rename is not None:
        parts.append(f'rename = {rs_lit(f.rename)}')
    if f.default:
        parts.append('default')
    if f.default_path:
        parts.append('default = "Default::default"')
    if f.skip == 'serde':
        parts.append('skip')
    if f.flatten:
        parts.append('flatten')
    out = serde_attrs(r, parts)
    if f.skip == 'typeshare':
        out.append('#[typeshare(skip)]')
    if f.serialized_as is not None:
        out.append(f'#[typeshare(serialized_as = {rs_lit(f.serialized_as)})]')
    out += f.extra_attrs
    docs = [doc_src(d) for d in f.docs]
    r.shuffle(out)
    return docs + out if r.random() < 0.8 else out + docs


def print_fields(r, fields, indent, allow_pub=True):
    lines = []
    for f in fields:
        for a in field_attrs(r, f):
            lines.append(f'{indent}{a}')
        lines.append(f'{indent}{"pub " if allow_pub and r.random() < 0.5 else ""}{f.ident}: {show_type(f.ty)},')
    return lines


def print_item(r, it):
    lines = [doc_src(d) for d in it.docs]
    attrs = []
    if it.annotated:
        attrs.append('#[typeshare]' if it.typeshare_args is None else f'#[typeshare({it.typeshare_args})]')
    parts = []
    if it.rename is not None:
        parts.append(f'rename = {rs_lit(it.rename)}')
    if it.rename_all is not None:
        parts.append(f'rename_all = {rs_lit(it.rename_all)}')
    if it.tag is not None:
        parts.append(f'tag = {rs_lit(it.tag)}')
        parts.append(f'content = {rs_lit(it.content)}')
    attrs += serde_attrs(r, parts)
    if r.random() < 0.5:
        attrs.append('#[derive(Serialize, Deserialize)]')
    attrs += it.extra_attrs
    r.shuffle(attrs)
    lines += attrs
    gen = f'<{", ".join(it.generics)}>' if it.generics else ''
    if it.kind == 'struct':
        lines.append(f'pub struct {it.ident}{gen} {{')
        lines += print_fields(r, it.fields, '    ')
        lines.append('}')
    elif it.kind == 'unit_struct':
        lines.append(f'pub struct {it.ident};')
    elif it.kind == 'newtype':
        lines.append(f'pub struct {it.ident}{gen}({"pub " if r.random() < 0.5 else ""}{show_type(it.ty)});')
    elif it.kind == 'alias':
        lines.append(f'pub type {it.ident}{gen} = {show_type(it.ty)};')
    elif it.kind == 'const':
        lines.append(f'pub const {it.ident.upper()}: {show_type(it.ty)} = {it.value};')
    else:
        lines.append(f'pub enum {it.ident}{gen} {{')
        for v in it.variants:
            parts = []
            if v.rename is not None:
                parts.append(f'rename = {rs_lit(v.rename)}')
            if v.rename_all is not None:
                parts.append(f'rename_all = {rs_lit(v.rename_all)}')
            if v.skip == 'serde':
                parts.append('skip')
            va = serde_attrs(r, parts)
            if v.skip == 'typeshare':
                va.append('#[typeshare(skip)]')
            va += v.extra_attrs
            for d in v.docs:
                lines.append('    ' + doc_src(d))
            for a in va:
                lines.append(f'    {a}')
            if v.kind == 'unit':
                lines.append(f'    {v.ident},')
            elif v.kind == 'tuple':
                lines.append(f'    {v.ident}({show_type(v.ty)}),')
            else:
                lines.append(f'    {v.ident} {{')
                lines += print_fields(r, v.fields, '        ', allow_pub=False)
                lines.append('    },')
        lines.append('}')
    for w in reversed(it.nest):
        if w.startswith('mod '):
            lines = [f'pub {w} {{'] + ['    ' + l for l in lines] + ['}']
        elif w.startswith('fn '):
            lines = [f'{w}() {{'] + ['    ' + l for l in lines] + ['}']
        elif w.startswith('fn-'):
            # the item sits in a block that is reached only through an EXPRESSION of a function body
            shape, name = w[3:].split(' ', 1)
            body = ['    ' + l for l in lines]
            open_, close = {'let': ('let _v = {', '0 };'), 'closure': ('let _c = || {', '};'), 'match': ('match 0 { _ => {', '} }'),
                            'if': ('if true {', '} else { }'), 'loop': ('loop {', 'break; }'), 'unsafe': ('unsafe {', '}'), 'block': ('{', '}'),
                            'arg': ('drop({', '0 });')}[shape]
            lines = [f'fn {name}() {{', '    ' + open_] + ['    ' + l for l in body] + ['    ' + close, '}']
        else:
            lines = [f'{w} {{', '    fn method() {'] + ['        ' + l for l in lines] + ['    }', '}']
    return lines


def source(prog):
    r = random.Random(prog.seed)
    out = ['use serde::{Serialize, Deserialize};', 'use std::collections::HashMap;', '']
    if prog.prelude:
        out.append(prog.prelude)
    if any(it.nest and it.nest[0].startswith('impl ') for it in prog.items):
        out.append('struct Holder;')
    for it in prog.items:
        out += print_item(r, it)
        out.append('')
    return '\n'.join(out) + '\n'
