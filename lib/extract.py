"""Tokenising extractors: generated text of the six typeshare back ends -> one uniform observation.

    extract(lang, text) -> dict          lang in typescript kotlin swift scala go python

The text formats are the fixed templates printed by /repo/core/src/language/{typescript,kotlin,swift,
scala,go,python}.rs.  Every extractor works in two passes:

 1. a lexical pass that follows the TARGET LANGUAGE's own rules for comments and string literals
    (so a `*/`, a newline or a `\"\"\"` planted in a doc comment ends the comment exactly where the
    target language's compiler would end it; what follows is code again), producing per physical
    line the code text with comments removed, a mask of the same length in which the contents of
    string literals are blanked (structure regexes run on the mask, text is cut from the code),
    and the comments that start on the line;
 2. a line-oriented structure pass guided by the templates.  Inside a body (member list, variant
    list ...) a line that fits no template is reported and the body goes on; a line that opens a new
    top-level construct ends the body (reported under 'anomalies' as not closed).

Nothing is guessed silently: every non-blank line and every comment that cannot be attributed to a
construct of the template is listed under 'unparsed' as '<line no>: [why] <text>'; structural
oddities that are attributable (a body that is not closed, a CodingKeys list that differs from the
properties, Scala's closing brace without opener ...) are listed under 'anomalies'.
The extractor never raises; an internal error is reported under 'unparsed' ('0: extractor error ..').

Observation:

 { 'lang': str,
   'definitions': [ D ],                  in textual order (of their first line)
   'references':  [ {'in': definition name, 'position': field|payload|alias|parent|inner|generic_arg|const,
                     'outer': the position of the whole type expression (field|payload|alias|parent|inner|const),
                     'name': identifier, 'generic_param': bool, 'member': .., 'variant': ..} ],
                  every identifier in a type position; the language's builtins are dropped, names typeshare
                  brings in itself go to helper_uses instead; 'position' is 'generic_arg' for identifiers inside
                  the argument list of a user generic (then 'outer' still says where the expression stands)
   'imports': [str],                      Python: imported names; Go: package paths; Kotlin: qualified names; Swift: modules
   'helper_uses': [str], 'helper_defs': [str],
   'header': str,                         version comment, package / import lines
   'unparsed': [str], 'anomalies': [str] }

 D = { 'kind': struct|enum|alias|const|helper, 'name': as declared (back-ticks removed), 'escaped': bool,
       'ident_ok': the name is a plain identifier, 'generics': [str], 'docs': [str], 'members': [M],
       'variants': [V], 'tag_keys': [str], 'content_keys': [str], 'parent': None, 'type': alias target /
       const type (TS alias: without ` | null` / ` | undefined`, see 'optional', 'optional_detail'), 'type_raw', 'value': const value text,
       'span': (first line, last line) incl. docs, annotations and generated helper code,
       + per language: algebraic, form, annotations, redacted, inline (Kotlin value class), conformances,
         generic_constraints, indirect, coding_keys, init_params, init_assignments, decode_cases,
         encode_cases (Swift), companion, in_package_object (Scala), key_type, tag_field, content_field,
         accessors, constructors (Go), model_config, types_class, union (Python), inner_of: (enum, variant)
         for the `<Enum><Variant>Inner` structs (from the generated doc line), helper_of }
   kind 'helper': CodableVoid (Swift), UByte/UShort/UInt/ULong aliases (Scala), TypeVar lines and helper
   functions (Python), ReviverFunc/ReplacerFunc (TS), the variant-key type `<Enum><Tag>s` (Go) and the
   `<Enum>Types` class (Python) of an algebraic enum (their constants / members are the enum's variants).

 M = { 'name', 'escaped', 'ident_ok', 'wire_key', 'key_binding': name|quoted|serial_name|coding_key|json_tag|alias,
       'optional': ANY part of the language's optional marker is present, 'optional_detail': the parts,
       'type': type text without the marker, 'type_raw': as written (without a default initialiser),
       'default': initialiser text or None, 'docs', 'line', + readonly (TS), private (Kotlin),
       annotated (Python Annotated[..]), tag_options / tag_raw (Go) }

 V = { 'name': declared name (TS algebraic: the wire string; Go: the constant; Python algebraic: the variant
       class), 'escaped', 'ident_ok', 'wire_name', 'wire_names': every spelled-out occurrence,
       'payload': unit|newtype|struct, 'type'/'type_raw': payload type text, 'members': [M] (TS inlines struct
       variants), 'inner': name of the helper struct (other languages), 'parent' + 'parent_generics'
       (Kotlin/Scala), 'generics', 'content_key', 'docs', 'line', + optional (TS `content?`), serial_name,
       string_value (Kotlin), raw_value (Swift), const_type (Go), tag_key, types_key, wire_ambiguous (Python) }

The template of each language and its conventions are described above its extractor.
tools/extract_selftest.py validates all of this against the real tool and lists the real tool's
deviations from the ground truth (KNOWN).
"""
import re

LANGS = ('typescript', 'kotlin', 'swift', 'scala', 'go', 'python')

SM = '\x01'          # mask character standing for one character inside a string literal
STR = '"' + SM + '*"'  # regex fragment: a complete double-quoted literal on the mask


# ------------------------------------------------------------------------------------------------
# lexical pass
# ------------------------------------------------------------------------------------------------
class Line:
    __slots__ = ('no', 'raw', 'code', 'mask', 'comments', 'cont', 'used')

    def __init__(self, no, raw):
        self.no = no
        self.raw = raw
        self.code = ''
        self.mask = ''
        self.comments = []     # comment dicts that START on this line
        self.cont = False      # line starts inside a comment / string opened on an earlier line
        self.used = False      # attributed by the structure pass

    @property
    def blank(self):
        return self.code.strip() == '' and not self.comments and not self.cont

    @property
    def comment_only(self):
        return self.code.strip() == '' and (bool(self.comments) or self.cont)

    def __repr__(self):
        return f'<{self.no}:{self.code!r}>'


# Line terminators as the target language sees them (they end a line comment): Go only knows \n.
# (JavaScript also ends lines at U+2028/U+2029; typeshare prints no `//` comments in TypeScript and
# inside /* */ a line terminator is harmless, so the text is not split there.)
NEWLINES = {
    'go': re.compile('\n'),
}
NL_DEFAULT = re.compile('\r\n|[\n\r]')

# what starts a new top-level construct: a stray line inside a body is reported and the body goes on,
# unless the line is one of these (then the body is reported as not closed)
TOPLEVEL = {
    'typescript': re.compile(r'^(export |import )'),
    'kotlin': re.compile(r'^(@Serializable$|@JvmInline$|data class |object |enum class |sealed class |typealias |value class |package |import )'),
    'swift': re.compile(r'^(public struct |public enum |public indirect enum |public typealias |import )'),
    'scala': re.compile(r'^(case class |class |sealed trait |object |type |package )'),
    'go': re.compile(r'^(type |const |func |package |import )'),
    'python': re.compile(r'^\S'),
}

LEXCFG = {
    #              line comment, block comment nests, triple-quoted strings, back-tick strings (multi-line), single-quote mode
    'typescript': dict(linec='//', nest=False, triple=False, backtick=True, squote='string'),
    'kotlin': dict(linec='//', nest=True, triple=True, backtick=False, squote='char'),
    'swift': dict(linec='//', nest=True, triple=True, backtick=False, squote=None),
    'scala': dict(linec='//', nest=True, triple=True, backtick=False, squote='char'),
    'go': dict(linec='//', nest=False, triple=False, backtick=True, squote='char'),
}
CHAR_LIT = re.compile(r"'(\\u[0-9a-fA-F]{4}|\\.|[^\\'])'")


def split_lines(lang, text):
    rx = NEWLINES.get(lang, NL_DEFAULT)
    parts = rx.split(text)
    if parts and parts[-1] == '':
        parts.pop()
    return parts


def lex_c(lang, text):
    """comments and string literals of the C-like languages -> [Line]"""
    cfg = LEXCFG[lang]
    out = []
    anomalies = []
    state = None      # None | ['block', depth, commentdict] | ['mstr', closer]
    for no, raw in enumerate(split_lines(lang, text), 1):
        ln = Line(no, raw)
        out.append(ln)
        ln.cont = state is not None
        code, mask = [], []
        i, n = 0, len(raw)
        while i < n:
            if state is not None and state[0] == 'block':
                c = state[2]
                j = raw.find('*/', i)
                k = raw.find('/*', i) if cfg['nest'] else -1
                if k != -1 and (j == -1 or k < j):
                    state[1] += 1
                    c['text'] += raw[i:k + 2]
                    i = k + 2
                    continue
                if j == -1:
                    c['text'] += raw[i:]
                    i = n
                    continue
                c['text'] += raw[i:j + 2]
                i = j + 2
                state[1] -= 1
                if state[1] == 0:
                    c['end'] = no
                    state = None
                continue
            if state is not None and state[0] == 'mstr':
                closer = state[1]
                j = raw.find(closer, i)
                if j == -1:
                    code.append(raw[i:])
                    mask.append(SM * (n - i))
                    i = n
                    continue
                code.append(raw[i:j + len(closer)])
                mask.append(SM * (j - i) + closer)
                i = j + len(closer)
                state = None
                continue
            ch = raw[i]
            if raw.startswith(cfg['linec'], i):
                ln.comments.append({'kind': 'line', 'text': raw[i:], 'start': no, 'end': no, 'col': i})
                i = n
                continue
            if raw.startswith('/*', i):
                c = {'kind': 'block', 'text': '/*', 'start': no, 'end': None, 'col': i}
                ln.comments.append(c)
                state = ['block', 1, c]
                i += 2
                continue
            if ch == '"':
                if cfg['triple'] and raw.startswith('"""', i):
                    code.append('"""')
                    mask.append('"""')
                    i += 3
                    state = ['mstr', '"""']
                    continue
                j = i + 1
                while j < n and raw[j] != '"':
                    j += 2 if raw[j] == '\\' and j + 1 < n else 1
                if j >= n:       # unterminated: the literal ends with the line
                    anomalies.append(f'{no}: unterminated string literal')
                    code.append(raw[i:])
                    mask.append('"' + SM * (n - i - 1))
                    i = n
                    continue
                code.append(raw[i:j + 1])
                mask.append('"' + SM * (j - i - 1) + '"')
                i = j + 1
                continue
            if ch == '`' and cfg['backtick']:
                j = raw.find('`', i + 1)
                if j == -1:
                    code.append(raw[i:])
                    mask.append('`' + SM * (n - i - 1))
                    i = n
                    state = ['mstr', '`']
                    continue
                code.append(raw[i:j + 1])
                mask.append('`' + SM * (j - i - 1) + '`')
                i = j + 1
                continue
            if ch == "'" and cfg['squote'] == 'char':
                m = CHAR_LIT.match(raw, i)
                if m:
                    code.append(m.group(0))
                    mask.append("'" + SM * (len(m.group(0)) - 2) + "'")
                    i = m.end()
                    continue
            if ch == "'" and cfg['squote'] == 'string':
                j = i + 1
                while j < n and raw[j] != "'":
                    j += 2 if raw[j] == '\\' and j + 1 < n else 1
                j = min(j, n - 1) if j >= n else j
                code.append(raw[i:j + 1])
                mask.append("'" + SM * max(0, j - i - 1) + ("'" if j > i else ''))
                i = j + 1
                continue
            code.append(ch)
            mask.append(ch)
            i += 1
        if state is not None and state[0] == 'block':
            state[2]['text'] += '\n'
        ln.code = ''.join(code)
        ln.mask = ''.join(mask)
        if len(ln.code) != len(ln.mask):      # cannot happen; keep the invariant visible
            ln.mask = ln.code
            anomalies.append(f'{no}: lexer mask length mismatch')
    if state is not None:
        anomalies.append(f'unterminated {"comment" if state[0] == "block" else "string"} at end of text')
        if state[0] == 'block':
            state[2]['end'] = len(out)
    return out, anomalies


def lex_py(text):
    """Python: '#' comments, single/double/triple quoted strings (prefix letters stay code)."""
    out = []
    anomalies = []
    state = None     # None | ['mstr', closer, startline]
    for no, raw in enumerate(split_lines('python', text), 1):
        ln = Line(no, raw)
        out.append(ln)
        ln.cont = state is not None
        code, mask = [], []
        i, n = 0, len(raw)
        while i < n:
            if state is not None:
                closer = state[1]
                j = i
                found = -1
                while j < n:
                    if raw[j] == '\\':
                        j += 2
                        continue
                    if raw.startswith(closer, j):
                        found = j
                        break
                    j += 1
                if found == -1:
                    code.append(raw[i:])
                    mask.append(SM * (n - i))
                    i = n
                    continue
                code.append(raw[i:found + 3])
                mask.append(SM * (found - i) + closer)
                i = found + 3
                state = None
                continue
            ch = raw[i]
            if ch == '#':
                ln.comments.append({'kind': 'line', 'text': raw[i:], 'start': no, 'end': no, 'col': i})
                i = n
                continue
            if ch in '"\'':
                if raw.startswith(ch * 3, i):
                    code.append(ch * 3)
                    mask.append(ch * 3)
                    i += 3
                    state = ['mstr', ch * 3, no]
                    continue
                j = i + 1
                while j < n and raw[j] != ch:
                    j += 2 if raw[j] == '\\' and j + 1 < n else 1
                if j >= n:
                    anomalies.append(f'{no}: unterminated string literal')
                    code.append(raw[i:])
                    mask.append(ch + SM * (n - i - 1))
                    i = n
                    continue
                code.append(raw[i:j + 1])
                mask.append(ch + SM * (j - i - 1) + ch)
                i = j + 1
                continue
            code.append(ch)
            mask.append(ch)
            i += 1
        ln.code = ''.join(code)
        ln.mask = ''.join(mask)
    if state is not None:
        anomalies.append(f'unterminated triple-quoted string opened on line {state[2]}')
    return out, anomalies


# ------------------------------------------------------------------------------------------------
# string literals
# ------------------------------------------------------------------------------------------------
_SIMPLE_ESC = {'n': '\n', 'r': '\r', 't': '\t', '0': '\0', '\\': '\\', '"': '"', "'": "'", 'b': '\b', 'f': '\f', 'v': '\v', 'a': '\a', '$': '$', '/': '/'}


def unescape(body, python=False):
    """The value of a double-quoted literal's body.  Tolerant union of the escape syntaxes that occur
    (Rust `{:?}` prints \\u{..}; the target languages read \\uXXXX): unknown escapes keep the escaped
    character (Python keeps the backslash too)."""
    out = []
    i, n = 0, len(body)
    while i < n:
        c = body[i]
        if c != '\\' or i + 1 >= n:
            out.append(c)
            i += 1
            continue
        d = body[i + 1]
        if d == 'u' and body.startswith('{', i + 2):
            j = body.find('}', i + 3)
            try:
                out.append(chr(int(body[i + 3:j], 16)))
                i = j + 1
                continue
            except (ValueError, OverflowError):
                pass
        if d == 'u' and re.match(r'[0-9a-fA-F]{4}', body[i + 2:i + 6] or 'x'):
            out.append(chr(int(body[i + 2:i + 6], 16)))
            i += 6
            continue
        if d == 'x' and re.match(r'[0-9a-fA-F]{2}', body[i + 2:i + 4] or 'x'):
            out.append(chr(int(body[i + 2:i + 4], 16)))
            i += 4
            continue
        if d in _SIMPLE_ESC and not (python and d in '$/'):
            out.append(_SIMPLE_ESC[d])
        elif python:
            out.append('\\' + d)
        else:
            out.append(d)
        i += 2
    return ''.join(out)


def lit_value(lit, python=False):
    """value of a complete literal text including its quotes"""
    if len(lit) >= 2 and lit[0] == lit[-1] and lit[0] in '"\'':
        return unescape(lit[1:-1], python)
    return lit


# ------------------------------------------------------------------------------------------------
# type expressions
# ------------------------------------------------------------------------------------------------
BUILTINS = {
    'typescript': {'string', 'number', 'boolean', 'undefined', 'null', 'Date', 'Record', 'Array', 'unknown', 'any', 'void', 'never', 'object',
                   'bigint', 'symbol', 'Uint8Array', 'readonly', 'Map', 'Set', 'Partial'},
    'kotlin': {'String', 'Byte', 'Short', 'Int', 'Long', 'UByte', 'UShort', 'UInt', 'ULong', 'Boolean', 'Float', 'Double', 'Unit', 'List', 'HashMap',
               'Any', 'Char', 'Map', 'Set', 'Array', 'Nothing'},
    'swift': {'String', 'Int', 'Int8', 'Int16', 'Int32', 'Int64', 'UInt', 'UInt8', 'UInt16', 'UInt32', 'UInt64', 'Bool', 'Float', 'Double',
              'Unicode.Scalar', 'Any', 'Void', 'Character', 'Data', 'Date', 'Array', 'Dictionary', 'Optional'},
    'scala': {'String', 'Byte', 'Short', 'Int', 'Long', 'Boolean', 'Float', 'Double', 'Unit', 'Vector', 'Option', 'Map', 'Any', 'Char', 'List',
              'Seq', 'Serializable', 'Nothing'},
    'go': {'string', 'rune', 'int', 'int8', 'int16', 'int32', 'int64', 'uint', 'uint8', 'uint16', 'uint32', 'uint64', 'bool', 'float32', 'float64',
           'byte', 'struct', 'interface', 'map', 'any', 'error', 'chan', 'func'},
    'python': {'str', 'int', 'float', 'bool', 'None', 'bytes', 'list', 'dict', 'object'},
}
# names typeshare itself brings in (imported / defined by the generated text), per language
HELPERS = {
    'typescript': {'ReviverFunc', 'ReplacerFunc'},
    'kotlin': {'Serializable', 'SerialName', 'JvmInline'},
    'swift': {'CodableVoid', 'Foundation'},
    'scala': {'UByte', 'UShort', 'UInt', 'ULong'},
    'go': set(),      # package qualifiers are detected syntactically (`pkg.Name`)
    'python': {'List', 'Dict', 'Optional', 'Union', 'Literal', 'Annotated', 'Generic', 'TypeVar', 'BaseModel', 'Field', 'ConfigDict',
               'BeforeValidator', 'PlainSerializer', 'Enum', 'datetime', 'AnyUrl', 'serialize_binary_data', 'deserialize_binary_data',
               'serialize_datetime_data', 'parse_rfc3339', 'annotations'},
}
GENERIC_OPEN = {'typescript': '<', 'kotlin': '<', 'swift': '<', 'scala': '[', 'go': '[', 'python': '['}
TYPE_TOKEN = re.compile(r'[A-Za-z_][A-Za-z0-9_]*(?:\.[A-Za-z_][A-Za-z0-9_]*)*|[<>\[\](){}]|"(?:\\.|[^"\\])*"|`')


def type_idents(lang, text):
    """[(identifier, in_user_generic_args)] for every identifier of a type expression, in order."""
    out = []
    stack = []
    prev = None
    opener = GENERIC_OPEN[lang]
    closers = {'<': '>', '[': ']', '(': ')', '{': '}'}
    for m in TYPE_TOKEN.finditer(text):
        t = m.group(0)
        if t == '`' or t[0] == '"':
            prev = None
            continue
        if t in closers:
            adjacent = prev is not None and prev[1] == m.start()
            user = (t == opener and adjacent and prev[0] not in BUILTINS[lang] and prev[0] not in HELPERS[lang])
            stack.append(user)
            prev = None
            continue
        if t in closers.values():
            if stack:
                stack.pop()
            prev = None
            continue
        out.append((t, any(stack)))
        prev = (t, m.end())
    return out


def split_top(s, sep=',', mask=None):
    """split at separators that are not nested in brackets (and, with a mask, not inside strings)"""
    m = mask if mask is not None else s
    parts, depth, start = [], 0, 0
    for i, c in enumerate(m):
        if c in '<[({':
            depth += 1
        elif c in '>])}':
            depth -= 1
        elif c == sep and depth <= 0:
            parts.append(s[start:i])
            start = i + 1
    parts.append(s[start:])
    return parts


def parse_generics(s, lang):
    """'<A, B>' / '[A, B]' / '<T: Codable & X, U: Y>' / '[T any]' -> (names, constraints)"""
    if not s:
        return [], {}
    inner = s[1:-1]
    names, cons = [], {}
    for p in split_top(inner):
        p = p.strip()
        if lang == 'swift' and ':' in p:
            nm, c = p.split(':', 1)
            names.append(nm.strip())
            cons[nm.strip()] = [x.strip() for x in c.split('&')]
        elif lang == 'go' and p.endswith(' any'):
            names.append(p[:-4].strip())
        else:
            names.append(p)
    return names, cons


def unbacktick(s):
    if len(s) >= 2 and s[0] == '`' and s[-1] == '`':
        return s[1:-1], True
    return s, False


# ------------------------------------------------------------------------------------------------
# observation builder
# ------------------------------------------------------------------------------------------------
def new_def(kind, name, line, **kw):
    d = {'kind': kind, 'name': name, 'escaped': False, 'generics': [], 'docs': [], 'members': [], 'variants': [], 'tag_keys': [],
         'content_keys': [], 'parent': None, 'type': None, 'type_raw': None, 'value': None, 'span': (line, line)}
    d.update(kw)
    return d


def new_member(name, line, **kw):
    m = {'name': name, 'escaped': False, 'wire_key': name, 'key_binding': 'name', 'optional': False, 'optional_detail': {}, 'type': None,
         'type_raw': None, 'default': None, 'docs': [], 'line': line}
    m.update(kw)
    return m


def new_variant(name, line, **kw):
    v = {'name': name, 'escaped': False, 'wire_name': name, 'wire_names': [], 'payload': 'unit', 'type': None, 'type_raw': None, 'members': [],
         'inner': None, 'parent': None, 'generics': [], 'docs': [], 'line': line}
    v.update(kw)
    return v


IDENT_OK = re.compile(r'[^\W\d]\w*\Z')


class Ctx:
    """shared bookkeeping of one extraction"""

    def __init__(self, lang, lines, anomalies):
        self.lang = lang
        self.lines = lines
        self.defs = []
        self.imports = []
        self.header = []
        self.unparsed = []
        self.anomalies = list(anomalies)
        self.helper_uses = []
        self.helper_defs = []
        self.pending_docs = []      # (lineno, text) waiting for the construct they document
        self.refs = []

    # -- comments -------------------------------------------------------------------------------
    def take_docs(self):
        d = [t for _, t in self.pending_docs]
        start = self.pending_docs[0][0] if self.pending_docs else None
        self.pending_docs = []
        return d, start

    def drop_docs(self, why='dangling comment'):
        for no, t in self.pending_docs:
            self.unparsed.append(f'{no}: {why}: {t}')
        self.pending_docs = []

    def bad(self, ln, why=None):
        ln.used = True
        self.unparsed.append(f'{ln.no}: {ln.raw}' if why is None else f'{ln.no}: [{why}] {ln.raw}')

    def stray(self, ln, owner):
        """a line inside the body of `owner` that fits no template: report it and let the body go on (True) -
        unless it starts a new top-level construct (False: the caller gives the body up)"""
        if not ln.cont and TOPLEVEL[self.lang].match(ln.mask):
            return False
        self.bad(ln, f'in {owner}')
        for c in ln.comments:
            if c['end'] != c['start']:
                self.unparsed.append(f'{c["start"]}: [comment swallowing lines {c["start"]}-{c["end"]}] {c["text"]}')
        self.drop_docs()
        return True

    def use(self, name):
        if name not in self.helper_uses:
            self.helper_uses.append(name)

    def define(self, name):
        if name not in self.helper_defs:
            self.helper_defs.append(name)

    # -- references -----------------------------------------------------------------------------
    def add_refs(self, d, position, text, generics, **extra):
        if not text:
            return
        lang = self.lang
        for ident, inarg in type_idents(lang, text):
            if lang == 'go' and '.' in ident:
                self.use(ident.split('.')[0])
                continue
            if ident in HELPERS[lang]:
                self.use(ident)
                continue
            if ident in BUILTINS[lang]:
                continue
            r = {'in': d['name'], 'position': 'generic_arg' if inarg else position, 'outer': position, 'name': ident,
                 'generic_param': ident in generics}
            r.update(extra)
            self.refs.append(r)

    def result(self):
        for ln in self.lines:
            if not ln.used and not ln.blank:
                self.unparsed.append(f'{ln.no}: {ln.raw}')
        self.drop_docs()

        def key(s):
            m = re.match(r'(\d+):', s)
            return int(m.group(1)) if m else 0
        self.unparsed.sort(key=key)
        for d in self.defs:         # 'ident_ok': the declared name is a plain identifier (letters, digits, _; no leading digit)
            d['ident_ok'] = bool(IDENT_OK.match(d['name'] or ''))
            for m in d['members']:
                m['ident_ok'] = bool(IDENT_OK.match(m['name'] or ''))
            for v in d['variants']:
                v['ident_ok'] = bool(IDENT_OK.match(v['name'] or ''))
                for m in v['members']:
                    m['ident_ok'] = bool(IDENT_OK.match(m['name'] or ''))
        return {'lang': self.lang, 'definitions': self.defs, 'references': self.refs, 'imports': self.imports,
                'helper_uses': self.helper_uses, 'helper_defs': self.helper_defs, 'header': '\n'.join(self.header),
                'unparsed': self.unparsed, 'anomalies': self.anomalies}


def doc_text_line(c):
    """text content of a `//`, `///` line comment"""
    t = c['text']
    t = t[3:] if t.startswith('///') else t[2:]
    return t[1:] if t.startswith(' ') else t


def doc_text_block(c):
    """text lines of a /** */ comment as typeshare prints them (single line or ' * ' prefixed lines)"""
    t = c['text']
    body = t[2:-2] if t.endswith('*/') and len(t) >= 4 else t[2:]
    if body.startswith('*'):
        body = body[1:]
    if '\n' not in body:
        if body.startswith(' '):
            body = body[1:]
        if body.endswith(' '):
            body = body[:-1]
        return [body]
    rows = body.split('\n')
    if rows and rows[0].strip() == '':
        rows = rows[1:]
    if rows and rows[-1].strip() == '':
        rows = rows[:-1]
    out = []
    for r in rows:
        s = r.lstrip('\t ')
        if s.startswith('* '):
            s = s[2:]
        elif s.startswith('*'):
            s = s[1:]
        out.append(s)
    return out


def collect_comment_line(ctx, ln, header_ok=False):
    """a line that holds only comments: queue the text as pending docs"""
    ln.used = True
    for c in ln.comments:
        if c['kind'] == 'line':
            ctx.pending_docs.append((c['start'], doc_text_line(c)))
        else:
            for t in doc_text_block(c):
                ctx.pending_docs.append((c['start'], t))


def span_of(d, *linenos):
    a, b = d['span']
    xs = [x for x in linenos if x is not None]
    d['span'] = (min([a] + xs), max([b] + xs))


def is_version_header(texts):
    return any('enerated by typeshare' in t for t in texts)


def skip_trivia(ctx, ln, seen_def):
    """common handling of continuation / blank / comment-only / mixed lines.
    -> True when the line has been dealt with."""
    if ln.used:
        return True
    if ln.cont and ln.code.strip() == '' and not ln.comments:
        ln.used = True          # inside a multi-line comment that belongs to an earlier line
        return True
    if ln.code.strip() == '' and not ln.comments:
        ln.used = True
        if ctx.pending_docs:
            texts = [t for _, t in ctx.pending_docs]
            if not seen_def:          # a comment block closed by a blank line before the first definition is the file header, whatever it says
                ctx.header += texts
                ctx.pending_docs = []
            else:
                ctx.drop_docs()
        return True
    if ln.code.strip() == '':
        collect_comment_line(ctx, ln)
        return True
    if ln.comments:             # the templates never put a comment next to code
        ctx.bad(ln, 'code next to a comment')
        for c in ln.comments:
            if c['end'] != c['start']:
                ctx.unparsed.append(f'{c["start"]}: [comment swallowing lines {c["start"]}-{c["end"]}] {c["text"]}')
        ctx.drop_docs()
        return True
    return False


# ------------------------------------------------------------------------------------------------
# TypeScript
#   struct  : export interface N<G> {  / \t[readonly ]key[?]: T[ | null];  / }
#   alias   : export type N<G> = T[[ | null] | undefined];      (` | null`: Option<Option<T>>)
#   enum    : export enum N {  \tV = "w",  }            (unit)
#             export type N<G> = \n\t| { tag: "w", content?: undefined } ...;   (algebraic, struct variants inlined;
#                                  newtype variant: { tag: "w", content[?]: T[ | null] })
#   const   : export const N: T = v;
#   helper  : export const ReviverFunc / ReplacerFunc = ... };
#   member.optional_detail = {'question', 'null_union'}; optional = question; newtype variant: the same;
#   alias.optional_detail = {'undefined', 'null_union'}; 'type' is the text without these markers, 'type_raw' as written
# ------------------------------------------------------------------------------------------------
TS_MEMBER = re.compile(r'^\t(readonly )?(' + STR + r'|[^"]*?)(\?)?: (.*);$')
TS_IFACE = re.compile(r'^export interface ([^\s<{]+)(<.*>)? \{$')
TS_ENUM = re.compile(r'^export enum ([^\s<{]+)(<.*>)? \{$')
TS_TYPE = re.compile(r'^export type ([^\s<=]+)(<[^=]*?>)? = (.*)$')
TS_CONST = re.compile(r'^export const ([^\s:=]+): (.*?) = (.*);$')
TS_HELPER = re.compile(r'^export const (ReviverFunc|ReplacerFunc) = \(key: string, value: unknown\): unknown => \{$')
TS_UVAR = re.compile(r'^\t([^\s=]+) = (' + STR + r'),$')
TS_VAR = re.compile(r'^\t\| \{ ([^"]*?): (' + STR + r'), ([^"]*?)(\?)?: (.*) \}(;)?$')
TS_SVAR = re.compile(r'^\t\| \{ ([^"]*?): (' + STR + r'), ([^"]*?): \{$')
TS_SEND = re.compile(r'^\}\}(;)?$')
TS_IMPORT = re.compile(r'^import \{ (.*) \} from (' + STR + r');$')


def ts_member(ctx, ln, d, position, **extra):
    m = TS_MEMBER.match(ln.mask)
    if not m:
        return None
    ln.used = True
    key = ln.code[m.start(2):m.end(2)]
    ty_raw = ln.code[m.start(4):m.end(4)]
    quoted = key.startswith('"')
    name = lit_value(key) if quoted else key
    null_union = ty_raw.endswith(' | null')
    ty = ty_raw[:-7] if null_union else ty_raw
    docs, dstart = ctx.take_docs()
    mem = new_member(name, ln.no, wire_key=name, key_binding='quoted' if quoted else 'name', optional=bool(m.group(3)),
                     optional_detail={'question': bool(m.group(3)), 'null_union': null_union}, type=ty, type_raw=ty_raw, docs=docs,
                     readonly=bool(m.group(1)))
    span_of(d, dstart, ln.no)
    ctx.add_refs(d, position, ty, d['generics'], member=name, **extra)
    return mem


def ex_typescript(ctx):
    L = ctx.lines
    i, n = 0, len(L)
    seen = False
    while i < n:
        ln = L[i]
        i += 1
        if skip_trivia(ctx, ln, seen):
            continue
        mask, code = ln.mask, ln.code
        m = TS_IMPORT.match(mask)
        if m:
            ln.used = True
            ctx.imports += [x.strip() for x in code[m.start(1):m.end(1)].split(',')]
            ctx.header.append(ln.raw)
            continue
        m = TS_IFACE.match(mask)
        if m:
            seen = True
            ln.used = True
            docs, dstart = ctx.take_docs()
            gens, _ = parse_generics(m.group(2), 'typescript')
            d = new_def('struct', code[m.start(1):m.end(1)], ln.no, generics=gens, docs=docs)
            span_of(d, dstart)
            ctx.defs.append(d)
            while i < n:
                l2 = L[i]
                if l2.mask == '}' and not l2.comments:
                    l2.used = True
                    span_of(d, l2.no)
                    i += 1
                    break
                if l2.code.strip() == '' and (l2.comments or l2.cont):
                    skip_trivia(ctx, l2, True)
                    i += 1
                    continue
                mem = None if l2.comments else ts_member(ctx, l2, d, 'field')
                if mem is None:
                    if ctx.stray(l2, d['name']):
                        i += 1
                        continue
                    ctx.anomalies.append(f'{d["name"]}: interface not closed')
                    break
                d['members'].append(mem)
                i += 1
            else:
                ctx.anomalies.append(f'{d["name"]}: interface not closed')
            ctx.drop_docs()
            continue
        m = TS_ENUM.match(mask)
        if m:
            seen = True
            ln.used = True
            docs, dstart = ctx.take_docs()
            gens, _ = parse_generics(m.group(2), 'typescript')
            d = new_def('enum', code[m.start(1):m.end(1)], ln.no, generics=gens, docs=docs, algebraic=False)
            span_of(d, dstart)
            ctx.defs.append(d)
            while i < n:
                l2 = L[i]
                if l2.mask == '}' and not l2.comments:
                    l2.used = True
                    span_of(d, l2.no)
                    i += 1
                    break
                if l2.code.strip() == '' and (l2.comments or l2.cont):
                    skip_trivia(ctx, l2, True)
                    i += 1
                    continue
                mv = None if l2.comments else TS_UVAR.match(l2.mask)
                if not mv:
                    if ctx.stray(l2, d['name']):
                        i += 1
                        continue
                    ctx.anomalies.append(f'{d["name"]}: enum not closed')
                    break
                l2.used = True
                vdocs, vstart = ctx.take_docs()
                w = lit_value(l2.code[mv.start(2):mv.end(2)])
                d['variants'].append(new_variant(l2.code[mv.start(1):mv.end(1)], l2.no, wire_name=w, wire_names=[w], docs=vdocs))
                span_of(d, vstart, l2.no)
                i += 1
            else:
                ctx.anomalies.append(f'{d["name"]}: enum not closed')
            ctx.drop_docs()
            continue
        m = TS_HELPER.match(mask)
        if m:
            seen = True
            ln.used = True
            docs, dstart = ctx.take_docs()
            d = new_def('helper', m.group(1), ln.no, docs=docs)
            span_of(d, dstart)
            ctx.defs.append(d)
            ctx.define(m.group(1))
            while i < n:
                l2 = L[i]
                l2.used = True
                i += 1
                if l2.raw == '};':
                    span_of(d, l2.no)
                    break
            else:
                ctx.anomalies.append(f'{d["name"]}: helper not closed')
            continue
        m = TS_CONST.match(mask)
        if m:
            seen = True
            ln.used = True
            docs, dstart = ctx.take_docs()
            d = new_def('const', code[m.start(1):m.end(1)], ln.no, docs=docs, type=code[m.start(2):m.end(2)],
                        type_raw=code[m.start(2):m.end(2)], value=code[m.start(3):m.end(3)])
            span_of(d, dstart)
            ctx.defs.append(d)
            ctx.add_refs(d, 'const', d['type'], [])
            continue
        m = TS_TYPE.match(mask)
        if m:
            seen = True
            rhs = code[m.start(3):m.end(3)]
            gens, _ = parse_generics(m.group(2), 'typescript')
            name = code[m.start(1):m.end(1)]
            if rhs not in ('', ';'):
                if not rhs.endswith(';'):
                    ctx.bad(ln, 'type alias without terminator')
                    ctx.drop_docs()
                    continue
                ln.used = True
                docs, dstart = ctx.take_docs()
                ty_raw = rhs[:-1]
                opt = ty_raw.endswith(' | undefined')
                ty = ty_raw[:-len(' | undefined')] if opt else ty_raw
                # Option<Option<T>>: `T | null | undefined` (written in front of ` | undefined`)
                null_union = ty.endswith(' | null')
                ty = ty[:-len(' | null')] if null_union else ty
                d = new_def('alias', name, ln.no, generics=gens, docs=docs, type=ty, type_raw=ty_raw, optional=opt,
                            optional_detail={'undefined': opt, 'null_union': null_union})
                span_of(d, dstart)
                ctx.defs.append(d)
                ctx.add_refs(d, 'alias', ty, gens)
                continue
            ln.used = True
            docs, dstart = ctx.take_docs()
            d = new_def('enum', name, ln.no, generics=gens, docs=docs, algebraic=True)
            span_of(d, dstart)
            ctx.defs.append(d)
            closed = rhs == ';'
            while i < n and not closed:
                l2 = L[i]
                if l2.code.strip() == '' and (l2.comments or l2.cont):
                    skip_trivia(ctx, l2, True)
                    i += 1
                    continue
                if l2.code.strip() == '':
                    break           # a blank line: the union ended without its `;`
                mv = None if l2.comments else TS_VAR.match(l2.mask)
                ms = None if mv or l2.comments else TS_SVAR.match(l2.mask)
                if mv:
                    l2.used = True
                    i += 1
                    vdocs, vstart = ctx.take_docs()
                    c2 = l2.code
                    w = lit_value(c2[mv.start(2):mv.end(2)])
                    ty_raw = c2[mv.start(5):mv.end(5)]
                    q = bool(mv.group(4))
                    # Option<Option<T>>: `content?: T | null`
                    null_union = ty_raw.endswith(' | null')
                    ty = ty_raw[:-len(' | null')] if null_union else ty_raw
                    unit = q and ty_raw == 'undefined'
                    v = new_variant(w, l2.no, wire_name=w, wire_names=[w], docs=vdocs, payload='unit' if unit else 'newtype',
                                    type=None if unit else ty, type_raw=None if unit else ty_raw, optional=q,
                                    optional_detail={'question': q, 'null_union': null_union},
                                    content_key=c2[mv.start(3):mv.end(3)])
                    d['variants'].append(v)
                    d['tag_keys'].append(c2[mv.start(1):mv.end(1)])
                    d['content_keys'].append(c2[mv.start(3):mv.end(3)])
                    span_of(d, vstart, l2.no)
                    if not unit:
                        ctx.add_refs(d, 'payload', ty, gens, variant=w)
                    closed = bool(mv.group(6))
                    continue
                if ms:
                    l2.used = True
                    i += 1
                    vdocs, vstart = ctx.take_docs()
                    c2 = l2.code
                    w = lit_value(c2[ms.start(2):ms.end(2)])
                    v = new_variant(w, l2.no, wire_name=w, wire_names=[w], docs=vdocs, payload='struct', optional=False,
                                    content_key=c2[ms.start(3):ms.end(3)])
                    d['variants'].append(v)
                    d['tag_keys'].append(c2[ms.start(1):ms.end(1)])
                    d['content_keys'].append(c2[ms.start(3):ms.end(3)])
                    span_of(d, vstart, l2.no)
                    ended = False
                    while i < n:
                        l3 = L[i]
                        me = None if l3.comments else TS_SEND.match(l3.mask)
                        if me:
                            l3.used = True
                            i += 1
                            span_of(d, l3.no)
                            closed = bool(me.group(1))
                            ended = True
                            break
                        if l3.code.strip() == '' and (l3.comments or l3.cont):
                            skip_trivia(ctx, l3, True)
                            i += 1
                            continue
                        mem = None if l3.comments else ts_member(ctx, l3, d, 'payload', variant=w)
                        if mem is None:
                            if l3.code.strip() != '' and not l3.mask.startswith('\t| {') and ctx.stray(l3, f'{name} variant {w}'):
                                i += 1
                                continue
                            break
                        v['members'].append(mem)
                        i += 1
                    if not ended:
                        ctx.anomalies.append(f'{name}: struct variant {w} not closed')
                        break
                    continue
                if ctx.stray(l2, name):
                    i += 1
                    continue
                break
            if not closed:
                ctx.anomalies.append(f'{name}: algebraic enum without terminating ";"')
            ctx.drop_docs()
            continue
        ctx.bad(ln)
        ctx.drop_docs()


# ------------------------------------------------------------------------------------------------
# Kotlin
#   struct : @Serializable / object N            | data class N<G> ( \t[@SerialName("k")] \tval n: T[? = null| = null][,] )
#   alias  : typealias N<G> = T                   | @Serializable @JvmInline value class N( \t[private ]val value: T )   ('inline': True)
#   enum   : enum class N(val string: String) { \t@SerialName("w") \tV("w"), }
#            sealed class N<G> { \t@Serializable \t@SerialName("w") \tobject V: P<G>() | \tdata class V<G>(val content: T): P<G>() }
#   member.optional_detail = {'nullable', 'default_null'}; optional = either; 'default' = initialiser text
#   type_raw is the type as written (with its `?`), the initialiser is NOT part of it.
# ------------------------------------------------------------------------------------------------
KT_OBJECT = re.compile(r'^object ([^\s:({<]+)$')
KT_DATA = re.compile(r'^data class ([^\s<(]+)(<.*>)? \($')
KT_VALUE = re.compile(r'^value class ([^\s<(]+)(<.*>)?\($')
KT_ALIAS = re.compile(r'^typealias ([^\s<=]+)(<[^=]*?>)? = (.+)$')
KT_UENUM = re.compile(r'^enum class ([^\s<(]+?)(<.*>)?\(val string: String\) \{$')
KT_SEALED = re.compile(r'^sealed class ([^\s<({]+?)(<.*>)? \{$')
KT_MEMBER = re.compile(r'^\t(private )?val ([^:]+?): (.*?)(,)?$')
KT_SERIAL = re.compile(r'^\t@SerialName\((' + STR + r')\)$')
KT_UVAR = re.compile(r'^\t([^\s(]+)\((' + STR + r')\),$')
KT_VOBJ = re.compile(r'^\tobject ([^\s:]+): ([^\s<(]+?)(<.*>)?\(\)$')
KT_VDATA = re.compile(r'^\tdata class ([^\s<(]+?)(<[^(]*>)?\(val ([^:]*?): (.*)\): ([^\s<(:]+?)(<.*>)?\(\)$')
KT_TOSTRING = re.compile(r'^\toverride fun toString\(\): String = (' + STR + r')$')


def kt_split_type(rest):
    default = None
    ty_raw = rest
    m = re.search(r' = (\S.*)$', rest)
    if m and '"' not in m.group(1):
        default = m.group(1)
        ty_raw = rest[:m.start()]
    nullable = ty_raw.endswith('?')
    ty = ty_raw[:-1] if nullable else ty_raw
    detail = {'nullable': nullable, 'default_null': default == 'null'}
    return ty, ty_raw, default, detail


def kt_members(ctx, d, i, closers):
    """member lines up to a closer line; -> (index after closer, closer text or None)"""
    L = ctx.lines
    n = len(L)
    serial = None
    while i < n:
        l2 = L[i]
        if not l2.comments and l2.mask in closers:
            l2.used = True
            span_of(d, l2.no)
            if serial is not None:
                ctx.anomalies.append(f'{d["name"]}: @SerialName without member')
            return i + 1, l2.mask
        if l2.code.strip() == '' and (l2.comments or l2.cont):
            skip_trivia(ctx, l2, True)
            i += 1
            continue
        if l2.code.strip() == '':
            l2.used = True
            ctx.drop_docs()
            i += 1
            continue
        ms = None if l2.comments else KT_SERIAL.match(l2.mask)
        if ms and serial is None:
            l2.used = True
            serial = (lit_value(l2.code[ms.start(1):ms.end(1)]), l2.no)
            i += 1
            continue
        mm = None if l2.comments else KT_MEMBER.match(l2.mask)
        if not mm:
            if ctx.stray(l2, d['name']):
                if serial is not None:
                    ctx.unparsed.append(f'{serial[1]}: @SerialName without member')
                    serial = None
                i += 1
                continue
            break
        l2.used = True
        i += 1
        docs, dstart = ctx.take_docs()
        name = l2.code[mm.start(2):mm.end(2)]
        name, esc = unbacktick(name)
        ty, ty_raw, default, detail = kt_split_type(l2.code[mm.start(3):mm.end(3)])
        mem = new_member(name, l2.no, escaped=esc, docs=docs, type=ty, type_raw=ty_raw, default=default, optional_detail=detail,
                         optional=detail['nullable'] or detail['default_null'],
                         private=bool(mm.group(1)), trailing_comma=bool(mm.group(4)))
        if serial is not None:
            mem['wire_key'] = serial[0]
            mem['key_binding'] = 'serial_name'
            span_of(d, serial[1])
            ctx.use('SerialName')
            serial = None
        d['members'].append(mem)
        span_of(d, dstart, l2.no)
        ctx.add_refs(d, 'field' if d['kind'] == 'struct' else 'alias', ty, d['generics'], member=name)
    ctx.anomalies.append(f'{d["name"]}: member list not closed')
    return i, None


def ex_kotlin(ctx):
    L = ctx.lines
    i, n = 0, len(L)
    seen = False
    annots = []      # pending top-level annotations [(name, lineno)]

    def flush_annots():
        for a, no in annots:
            ctx.unparsed.append(f'{no}: dangling annotation @{a}')
        annots.clear()

    def start(kind, name, ln, gens_text, **kw):
        docs, dstart = ctx.take_docs()
        gens, _ = parse_generics(gens_text, 'kotlin')
        name, esc = unbacktick(name)
        d = new_def(kind, name, ln.no, escaped=esc, generics=gens, docs=docs, annotations=[a for a, _ in annots], **kw)
        span_of(d, dstart, *[no for _, no in annots])
        annots.clear()
        ctx.defs.append(d)
        ln.used = True
        return d

    while i < n:
        ln = L[i]
        i += 1
        if ln.code.strip() == '' and not ln.comments and not ln.cont and annots:
            flush_annots()
        if skip_trivia(ctx, ln, seen):
            continue
        mask, code = ln.mask, ln.code
        if not seen and (m := re.match(r'^package (\S+)$', mask)):
            ln.used = True
            ctx.header.append(ln.raw)
            continue
        if (m := re.match(r'^import (\S+)$', mask)):
            ln.used = True
            ctx.header.append(ln.raw)
            ctx.imports.append(m.group(1))
            ctx.define(m.group(1).split('.')[-1])
            continue
        if (m := re.match(r'^@(Serializable|JvmInline)$', mask)):
            ln.used = True
            annots.append((m.group(1), ln.no))
            ctx.use(m.group(1))
            continue
        seen = True
        if (m := KT_OBJECT.match(mask)):
            start('struct', m.group(1), ln, None, form='object')
            continue
        if (m := KT_DATA.match(mask)):
            d = start('struct', m.group(1), ln, m.group(2), form='data class')
            i, closer = kt_members(ctx, d, i, (')', ') {'))
            if closer == ') {':
                d['redacted'] = True
                if i < n and (mt := KT_TOSTRING.match(L[i].mask)):
                    L[i].used = True
                    d['to_string'] = lit_value(L[i].code[mt.start(1):mt.end(1)])
                    i += 1
                if i < n and L[i].mask == '}':
                    L[i].used = True
                    span_of(d, L[i].no)
                    i += 1
                else:
                    ctx.anomalies.append(f'{d["name"]}: redacted body not closed')
            ctx.drop_docs()
            continue
        if (m := KT_VALUE.match(mask)):
            d = start('alias', m.group(1), ln, m.group(2), inline=True)
            i, closer = kt_members(ctx, d, i, (')', ') {'))
            if d['members']:
                d['type'] = d['members'][0]['type_raw']
                d['type_raw'] = d['members'][0]['type_raw']
            if closer == ') {':
                d['redacted'] = True
                while i < n:
                    l2 = L[i]
                    i += 1
                    if l2.mask == '}':
                        l2.used = True
                        span_of(d, l2.no)
                        break
                    if l2.mask in ('', '\tfun unwrap() = value') or KT_TOSTRING.match(l2.mask):
                        l2.used = True
                        continue
                    i -= 1
                    ctx.anomalies.append(f'{d["name"]}: redacted body not closed')
                    break
            ctx.drop_docs()
            continue
        if (m := KT_ALIAS.match(mask)):
            d = start('alias', code[m.start(1):m.end(1)], ln, m.group(2), inline=False)
            d['type'] = d['type_raw'] = code[m.start(3):m.end(3)]
            ctx.add_refs(d, 'alias', d['type'], d['generics'])
            continue
        if (m := KT_UENUM.match(mask)):
            d = start('enum', m.group(1), ln, m.group(2), algebraic=False)
            serial = None
            while i < n:
                l2 = L[i]
                if l2.mask == '}' and not l2.comments:
                    l2.used = True
                    span_of(d, l2.no)
                    i += 1
                    break
                if l2.code.strip() == '' and (l2.comments or l2.cont):
                    skip_trivia(ctx, l2, True)
                    i += 1
                    continue
                if l2.code.strip() == '':
                    l2.used = True
                    ctx.drop_docs()
                    i += 1
                    continue
                ms = None if l2.comments else KT_SERIAL.match(l2.mask)
                if ms and serial is None:
                    l2.used = True
                    serial = lit_value(l2.code[ms.start(1):ms.end(1)])
                    ctx.use('SerialName')
                    i += 1
                    continue
                mv = None if l2.comments else KT_UVAR.match(l2.mask)
                if not mv:
                    if ctx.stray(l2, d['name']):
                        if serial is not None:
                            ctx.unparsed.append(f'{l2.no}: @SerialName({serial!r}) without entry before this line')
                            serial = None
                        i += 1
                        continue
                    ctx.anomalies.append(f'{d["name"]}: enum not closed')
                    break
                l2.used = True
                i += 1
                vdocs, vstart = ctx.take_docs()
                arg = lit_value(l2.code[mv.start(2):mv.end(2)])
                names = ([serial] if serial is not None else []) + [arg]
                vname, esc = unbacktick(l2.code[mv.start(1):mv.end(1)])
                # without @SerialName kotlinx.serialization uses the entry name
                d['variants'].append(new_variant(vname, l2.no, escaped=esc, wire_name=serial if serial is not None else vname, wire_names=names,
                                                 docs=vdocs, serial_name=serial, string_value=arg, parent=d['name']))
                span_of(d, vstart, l2.no)
                serial = None
            else:
                ctx.anomalies.append(f'{d["name"]}: enum not closed')
            ctx.drop_docs()
            continue
        if (m := KT_SEALED.match(mask)):
            d = start('enum', m.group(1), ln, m.group(2), algebraic=True)
            serial = None
            vann = []
            while i < n:
                l2 = L[i]
                if l2.mask == '}' and not l2.comments:
                    l2.used = True
                    span_of(d, l2.no)
                    i += 1
                    break
                if l2.code.strip() == '' and (l2.comments or l2.cont):
                    skip_trivia(ctx, l2, True)
                    i += 1
                    continue
                if l2.code.strip() == '':
                    l2.used = True
                    ctx.drop_docs()
                    i += 1
                    continue
                if l2.mask == '\t@Serializable' and not l2.comments:
                    l2.used = True
                    vann.append('Serializable')
                    ctx.use('Serializable')
                    i += 1
                    continue
                ms = None if l2.comments else KT_SERIAL.match(l2.mask)
                if ms and serial is None:
                    l2.used = True
                    serial = lit_value(l2.code[ms.start(1):ms.end(1)])
                    ctx.use('SerialName')
                    i += 1
                    continue
                mo = None if l2.comments else KT_VOBJ.match(l2.mask)
                md = None if mo or l2.comments else KT_VDATA.match(l2.mask)
                if not mo and not md:
                    if ctx.stray(l2, d['name']):
                        if serial is not None or vann:
                            ctx.unparsed.append(f'{l2.no}: annotations {vann} @SerialName({serial!r}) without class before this line')
                            serial, vann = None, []
                        i += 1
                        continue
                    ctx.anomalies.append(f'{d["name"]}: sealed class not closed')
                    break
                l2.used = True
                i += 1
                vdocs, vstart = ctx.take_docs()
                c2 = l2.code
                if mo:
                    vname, esc = unbacktick(c2[mo.start(1):mo.end(1)])
                    v = new_variant(vname, l2.no, escaped=esc, docs=vdocs, parent=c2[mo.start(2):mo.end(2)],
                                    parent_generics=parse_generics(mo.group(3), 'kotlin')[0])
                else:
                    vname, esc = unbacktick(c2[md.start(1):md.end(1)])
                    ty = c2[md.start(4):md.end(4)]
                    v = new_variant(vname, l2.no, escaped=esc, docs=vdocs, payload='newtype', type=ty, type_raw=ty,
                                    generics=parse_generics(md.group(2), 'kotlin')[0], content_key=c2[md.start(3):md.end(3)],
                                    parent=c2[md.start(5):md.end(5)], parent_generics=parse_generics(md.group(6), 'kotlin')[0])
                    d['content_keys'].append(v['content_key'])
                v['annotations'] = vann
                v['wire_name'] = serial       # None without @SerialName (kotlinx would use the qualified class name)
                v['wire_names'] = [serial] if serial is not None else []
                v['serial_name'] = serial
                if serial is None:
                    ctx.anomalies.append(f'{d["name"]}.{v["name"]}: variant class without @SerialName')
                d['variants'].append(v)
                span_of(d, vstart, l2.no)
                serial, vann = None, []
            else:
                ctx.anomalies.append(f'{d["name"]}: sealed class not closed')
            ctx.drop_docs()
            continue
        flush_annots()
        ctx.bad(ln)
        ctx.drop_docs()
    flush_annots()
    link_inner(ctx)
    for d in ctx.defs:
        parents = {v.get('parent') for v in d['variants']}
        if d['kind'] == 'enum' and len(parents) == 1:
            d['parent'] = parents.pop()       # the one class / trait all variants extend
        for v in d['variants']:
            if v.get('parent'):
                ctx.refs.append({'in': d['name'], 'position': 'parent', 'outer': 'parent', 'name': v['parent'], 'generic_param': False,
                                 'variant': v['name']})
            if v['payload'] == 'newtype':
                ctx.add_refs(d, 'payload', v['type'], d['generics'], variant=v['name'])
            elif v['payload'] == 'struct':
                ctx.add_refs(d, 'inner', v['type'], d['generics'], variant=v['name'])


# ------------------------------------------------------------------------------------------------
# Scala
#   header : [/** .. */] [package a.b /] package object c { ... } / package c { ... }   (the package clause only when the package
#            name has a parent: under `--scala-package p` the file starts with `package object p {` or `package p {`, /repo fix 30;
#            closers are attributed; a closer without opener - what a dotless name printed before the /repo fixes 17 / 30 - is
#            reported under 'anomalies', not 'unparsed')
#   alias  : type N[G] = T            (UByte UShort UInt ULong = ... are kind 'helper')
#   struct : case class N[G] ( \tn: T[ = _| = None][,] )     | class N extends Serializable
#   enum   : sealed trait N[G] { \tdef serialName: String } object N { \tcase object V extends P { \t\tval serialName: String = "w" \t}
#            \tcase class V[G](content: T) extends P[G] { ... } }
#   member.key_binding is always 'name' (Scala output carries no key binding)
#   member.optional_detail = {'option_type', 'default_none', 'default_underscore'}; optional = option_type or default_none
# ------------------------------------------------------------------------------------------------
SC_ALIAS = re.compile(r'^type ([^\s\[=]+)(\[[^=]*?\])? = (.+)$')
SC_CASE = re.compile(r'^case class ([^\s\[(]+)(\[.*\])? \($')
SC_EMPTY = re.compile(r'^class (\S+) extends Serializable$')
SC_TRAIT = re.compile(r'^sealed trait ([^\s\[{]+)(\[.*\])? \{$')
SC_OBJECT = re.compile(r'^object (\S+) \{$')
SC_MEMBER = re.compile(r'^\t([^:]+?): (.*?)(,)?$')
SC_VOBJ = re.compile(r'^\tcase object (\S+) extends ([^\s\[{]+)(\[.*\])? \{$')
SC_VCLASS = re.compile(r'^\tcase class ([^\s\[(]+?)(\[[^(]*\])?\(([^:]*?): (.*)\) extends ([^\s\[{]+)(\[.*\])? \{$')
SC_SERIAL = re.compile(r'^\t\tval serialName: String = (' + STR + r')$')
SC_UNSIGNED = {'UByte', 'UShort', 'UInt', 'ULong'}


def strip_wrapper(ty, head, open_, close):
    """'Option[X]' -> 'X' when the bracket opened after head closes at the very end, else None"""
    if not ty.startswith(head + open_) or not ty.endswith(close):
        return None
    depth = 0
    for k in range(len(head), len(ty)):
        if ty[k] == open_:
            depth += 1
        elif ty[k] == close:
            depth -= 1
            if depth == 0:
                return ty[len(head) + 1:-1] if k == len(ty) - 1 else None
    return None


def sc_split_type(rest):
    default = None
    ty_raw = rest
    m = re.search(r' = (_|None)$', rest)
    if m:
        default = m.group(1)
        ty_raw = rest[:m.start()]
    inner = strip_wrapper(ty_raw, 'Option', '[', ']')
    detail = {'option_type': inner is not None, 'default_none': default == 'None', 'default_underscore': default == '_'}
    return (inner if inner is not None else ty_raw), ty_raw, default, detail


def ex_scala(ctx):
    L = ctx.lines
    i, n = 0, len(L)
    seen = False
    open_pk = []
    ctx.scala_packages = []
    while i < n:
        ln = L[i]
        i += 1
        if skip_trivia(ctx, ln, seen):
            continue
        mask, code = ln.mask, ln.code
        if (m := re.match(r'^package (object )?(\S+) \{$', mask)):
            ln.used = True
            if ctx.pending_docs and not seen and is_version_header([t for _, t in ctx.pending_docs]):
                ctx.header += [t for _, t in ctx.pending_docs]
                ctx.pending_docs = []
            ctx.drop_docs()
            open_pk.append(m.group(2))
            ctx.scala_packages.append(('object ' if m.group(1) else '') + m.group(2))
            if not seen:
                ctx.header.append(ln.raw)
            continue
        if not seen and (m := re.match(r'^package (\S+)$', mask)):
            ln.used = True
            if ctx.pending_docs and is_version_header([t for _, t in ctx.pending_docs]):
                ctx.header += [t for _, t in ctx.pending_docs]
                ctx.pending_docs = []
            ctx.drop_docs()
            ctx.header.append(ln.raw)
            continue
        if mask == '}':
            ln.used = True
            ctx.drop_docs()
            if open_pk:
                open_pk.pop()
            else:
                ctx.anomalies.append(f'{ln.no}: package closer without opener')
            continue
        seen = True
        if (m := SC_ALIAS.match(mask)):
            ln.used = True
            docs, dstart = ctx.take_docs()
            gens, _ = parse_generics(m.group(2), 'scala')
            name = code[m.start(1):m.end(1)]
            ty = code[m.start(3):m.end(3)]
            helper = name in SC_UNSIGNED and not gens and not docs
            d = new_def('helper' if helper else 'alias', name, ln.no, generics=gens, docs=docs, type=ty, type_raw=ty,
                        in_package_object=bool(open_pk))
            span_of(d, dstart)
            ctx.defs.append(d)
            if helper:
                ctx.define(name)
            else:
                ctx.add_refs(d, 'alias', ty, gens)
            continue
        if (m := SC_EMPTY.match(mask)):
            ln.used = True
            docs, dstart = ctx.take_docs()
            d = new_def('struct', m.group(1), ln.no, docs=docs, form='class')
            span_of(d, dstart)
            ctx.defs.append(d)
            continue
        if (m := SC_CASE.match(mask)):
            ln.used = True
            docs, dstart = ctx.take_docs()
            gens, _ = parse_generics(m.group(2), 'scala')
            d = new_def('struct', m.group(1), ln.no, generics=gens, docs=docs, form='case class')
            span_of(d, dstart)
            ctx.defs.append(d)
            closed = False
            while i < n:
                l2 = L[i]
                if l2.mask == ')' and not l2.comments:
                    l2.used = True
                    span_of(d, l2.no)
                    i += 1
                    closed = True
                    break
                if l2.code.strip() == '' and (l2.comments or l2.cont):
                    skip_trivia(ctx, l2, True)
                    i += 1
                    continue
                if l2.code.strip() == '':
                    l2.used = True
                    ctx.drop_docs()
                    i += 1
                    continue
                mm = None if l2.comments else SC_MEMBER.match(l2.mask)
                if not mm:
                    if ctx.stray(l2, d['name']):
                        i += 1
                        continue
                    break
                l2.used = True
                i += 1
                mdocs, mstart = ctx.take_docs()
                name, esc = unbacktick(l2.code[mm.start(1):mm.end(1)])
                ty, ty_raw, default, detail = sc_split_type(l2.code[mm.start(2):mm.end(2)])
                d['members'].append(new_member(name, l2.no, escaped=esc, docs=mdocs, type=ty, type_raw=ty_raw, default=default,
                                               optional_detail=detail, optional=detail['option_type'] or detail['default_none'],
                                               trailing_comma=bool(mm.group(3))))
                span_of(d, mstart, l2.no)
                ctx.add_refs(d, 'field', ty, gens, member=name)
            if not closed:
                ctx.anomalies.append(f'{d["name"]}: case class not closed')
            ctx.drop_docs()
            continue
        if (m := SC_TRAIT.match(mask)):
            ln.used = True
            docs, dstart = ctx.take_docs()
            gens, _ = parse_generics(m.group(2), 'scala')
            d = new_def('enum', m.group(1), ln.no, generics=gens, docs=docs, algebraic=None)
            span_of(d, dstart)
            ctx.defs.append(d)
            ok = (i + 2 < n and L[i].mask == '\tdef serialName: String' and L[i + 1].mask == '}' and not L[i].comments and not L[i + 1].comments
                  and (mo := SC_OBJECT.match(L[i + 2].mask)) and not L[i + 2].comments)
            if not ok:
                ctx.anomalies.append(f'{d["name"]}: sealed trait without the serialName/companion template')
                continue
            for k in range(3):
                L[i + k].used = True
            d['companion'] = mo.group(1)
            i += 3
            closed = False
            while i < n:
                l2 = L[i]
                if l2.mask == '}' and not l2.comments:
                    l2.used = True
                    span_of(d, l2.no)
                    i += 1
                    closed = True
                    break
                if l2.code.strip() == '' and (l2.comments or l2.cont):
                    skip_trivia(ctx, l2, True)
                    i += 1
                    continue
                if l2.code.strip() == '':
                    l2.used = True
                    ctx.drop_docs()
                    i += 1
                    continue
                mo2 = None if l2.comments else SC_VOBJ.match(l2.mask)
                mc = None if mo2 or l2.comments else SC_VCLASS.match(l2.mask)
                if (not mo2 and not mc) or not (i + 2 < n and (msn := SC_SERIAL.match(L[i + 1].mask)) and L[i + 2].mask == '\t}'
                                                and not L[i + 1].comments and not L[i + 2].comments):
                    if ctx.stray(l2, d['name']):
                        i += 1
                        continue
                    break
                c2 = l2.code
                vdocs, vstart = ctx.take_docs()
                w = lit_value(L[i + 1].code[msn.start(1):msn.end(1)])
                if mo2:
                    v = new_variant(mo2.group(1), l2.no, docs=vdocs, parent=mo2.group(2), parent_generics=parse_generics(mo2.group(3), 'scala')[0],
                                    form='case object')
                else:
                    ty = c2[mc.start(4):mc.end(4)]
                    v = new_variant(mc.group(1), l2.no, docs=vdocs, payload='newtype', type=ty, type_raw=ty,
                                    generics=parse_generics(mc.group(2), 'scala')[0], content_key=c2[mc.start(3):mc.end(3)],
                                    parent=mc.group(5), parent_generics=parse_generics(mc.group(6), 'scala')[0], form='case class')
                    d['content_keys'].append(v['content_key'])
                v['wire_name'] = w
                v['wire_names'] = [w]
                d['variants'].append(v)
                for k in range(3):
                    L[i + k].used = True
                span_of(d, vstart, L[i + 2].no)
                i += 3
            if not closed:
                ctx.anomalies.append(f'{d["name"]}: companion object not closed')
            d['algebraic'] = any(v['payload'] != 'unit' for v in d['variants']) or None
            ctx.drop_docs()
            continue
        ctx.bad(ln)
        ctx.drop_docs()
    if open_pk:
        ctx.anomalies.append(f'package not closed: {open_pk}')
    link_inner(ctx)
    for d in ctx.defs:
        parents = {v.get('parent') for v in d['variants']}
        if d['kind'] == 'enum' and len(parents) == 1:
            d['parent'] = parents.pop()       # the one class / trait all variants extend
        for v in d['variants']:
            if v.get('parent'):
                ctx.refs.append({'in': d['name'], 'position': 'parent', 'outer': 'parent', 'name': v['parent'], 'generic_param': False,
                                 'variant': v['name']})
            if v['payload'] == 'newtype':
                ctx.add_refs(d, 'payload', v['type'], d['generics'], variant=v['name'])
            elif v['payload'] == 'struct':
                ctx.add_refs(d, 'inner', v['type'], d['generics'], variant=v['name'])


# ------------------------------------------------------------------------------------------------
# Swift
#   struct : public struct N<G: C & D>: DECS { \tpublic let n: T[?] ... [CodingKeys] \tpublic init(..) {..} }
#            (the CodingKeys enum and the initialiser belong to the struct: 'coding_keys', 'init_params', 'init_assignments')
#   alias  : public typealias N<G> = T
#   enum   : public [indirect ]enum N<G>: DECS { \tcase v[ = "w"] | \tcase v(T) ... [CodingKeys] [ContainerCodingKeys, init(from:), encode(to:)] }
#            algebraic <=> the ContainerCodingKeys block is present; wire names of an algebraic enum come from CodingKeys
#   helper : public struct CodableVoid: DECS {}
#   member.key_binding = 'coding_key' when the struct has a CodingKeys enum (wire_key = raw value, else the case name), else 'name'
#   member.optional_detail = {'question'}
# ------------------------------------------------------------------------------------------------
SW_STRUCT = re.compile(r'^public struct ([^\s<:]+)(<.*?>)?: (.*) \{(\})?$')
SW_ENUM = re.compile(r'^public (indirect )?enum ([^\s<:]+)(<.*?>)?: (.*) \{$')
SW_ALIAS = re.compile(r'^public typealias ([^\s<=]+)(<[^=]*?>)? = (.+)$')
SW_LET = re.compile(r'^\tpublic let ([^:]+?): (.*)$')
SW_INIT = re.compile(r'^\tpublic init\((.*)\) \{(\})?$')
SW_ASSIGN = re.compile(r'^\t\tself\.(.+?) = (.+)$')
SW_CASE_RAW = re.compile(r'^\tcase (\S+) = (' + STR + r')$')
SW_CASE = re.compile(r'^\tcase ([^\s(]+)(\((.*)\))?$')
SW_CK_OPEN = '\tenum CodingKeys: String, CodingKey, Codable {'
SW_CCK_OPEN = '\tprivate enum ContainerCodingKeys: String, CodingKey {'
SW_CK_ITEM = re.compile(r'^(\t\tcase |\t\t\t)([^\s=,]+)( = (' + STR + r'))?(,)?$')
SW_FORKEY = re.compile(r'container\.(decode|decodeNil|encode)\((.*?)forKey: \.(.*?)\)( \{|, isNil \{)?$')
SW_CASEDOT = re.compile(r'^\s*case \.([^\s(:]+)(\(let content\))?:$')


def sw_coding_keys(ctx, i, owner):
    """the CodingKeys block starting at line index i -> (next index, [(case name, escaped, raw value or None)]) or (i, None)"""
    L = ctx.lines
    n = len(L)
    if i >= n or L[i].mask != SW_CK_OPEN or L[i].comments:
        return i, None
    j = i + 1
    items = []
    while j < n:
        l2 = L[j]
        if l2.mask == '\t}' and not l2.comments:
            for k in range(i, j + 1):
                L[k].used = True
            return j + 1, items
        m = None if l2.comments else SW_CK_ITEM.match(l2.mask)
        if not m:
            break
        nm, esc = unbacktick(l2.code[m.start(2):m.end(2)])
        items.append((nm, esc, lit_value(l2.code[m.start(4):m.end(4)]) if m.group(3) else None))
        j += 1
    ctx.anomalies.append(f'{owner}: CodingKeys block not understood')
    return i, None


def ex_swift(ctx):
    L = ctx.lines
    i, n = 0, len(L)
    seen = False
    while i < n:
        ln = L[i]
        i += 1
        if skip_trivia(ctx, ln, seen):
            continue
        mask, code = ln.mask, ln.code
        if (m := re.match(r'^import (\S+)$', mask)):
            ln.used = True
            if ctx.pending_docs and not seen and is_version_header([t for _, t in ctx.pending_docs]):
                ctx.header += [t for _, t in ctx.pending_docs]
                ctx.pending_docs = []
            ctx.drop_docs()
            ctx.header.append(ln.raw)
            ctx.imports.append(m.group(1))
            ctx.define(m.group(1))
            continue
        seen = True
        if (m := SW_ALIAS.match(mask)):
            ln.used = True
            docs, dstart = ctx.take_docs()
            gens, _ = parse_generics(m.group(2), 'swift')
            name, esc = unbacktick(code[m.start(1):m.end(1)])
            ty = code[m.start(3):m.end(3)]
            d = new_def('alias', name, ln.no, escaped=esc, generics=gens, docs=docs, type=ty, type_raw=ty)
            span_of(d, dstart)
            ctx.defs.append(d)
            ctx.add_refs(d, 'alias', ty, gens)
            continue
        if (m := SW_STRUCT.match(mask)):
            ln.used = True
            docs, dstart = ctx.take_docs()
            gens, cons = parse_generics(m.group(2), 'swift')
            name, esc = unbacktick(code[m.start(1):m.end(1)])
            decs = [x.strip() for x in code[m.start(3):m.end(3)].split(',')]
            if m.group(4):        # one-line form: only CodableVoid is printed like that
                d = new_def('helper' if name == 'CodableVoid' else 'struct', name, ln.no, escaped=esc, generics=gens, docs=docs,
                            conformances=decs, generic_constraints=cons)
                span_of(d, dstart)
                ctx.defs.append(d)
                if name == 'CodableVoid':
                    ctx.define(name)
                continue
            d = new_def('struct', name, ln.no, escaped=esc, generics=gens, docs=docs, conformances=decs, generic_constraints=cons,
                        coding_keys=None, init_params=None, init_assignments=[])
            span_of(d, dstart)
            ctx.defs.append(d)
            closed = False
            while i < n:
                l2 = L[i]
                if l2.mask == '}' and not l2.comments:
                    l2.used = True
                    span_of(d, l2.no)
                    i += 1
                    closed = True
                    break
                if l2.code.strip() == '':
                    if l2.comments or l2.cont:
                        skip_trivia(ctx, l2, True)
                    else:
                        l2.used = True
                        ctx.drop_docs()
                    i += 1
                    continue
                if l2.comments:
                    if ctx.stray(l2, name):
                        i += 1
                        continue
                    break
                if (mm := SW_LET.match(l2.mask)) and d['init_params'] is None:
                    l2.used = True
                    i += 1
                    mdocs, mstart = ctx.take_docs()
                    nm, mesc = unbacktick(l2.code[mm.start(1):mm.end(1)])
                    ty_raw = l2.code[mm.start(2):mm.end(2)]
                    q = ty_raw.endswith('?')
                    d['members'].append(new_member(nm, l2.no, escaped=mesc, docs=mdocs, type=ty_raw[:-1] if q else ty_raw, type_raw=ty_raw,
                                                   optional=q, optional_detail={'question': q}))
                    span_of(d, mstart, l2.no)
                    ctx.add_refs(d, 'field', ty_raw, gens, member=nm)
                    continue
                if l2.mask == SW_CK_OPEN and d['coding_keys'] is None:
                    j, items = sw_coding_keys(ctx, i, name)
                    if items is None:
                        ctx.bad(l2, f'in {name}')
                        i += 1
                        continue
                    d['coding_keys'] = [{'name': a, 'escaped': b, 'raw': c} for a, b, c in items]
                    i = j
                    continue
                if (mi := SW_INIT.match(l2.mask)) and d['init_params'] is None:
                    l2.used = True
                    i += 1
                    ptxt = l2.code[mi.start(1):mi.end(1)]
                    params = []
                    for p in (split_top(ptxt) if ptxt.strip() else []):
                        p = p.strip()
                        if ': ' in p:
                            params.append(tuple(p.split(': ', 1)))
                        else:
                            params.append((p, None))
                    d['init_params'] = params
                    if mi.group(2):
                        continue
                    while i < n:
                        l3 = L[i]
                        if (ma := SW_ASSIGN.match(l3.mask)) and not l3.comments:
                            l3.used = True
                            d['init_assignments'].append((ma.group(1), ma.group(2)))
                            i += 1
                            continue
                        break
                    if i < n and L[i].mask == '\t}' and not L[i].comments:
                        L[i].used = True
                        i += 1
                    else:
                        ctx.anomalies.append(f'{name}: initialiser not closed')
                    continue
                if ctx.stray(l2, name):
                    i += 1
                    continue
                break
            if not closed:
                ctx.anomalies.append(f'{name}: struct not closed')
            ctx.drop_docs()
            # key binding
            if d['coding_keys'] is not None:
                ck = {c['name']: c for c in d['coding_keys']}
                # the i-th case belongs to the i-th stored property when the two name lists agree (this is
                # the template; it matters only when two properties carry the same identifier), else by name
                positional = [c['name'] for c in d['coding_keys']] == [mm_['name'] for mm_ in d['members']]
                for k_, mem in enumerate(d['members']):
                    mem['key_binding'] = 'coding_key'
                    c = d['coding_keys'][k_] if positional else ck.get(mem['name'])
                    if c is None:
                        mem['wire_key'] = None
                        ctx.anomalies.append(f'{name}.{mem["name"]}: no CodingKeys case')
                    else:
                        mem['wire_key'] = c['raw'] if c['raw'] is not None else c['name']
                if [c['name'] for c in d['coding_keys']] != [mm_['name'] for mm_ in d['members']]:
                    ctx.anomalies.append(f'{name}: CodingKeys cases differ from the stored properties')
            continue
        if (m := SW_ENUM.match(mask)):
            ln.used = True
            docs, dstart = ctx.take_docs()
            gens, cons = parse_generics(m.group(3), 'swift')
            name, esc = unbacktick(code[m.start(2):m.end(2)])
            decs = [x.strip() for x in code[m.start(4):m.end(4)].split(',')]
            d = new_def('enum', name, ln.no, escaped=esc, generics=gens, docs=docs, conformances=decs, generic_constraints=cons,
                        indirect=bool(m.group(1)), algebraic=False, coding_keys=None, decode_cases=[], encode_cases=[])
            span_of(d, dstart)
            ctx.defs.append(d)
            closed = False
            while i < n:
                l2 = L[i]
                if l2.mask == '}' and not l2.comments:
                    l2.used = True
                    span_of(d, l2.no)
                    i += 1
                    closed = True
                    break
                if l2.code.strip() == '':
                    if l2.comments or l2.cont:
                        skip_trivia(ctx, l2, True)
                    else:
                        l2.used = True
                        ctx.drop_docs()
                    i += 1
                    continue
                if l2.comments:
                    if ctx.stray(l2, name):
                        i += 1
                        continue
                    break
                c2 = l2.code
                if (mr := SW_CASE_RAW.match(l2.mask)) and not d['algebraic']:
                    l2.used = True
                    i += 1
                    vdocs, vstart = ctx.take_docs()
                    nm, vesc = unbacktick(c2[mr.start(1):mr.end(1)])
                    w = lit_value(c2[mr.start(2):mr.end(2)])
                    d['variants'].append(new_variant(nm, l2.no, escaped=vesc, docs=vdocs, wire_name=w, wire_names=[w], raw_value=w))
                    span_of(d, vstart, l2.no)
                    continue
                if (mc := SW_CASE.match(l2.mask)) and not d['algebraic']:
                    l2.used = True
                    i += 1
                    vdocs, vstart = ctx.take_docs()
                    nm, vesc = unbacktick(c2[mc.start(1):mc.end(1)])
                    v = new_variant(nm, l2.no, escaped=vesc, docs=vdocs, raw_value=None)
                    if mc.group(2):
                        v['payload'] = 'newtype'
                        v['type'] = v['type_raw'] = c2[mc.start(3):mc.end(3)]
                    d['variants'].append(v)
                    span_of(d, vstart, l2.no)
                    continue
                if l2.mask == SW_CK_OPEN and d['coding_keys'] is None:
                    j, items = sw_coding_keys(ctx, i, name)
                    if items is None:
                        ctx.bad(l2, f'in {name}')
                        i += 1
                        continue
                    d['coding_keys'] = [{'name': a, 'escaped': b, 'raw': c} for a, b, c in items]
                    i = j
                    continue
                if l2.mask == SW_CCK_OPEN and not d['algebraic']:
                    if not (i + 2 < n and (mk := re.match(r'^\t\tcase (.*?), (.*)$', L[i + 1].mask)) and L[i + 2].mask == '\t}'):
                        ctx.bad(l2, f'in {name}')
                        i += 1
                        continue
                    d['algebraic'] = True
                    # the two cases of ContainerCodingKeys are DECLARING positions: a key that is a Swift keyword is written in
                    # back ticks there (and after `forKey: .`); the wire key is the raw value of the case = the bare name
                    tk, tesc = unbacktick(L[i + 1].code[mk.start(1):mk.end(1)])
                    ck, cesc = unbacktick(L[i + 1].code[mk.start(2):mk.end(2)])
                    d['tag_keys'].append(tk)
                    d['content_keys'].append(ck)
                    d['container_keys'] = [{'name': tk, 'escaped': tesc, 'role': 'tag'}, {'name': ck, 'escaped': cesc, 'role': 'content'}]
                    for k in range(3):
                        L[i + k].used = True
                    i += 3
                    continue
                if d['algebraic'] and l2.mask in ('\tpublic init(from decoder: Decoder) throws {', '\tpublic func encode(to encoder: Encoder) throws {'):
                    which = 'decode_cases' if 'init(from' in l2.mask else 'encode_cases'
                    l2.used = True
                    i += 1
                    ended = False
                    while i < n:
                        l3 = L[i]
                        if l3.comments:
                            break
                        l3.used = True
                        i += 1
                        if l3.mask == '\t}':
                            ended = True
                            break
                        if (mf := SW_FORKEY.search(l3.mask)):
                            what = l3.code[mf.start(2):mf.end(2)]
                            # (a member access may spell a keyword with or without back ticks: SE-0071; the key is the bare name)
                            key = unbacktick(l3.code[mf.start(3):mf.end(3)])[0]
                            if what.startswith('CodingKeys.'):
                                d['tag_keys'].append(key)
                            else:
                                d['content_keys'].append(key)
                        elif 'forKey' in l3.mask:
                            ctx.anomalies.append(f'{l3.no}: forKey use not understood')
                        if (mcd := SW_CASEDOT.match(l3.mask)):
                            d[which].append(unbacktick(l3.code[mcd.start(1):mcd.end(1)])[0])
                    if not ended:
                        ctx.anomalies.append(f'{name}: {which[:6]} function not closed')
                    continue
                if ctx.stray(l2, name):
                    i += 1
                    continue
                break
            if not closed:
                ctx.anomalies.append(f'{name}: enum not closed')
            ctx.drop_docs()
            if d['algebraic']:
                ck = {c['name']: c for c in (d['coding_keys'] or [])}
                for v in d['variants']:
                    c = ck.get(v['name'])
                    if c is None:
                        v['wire_name'] = None
                        ctx.anomalies.append(f'{name}.{v["name"]}: no CodingKeys case')
                    else:
                        v['wire_name'] = c['raw'] if c['raw'] is not None else c['name']
                        v['wire_names'] = [v['wire_name']]
                if [c['name'] for c in (d['coding_keys'] or [])] != [v['name'] for v in d['variants']]:
                    ctx.anomalies.append(f'{name}: CodingKeys cases differ from the enum cases')
            else:
                for v in d['variants']:
                    if v['payload'] != 'unit':
                        ctx.anomalies.append(f'{name}.{v["name"]}: payload case in an enum without ContainerCodingKeys')
            continue
        ctx.bad(ln)
        ctx.drop_docs()
    link_inner(ctx)
    for d in ctx.defs:
        for v in d['variants']:
            if v['payload'] == 'newtype':
                ctx.add_refs(d, 'payload', v['type'], d['generics'], variant=v['name'])
            elif v['payload'] == 'struct':
                ctx.add_refs(d, 'inner', v['type'], d['generics'], variant=v['name'])


# ------------------------------------------------------------------------------------------------
# Go
#   struct : type N[T any] struct { \tField [*]T `json:"key[,omitempty]"` }
#   alias  : type N T
#   enum   : type N string / const ( \tNV N = "w" )                                         (unit)
#            type NTags string / const ( \tC NTags = "w" ) / type N struct{ \tTag NTags `json:"tag"` \tcontent interface{} } /
#            UnmarshalJSON, MarshalJSON, accessors, constructors        (algebraic; NTags is a kind 'helper' definition, 'helper_of': N)
#            payload types are read from the `case C:` arms of UnmarshalJSON (`var res T` / `return nil`)
#   const  : const N T = v
#   member.name is the Go field name (PascalCase of the Rust name), wire_key the json tag key, key_binding 'json_tag'
#   member.optional_detail = {'pointer', 'omitempty'}; optional = either
# ------------------------------------------------------------------------------------------------
GO_STRUCT = re.compile(r'^type ([^\s\[]+)(\[.*\])? struct \{$')
GO_ESTRUCT = re.compile(r'^type (\S+) struct\{ $')
GO_TYPE = re.compile(r'^type (\S+) (.+)$')
GO_CONST = re.compile(r'^const (\S+) (.*?) = (.*)$')
GO_FIELD = re.compile(r'^\t(\S+) (.*) (`' + SM + r'*`)$')
GO_CONSTVAR = re.compile(r'^\t(\S+) (\S+) = (' + STR + r')$')
GO_TAG = re.compile(r'^`json:"(.*)"`$')
GO_FUNC = re.compile(r'^func (\((\S+) (\*?)(\S+)\) )?(\S+?)\((.*?)\) (.*) \{$')


def go_tag(lit):
    """`json:"key,opts"` -> (key, [opts]) ; None when the literal is not a json tag"""
    m = GO_TAG.match(lit)
    if not m:
        return None
    body = unescape(m.group(1))
    parts = body.split(',')
    return parts[0], parts[1:], m.group(1)


def ex_go(ctx):
    L = ctx.lines
    i, n = 0, len(L)
    seen = False

    def const_block(i, d, keytype):
        """entries of a `const (` block whose opener is at L[i-1]; -> next index or None"""
        while i < n:
            l2 = L[i]
            if l2.mask == ')' and not l2.comments:
                l2.used = True
                span_of(d, l2.no)
                return i + 1
            if l2.code.strip() == '' and (l2.comments or l2.cont):
                skip_trivia(ctx, l2, True)
                i += 1
                continue
            mv = None if l2.comments else GO_CONSTVAR.match(l2.mask)
            if not mv:
                if l2.code.strip() == '':
                    l2.used = True
                    ctx.drop_docs()
                    i += 1
                    continue
                if ctx.stray(l2, f'const block of {keytype}'):
                    i += 1
                    continue
                return None
            l2.used = True
            i += 1
            vdocs, vstart = ctx.take_docs()
            w = lit_value(l2.code[mv.start(3):mv.end(3)])
            v = new_variant(mv.group(1), l2.no, docs=vdocs, wire_name=w, wire_names=[w], const_type=mv.group(2))
            if mv.group(2) != keytype:
                ctx.anomalies.append(f'{l2.no}: constant of type {mv.group(2)} in the block of {keytype}')
            d['variants'].append(v)
            span_of(d, vstart, l2.no)
        return None

    while i < n:
        ln = L[i]
        i += 1
        if skip_trivia(ctx, ln, seen):
            continue
        mask, code = ln.mask, ln.code
        if not seen and (m := re.match(r'^package (\S+)$', mask)):
            ln.used = True
            texts = [t for _, t in ctx.pending_docs]
            if is_version_header(texts):
                ctx.header += texts
                ctx.pending_docs = []
            ctx.drop_docs()
            ctx.header.append(ln.raw)
            continue
        if not seen and (m := re.match(r'^import (' + STR + r')$', mask)):
            ln.used = True
            p = lit_value(code[m.start(1):m.end(1)])
            ctx.imports.append(p)
            ctx.define(p.split('/')[-1])
            ctx.header.append(ln.raw)
            continue
        if not seen and mask == 'import (':
            ln.used = True
            ctx.header.append(ln.raw)
            while i < n:
                l2 = L[i]
                i += 1
                if l2.mask == ')':
                    l2.used = True
                    ctx.header.append(l2.raw)
                    break
                if (m := re.match(r'^\t(' + STR + r')$', l2.mask)) and not l2.comments:
                    l2.used = True
                    p = lit_value(l2.code[m.start(1):m.end(1)])
                    ctx.imports.append(p)
                    ctx.define(p.split('/')[-1])
                    ctx.header.append(l2.raw)
                    continue
                i -= 1
                ctx.anomalies.append('import block not closed')
                break
            continue
        seen = True
        if (m := GO_STRUCT.match(mask)):
            ln.used = True
            docs, dstart = ctx.take_docs()
            gens, _ = parse_generics(m.group(2), 'go')
            d = new_def('struct', m.group(1), ln.no, generics=gens, docs=docs)
            span_of(d, dstart)
            ctx.defs.append(d)
            closed = False
            while i < n:
                l2 = L[i]
                if l2.mask == '}' and not l2.comments:
                    l2.used = True
                    span_of(d, l2.no)
                    i += 1
                    closed = True
                    break
                if l2.code.strip() == '' and (l2.comments or l2.cont):
                    skip_trivia(ctx, l2, True)
                    i += 1
                    continue
                mf = None if l2.comments else GO_FIELD.match(l2.mask)
                tag = go_tag(l2.code[mf.start(3):mf.end(3)]) if mf else None
                if not mf or tag is None:
                    if l2.code.strip() == '':
                        l2.used = True
                        ctx.drop_docs()
                        i += 1
                        continue
                    if ctx.stray(l2, d['name']):
                        i += 1
                        continue
                    break
                l2.used = True
                i += 1
                mdocs, mstart = ctx.take_docs()
                ty_raw = l2.code[mf.start(2):mf.end(2)]
                ptr = ty_raw.startswith('*')
                omit = 'omitempty' in tag[1]
                d['members'].append(new_member(mf.group(1), l2.no, docs=mdocs, wire_key=tag[0], key_binding='json_tag',
                                               type=ty_raw[1:] if ptr else ty_raw, type_raw=ty_raw, optional=ptr or omit,
                                               optional_detail={'pointer': ptr, 'omitempty': omit}, tag_options=tag[1], tag_raw=tag[2]))
                span_of(d, mstart, l2.no)
                ctx.add_refs(d, 'field', ty_raw, gens, member=mf.group(1))
            if not closed:
                ctx.anomalies.append(f'{d["name"]}: struct not closed')
            ctx.drop_docs()
            continue
        if (m := GO_CONST.match(mask)):
            ln.used = True
            docs, dstart = ctx.take_docs()
            d = new_def('const', m.group(1), ln.no, docs=docs, type=code[m.start(2):m.end(2)], type_raw=code[m.start(2):m.end(2)],
                        value=code[m.start(3):m.end(3)])
            span_of(d, dstart)
            ctx.defs.append(d)
            ctx.add_refs(d, 'const', d['type'], [])
            continue
        if (m := GO_TYPE.match(mask)) and not GO_ESTRUCT.match(mask):
            name, rhs = m.group(1), code[m.start(2):m.end(2)]
            if rhs == 'string' and i < n and L[i].mask == 'const (' and not L[i].comments:
                ln.used = True
                L[i].used = True
                docs, dstart = ctx.take_docs()
                d = new_def('enum', name, ln.no, docs=docs, algebraic=False)
                span_of(d, dstart, L[i].no)
                j = const_block(i + 1, d, name)
                if j is None:
                    ctx.defs.append(d)
                    ctx.anomalies.append(f'{name}: const block not understood')
                    i += 1
                    ctx.drop_docs()
                    continue
                i = j
                me = GO_ESTRUCT.match(L[i].mask) if i < n and not L[i].comments else None
                if not me:
                    ctx.defs.append(d)
                    ctx.drop_docs()
                    continue
                # algebraic enum: the block so far was the variant-key type
                helper = new_def('helper', name, ln.no, docs=[], type='string', type_raw='string', helper_of=me.group(1))
                helper['span'] = d['span']
                ctx.defs.append(helper)
                ctx.define(name)
                e = new_def('enum', me.group(1), d['span'][0], docs=d['docs'], algebraic=True, variants=d['variants'], key_type=name,
                            tag_field=None, content_field=None, accessors=[], constructors=[])
                ctx.defs.append(e)
                L[i].used = True
                ok = False
                if i + 3 < n:
                    mt = GO_FIELD.match(L[i + 1].mask)
                    tag = go_tag(L[i + 1].code[mt.start(3):mt.end(3)]) if mt else None
                    mc = re.match(r'^\t(\S+) interface\{\}$', L[i + 2].mask)
                    if mt and tag and mc and L[i + 3].mask == '}' and not any(L[i + k].comments for k in (1, 2, 3)):
                        ok = True
                        e['tag_field'] = mt.group(1)
                        e['content_field'] = mc.group(1)
                        e['tag_keys'].append(tag[0])
                        if mt.group(2) != name:
                            ctx.anomalies.append(f'{e["name"]}: tag field of type {mt.group(2)}, expected {name}')
                        for k in (1, 2, 3):
                            L[i + k].used = True
                        i += 4
                if not ok:
                    ctx.anomalies.append(f'{e["name"]}: enum struct not understood')
                    i += 1
                    span_of(e, L[i - 1].no)
                    continue
                # functions that belong to the enum
                byconst = {v['name']: v for v in e['variants']}
                while i < n:
                    l2 = L[i]
                    if l2.code.strip() == '' and not l2.comments and not l2.cont:
                        i += 1
                        continue
                    mf = None if l2.comments else GO_FUNC.match(l2.mask)
                    if not mf:
                        break
                    recv, fname = mf.group(4), mf.group(5)
                    if recv is not None and recv != e['name']:
                        break
                    if recv is None and not (fname.startswith('New') and fname[3:] in byconst and mf.group(7) == e['name']):
                        break
                    # body: up to the closing brace in column 0
                    j = i + 1
                    while j < n and L[j].mask != '}':
                        j += 1
                    if j >= n:
                        ctx.anomalies.append(f'{e["name"]}: function {fname} not closed')
                        break
                    body = L[i + 1:j]
                    if any(b.comments for b in body):
                        ctx.anomalies.append(f'{e["name"]}: comment inside function {fname}')
                        break
                    for k in range(i, j + 1):
                        L[k].used = True
                    span_of(e, L[j].no)
                    if fname in ('UnmarshalJSON', 'MarshalJSON') and recv is not None:
                        cur = None
                        for b in body:
                            if (mtag := re.match(r'^\t\tTag    (\S+)   (`' + SM + r'*`)$', b.mask)):
                                t = go_tag(b.code[mtag.start(2):mtag.end(2)])
                                if t:
                                    e['tag_keys'].append(t[0])
                            elif (mcon := re.match(r'^\t\tContent (.*) (`' + SM + r'*`)$', b.mask)):
                                t = go_tag(b.code[mcon.start(2):mcon.end(2)])
                                if t:
                                    e['content_keys'].append(t[0])
                            elif fname == 'UnmarshalJSON' and (mcase := re.match(r'^\tcase (\S+):$', b.mask)):
                                cur = byconst.get(mcase.group(1))
                                if cur is None:
                                    ctx.anomalies.append(f'{b.no}: case of unknown constant {mcase.group(1)}')
                                else:
                                    cur['decoded'] = True
                            elif cur is not None and (mres := re.match(r'^\t\tvar res (.*)$', b.mask)):
                                cur['payload'] = 'newtype'
                                cur['type'] = cur['type_raw'] = b.code[mres.start(1):mres.end(1)]
                                cur = None
                            elif cur is not None and b.mask == '\t\treturn nil':
                                cur = None
                    elif recv is not None:
                        e['accessors'].append({'name': fname, 'returns': l2.code[mf.start(7):mf.end(7)]})
                    else:
                        e['constructors'].append({'name': fname, 'params': l2.code[mf.start(6):mf.end(6)]})
                    i = j + 1
                for v in e['variants']:
                    if not v.pop('decoded', False):
                        ctx.anomalies.append(f'{e["name"]}.{v["name"]}: no case in UnmarshalJSON')
                ctx.drop_docs()
                continue
            ln.used = True
            docs, dstart = ctx.take_docs()
            d = new_def('alias', name, ln.no, docs=docs, type=rhs, type_raw=rhs)
            span_of(d, dstart)
            ctx.defs.append(d)
            ctx.add_refs(d, 'alias', rhs, [])
            continue
        ctx.bad(ln)
        ctx.drop_docs()
    link_inner(ctx)
    for d in ctx.defs:
        for v in d['variants']:
            if v['payload'] == 'newtype':
                ctx.add_refs(d, 'payload', v['type'], d['generics'], variant=v['name'])
            elif v['payload'] == 'struct':
                ctx.add_refs(d, 'inner', v['type'], d['generics'], variant=v['name'])
        if d.get('algebraic') and d['kind'] == 'enum' and d.get('key_type'):
            ctx.use('json')


# ------------------------------------------------------------------------------------------------
# Python
#   header : ["""version"""] from __future__ import annotations / from x import a, b / T = TypeVar("T") (kind 'helper')
#            / def serialize_..(..): ... (kind 'helper')
#   struct : class N(BaseModel[, Generic[T]]): [docstring] [model_config = ConfigDict(populate_by_name=True)]
#                n: T[ = Field([alias="k"][, ][default=None])] [docstring] | pass
#   alias  : N = T   [docstring at indent 0 after it]; a generic alias spells its parameters only inside T (`N = List[T]`, used
#            as N[int]): 'generics' = the declared TypeVars that T mentions, in order of first occurrence (what Python makes the
#            alias's parameters).  The form N[G] = T of typeshare before the repair of write_type_alias (a subscript assignment,
#            not an alias declaration in Python) is still read - 'generics' = G, 'form': 'subscript' - so that a regression is
#            REPORTED by the checks that judge it (C10 grammar, C12 names) instead of being unreadable
#   enum   : class N(str, Enum): [docstring] KEY = "w" [docstring] | pass                              (unit)
#            class NTypes(str, Enum): KEY = "w" ... / class NV(BaseModel): [docstring] tag: Literal[NTypes.KEY] = NTypes.KEY [content: T]
#            ... / [# comments] / N = Union[NV, ...] | N = NV                    (algebraic; NTypes is kind 'helper', 'helper_of': N;
#            a variant's name is its class name; its wire_name is looked up by KEY in NTypes)
#   const  : N: T = v
#   docs come AFTER what they document (docstrings), except the '#' comments of an algebraic enum
#   member.key_binding = 'alias' when Field(alias=..) is present; optional_detail = {'optional_type', 'default_none'}; optional = either
#   member.type has Annotated[X, ...] reduced to X ('annotated': True) and then Optional[..] removed
# ------------------------------------------------------------------------------------------------
PY_KEYWORDS = {'False', 'None', 'True', 'and', 'as', 'assert', 'async', 'await', 'break', 'class', 'continue', 'def', 'del', 'elif', 'else', 'except',
               'finally', 'for', 'from', 'global', 'if', 'import', 'in', 'is', 'lambda', 'nonlocal', 'not', 'or', 'pass', 'raise', 'return', 'try',
               'while', 'with', 'yield'}
PY_CLASS = re.compile(r'^class ([^\s(]+)\((.*)\):$')
PY_FROM = re.compile(r'^from (\S+) import (.+)$')
PY_TYPEVAR = re.compile(r'^(\S+) = TypeVar\((' + STR + r')\)$')
PY_DEF = re.compile(r'^def ([A-Za-z_][A-Za-z0-9_]*)\(')
PY_ASSIGN = re.compile(r'^([^\s\[=:]+)(\[[^=]*?\])? = (.+)$')
PY_CONST = re.compile(r'^([^\s\[=:]+): (.+?) = (.+)$')
PY_MEMBER = re.compile(r'^    ([^\s:=]+): (.*?)( = Field\((.*)\))?$')
PY_FIELDARGS = re.compile(r'^(alias=(' + STR + r'))?(, )?(default=None)?$')
PY_TAGLINE = re.compile(r'^    (.+?): Literal\[([^\s.\]]+)\.([^\s\]]+)\] = ([^\s.]+)\.(\S+)$')
PY_ENUMVAR = re.compile(r'^    ([^\s=:]+) = (' + STR + r')$')
PY_CONFIG = '    model_config = ConfigDict(populate_by_name=True)'


def py_docstring(ctx, i, indent):
    """a docstring statement starting at line index i with the given indent -> (next index, [text lines]) or (i, None)"""
    L = ctx.lines
    n = len(L)
    ln = L[i]
    if ln.cont or ln.comments or ln.mask != indent + '"""':
        return i, None
    j = i + 1
    while j < n and L[j].cont:
        j += 1
    # lines i+1 .. j-1 are inside the string; the last of them holds the closer
    if j == i + 1:
        return i, None                     # opened and never continued (end of text)
    last = L[j - 1]
    k = last.mask.rfind('"""')
    if k == -1:                            # never closed
        return i, None
    tail = last.mask[k + 3:]
    if tail.strip() != '' or last.comments:
        return i, None                     # code after the closing quotes: not the template
    rows = [x.raw for x in L[i + 1:j - 1]]
    before = last.code[:k]
    if before.strip() != '':
        rows.append(before)
    texts = [r[len(indent):] if r.startswith(indent) else r for r in rows]
    for x in L[i:j]:
        x.used = True
    return j, texts


def py_split_type(ty_raw):
    ann = strip_wrapper(ty_raw, 'Annotated', '[', ']')
    annotated = ann is not None
    ty = split_top(ann)[0].strip() if annotated else ty_raw
    inner = strip_wrapper(ty, 'Optional', '[', ']')
    return (inner if inner is not None else ty), inner is not None, annotated


def ex_python(ctx):
    L = ctx.lines
    i, n = 0, len(L)
    seen = False
    typevars = set()
    group = None          # open algebraic enum: {'types': def, 'variants': [...], 'start': line}
    last_alias = None     # alias that may still receive its docstring

    def close_group(why):
        nonlocal group
        if group is not None:
            for v in group['variants']:
                ctx.unparsed.append(f'{v["line"]}: [variant class without its union: {why}] class {v["name"]}')
            group = None

    def refs(d, position, text, **extra):
        ctx.add_refs(d, position, text, set(d['generics']) | typevars, **extra)

    # the header docstring
    if n and L[0].mask == '"""':
        j, texts = py_docstring(ctx, 0, '')
        if texts is not None and is_version_header(texts):
            ctx.header += texts
            i = j
        elif texts is not None:
            for x in L[0:j]:
                x.used = False
    while i < n:
        ln = L[i]
        if ln.used:
            i += 1
            continue
        mask, code = ln.mask, ln.code
        if code.strip() == '' and not ln.comments and not ln.cont:
            ln.used = True
            i += 1
            if ctx.pending_docs:
                ctx.drop_docs()
            continue
        if code.strip() == '' and ln.comments and not ln.cont:
            ln.used = True
            for c in ln.comments:
                t = c['text'][1:]
                if c['col'] != 0:
                    ctx.unparsed.append(f'{ln.no}: indented comment: {c["text"]}')
                else:
                    ctx.pending_docs.append((ln.no, t[1:] if t.startswith(' ') else t))
            i += 1
            continue
        if ln.comments or ln.cont:
            ctx.bad(ln, 'code next to a comment' if ln.comments else 'inside a string literal')
            ctx.drop_docs()
            i += 1
            continue
        # ---- top-level docstring: belongs to the alias just before it
        if mask == '"""':
            j, texts = py_docstring(ctx, i, '')
            if texts is not None and last_alias is not None and not last_alias['docs']:
                last_alias['docs'] = texts
                span_of(last_alias, L[j - 1].no)
                last_alias = None
                i = j
                continue
            if texts is not None:
                for x in L[i:j]:
                    x.used = False
            ctx.bad(ln, 'docstring without owner')
            i += 1
            continue
        if (m := PY_FROM.match(mask)) and not seen:
            ln.used = True
            ctx.header.append(ln.raw)
            for nm in m.group(2).split(','):
                ctx.imports.append(nm.strip())
                ctx.define(nm.strip())
            ctx.imports_modules = getattr(ctx, 'imports_modules', []) + [m.group(1)]
            i += 1
            continue
        if (m := PY_TYPEVAR.match(mask)):
            ln.used = True
            d = new_def('helper', m.group(1), ln.no, form='typevar', value=lit_value(code[m.start(2):m.end(2)], True))
            ctx.defs.append(d)
            ctx.define(m.group(1))
            ctx.use('TypeVar')
            typevars.add(m.group(1))
            i += 1
            continue
        if (m := PY_DEF.match(mask)):
            ln.used = True
            d = new_def('helper', m.group(1), ln.no, form='function')
            ctx.defs.append(d)
            ctx.define(m.group(1))
            for ident in re.findall(r'\b(datetime|bytes)\b', mask):
                if ident == 'datetime':
                    ctx.use('datetime')
            i += 1
            last = ln.no
            while i < n:
                l2 = L[i]
                if l2.raw.strip() == '' or l2.raw[0] in ' \t':
                    if l2.raw.strip() != '':
                        last = l2.no
                    l2.used = True
                    i += 1
                    continue
                break
            span_of(d, last)
            continue
        last_alias_now, last_alias = last_alias, None
        if (m := PY_CLASS.match(mask)):
            seen = True
            ln.used = True
            name = code[m.start(1):m.end(1)]
            bases = code[m.start(2):m.end(2)]
            i += 1
            if bases == 'str, Enum':
                ctx.use('Enum')
                d = new_def('enum', name, ln.no, algebraic=False, form='str_enum')
                ctx.defs.append(d)
                j, texts = py_docstring(ctx, i, '    ') if i < n else (i, None)
                if texts is not None:
                    d['docs'] = texts
                    i = j
                while i < n:
                    l2 = L[i]
                    if l2.comments or l2.cont:
                        if ctx.stray(l2, name):
                            i += 1
                            continue
                        break
                    if l2.mask == '    pass' and not d['variants']:
                        l2.used = True
                        d['pass'] = True
                        i += 1
                        break
                    mv = PY_ENUMVAR.match(l2.mask)
                    if mv:
                        l2.used = True
                        w = lit_value(l2.code[mv.start(2):mv.end(2)], True)
                        v = new_variant(mv.group(1), l2.no, wire_name=w, wire_names=[w])
                        d['variants'].append(v)
                        i += 1
                        j, texts = py_docstring(ctx, i, '    ') if i < n else (i, None)
                        if texts is not None:
                            v['docs'] = texts
                            i = j
                        continue
                    if l2.raw.strip() != '' and ctx.stray(l2, name):
                        i += 1
                        continue
                    break
                span_of(d, L[i - 1].no)
                continue
            mb = re.match(r'^BaseModel(, Generic\[(.*)\])?$', bases)
            if not mb:
                ln.used = False
                ctx.bad(ln, 'class with unknown bases')
                continue
            ctx.use('BaseModel')
            gens = [g.strip() for g in mb.group(2).split(',')] if mb.group(1) else []
            if gens:
                ctx.use('Generic')
                for g in gens:
                    if g in typevars:
                        ctx.use(g)
            d = new_def('struct', name, ln.no, generics=gens, model_config=False)
            j, texts = py_docstring(ctx, i, '    ') if i < n else (i, None)
            if texts is not None:
                d['docs'] = texts
                i = j
            # variant class of an algebraic enum?
            mt = PY_TAGLINE.match(L[i].mask) if i < n and not L[i].comments and not L[i].cont else None
            if mt and mt.group(2) == mt.group(4) and mt.group(3) == mt.group(5):
                types = next((x for x in reversed(ctx.defs) if x['name'] == mt.group(2) and x.get('form') == 'str_enum'), None)
                if types is not None:
                    if group is not None and group['types'] is not types:
                        close_group('another enum starts')
                    if group is None:
                        group = {'types': types, 'variants': []}
                    L[i].used = True
                    ctx.use('Literal')
                    key = mt.group(3)
                    hits = [x['wire_name'] for x in types['variants'] if x['name'] == key]
                    v = new_variant(name, ln.no, docs=d['docs'], tag_key=L[i].code[mt.start(1):mt.end(1)], types_key=key,
                                    wire_name=hits[0] if hits else None, wire_names=hits[:1], wire_ambiguous=len(set(hits)) > 1)
                    if not hits:
                        ctx.anomalies.append(f'{name}: {mt.group(2)}.{key} is not defined')
                    i += 1
                    if i < n and not L[i].comments and not L[i].cont and (mc := PY_MEMBER.match(L[i].mask)) and not mc.group(3):
                        L[i].used = True
                        v['payload'] = 'newtype'
                        v['content_key'] = mc.group(1)
                        v['type'] = v['type_raw'] = L[i].code[mc.start(2):mc.end(2)]
                        i += 1
                    v['end'] = L[i - 1].no
                    group['variants'].append(v)
                    continue
            if group is not None:
                close_group('a class that is not a variant follows')
            ctx.defs.append(d)
            if i < n and L[i].mask == PY_CONFIG and not L[i].comments:
                L[i].used = True
                d['model_config'] = True
                ctx.use('ConfigDict')
                i += 1
                if i < n and L[i].raw.strip() == '':
                    L[i].used = True
                    i += 1
            while i < n:
                l2 = L[i]
                if l2.comments or l2.cont:
                    if ctx.stray(l2, name):
                        i += 1
                        continue
                    break
                if l2.mask == '    pass' and not d['members']:
                    l2.used = True
                    d['pass'] = True
                    i += 1
                    break
                mm = PY_MEMBER.match(l2.mask)
                fa = PY_FIELDARGS.match(mm.group(4)) if mm and mm.group(3) else None
                if not mm or (mm.group(3) and not fa) or PY_TAGLINE.match(l2.mask):
                    if l2.raw.strip() != '' and ctx.stray(l2, name):
                        i += 1
                        continue
                    break
                l2.used = True
                i += 1
                nm = mm.group(1)
                ty_raw = l2.code[mm.start(2):mm.end(2)]
                ty, opt_ty, annotated = py_split_type(ty_raw)
                alias = None
                default_none = False
                if fa:
                    ctx.use('Field')
                    if fa.group(1):
                        a0 = mm.start(4) + fa.start(2)
                        alias = lit_value(l2.code[a0:a0 + len(fa.group(2))], True)
                    default_none = bool(fa.group(4))
                # python.rs appends `_` when the snake-cased name (convert_case drops the outer underscores) is a keyword: class_ -> class__
                esc = nm.endswith('_') and (nm[:-1] in PY_KEYWORDS or nm[:-1].strip('_') in PY_KEYWORDS)
                mem = new_member(nm, l2.no, escaped=esc, wire_key=alias if alias is not None else nm,
                                 key_binding='alias' if alias is not None else 'name', type=ty, type_raw=ty_raw,
                                 default='Field(' + l2.code[mm.start(4):mm.end(4)] + ')' if mm.group(3) else None,
                                 optional=opt_ty or default_none, optional_detail={'optional_type': opt_ty, 'default_none': default_none},
                                 annotated=annotated)
                d['members'].append(mem)
                refs(d, 'field', ty_raw, member=nm)
                j, texts = py_docstring(ctx, i, '    ') if i < n else (i, None)
                if texts is not None:
                    mem['docs'] = texts
                    i = j
            span_of(d, L[i - 1].no)
            continue
        if (m := PY_CONST.match(mask)):
            seen = True
            ln.used = True
            if group is not None:
                close_group('a constant follows')
            d = new_def('const', m.group(1), ln.no, type=code[m.start(2):m.end(2)], type_raw=code[m.start(2):m.end(2)],
                        value=code[m.start(3):m.end(3)])
            ctx.defs.append(d)
            refs(d, 'const', d['type'])
            ctx.drop_docs()
            i += 1
            continue
        if (m := PY_ASSIGN.match(mask)):
            seen = True
            ln.used = True
            i += 1
            name = code[m.start(1):m.end(1)]
            rhs = code[m.start(3):m.end(3)]
            gens = [g.strip() for g in m.group(2)[1:-1].split(',')] if m.group(2) else []
            un = strip_wrapper(rhs, 'Union', '[', ']')
            members = [x.strip() for x in split_top(un)] if un is not None and un.strip() else ([] if un is not None else [rhs])
            if group is not None and not gens and members == [v['name'] for v in group['variants']]:
                types = group['types']
                types['kind'] = 'helper'
                types['helper_of'] = name
                ctx.define(types['name'])
                docs, dstart = ctx.take_docs()
                if un is not None:
                    ctx.use('Union')
                e = new_def('enum', name, types['span'][0], docs=docs, algebraic=True, variants=group['variants'], types_class=types['name'],
                            union=un is not None)
                e['tag_keys'] = [v['tag_key'] for v in e['variants']]
                e['content_keys'] = [v['content_key'] for v in e['variants'] if 'content_key' in v]
                span_of(e, ln.no)
                ctx.defs.append(e)
                group = None
                continue
            # an algebraic enum without variants: class NTypes(str, Enum): (empty) ... N = Union[]
            prev = ctx.defs[-1] if ctx.defs else None
            if (un is not None and not members and prev is not None and prev.get('form') == 'str_enum' and not prev['variants']
                    and prev['name'] == name + 'Types'):
                prev['kind'] = 'helper'
                prev['helper_of'] = name
                docs, dstart = ctx.take_docs()
                e = new_def('enum', name, prev['span'][0], docs=docs, algebraic=True, types_class=prev['name'], union=True)
                span_of(e, ln.no)
                ctx.defs.append(e)
                ctx.use('Union')
                continue
            if group is not None:
                close_group('an assignment that is not its union follows')
            ctx.drop_docs()
            if m.group(2):
                d = new_def('alias', name, ln.no, generics=gens, type=rhs, type_raw=rhs, form='subscript')
            else:
                for t, _ in type_idents('python', rhs):
                    if t in typevars and t not in gens:
                        gens.append(t)
                d = new_def('alias', name, ln.no, generics=gens, type=rhs, type_raw=rhs)
            ctx.defs.append(d)
            refs(d, 'alias', rhs)
            for g in gens:
                if g in typevars:
                    ctx.use(g)
            last_alias = d
            continue
        last_alias = last_alias_now
        ctx.bad(ln)
        ctx.drop_docs()
        i += 1
    close_group('end of text')
    link_inner(ctx)
    for d in ctx.defs:
        for v in d['variants']:
            if v['payload'] == 'newtype':
                refs(d, 'payload', v['type'], variant=v['name'])
            elif v['payload'] == 'struct':
                refs(d, 'inner', v['type'], variant=v['name'])
    for r in ctx.refs:
        if r['generic_param'] and r['name'] in typevars:
            ctx.use(r['name'])


INNER_DOC = re.compile(r'^Generated type representing the anonymous struct variant `(.*)` of the `(.*)` Rust enum$')


def link_inner(ctx):
    """Mark the helper structs typeshare generates for struct variants ('inner_of': (enum, variant) from
    the generated doc line) and turn a newtype variant whose type is exactly such a struct of the same
    text into payload 'struct' with 'inner' = the struct's name."""
    inner = {}
    for d in ctx.defs:
        if d['kind'] == 'struct' and d['docs']:
            m = INNER_DOC.match(d['docs'][0])
            if m:
                d['inner_of'] = (m.group(2), m.group(1))
                inner.setdefault(d['name'], d)
    for d in ctx.defs:
        if d['kind'] != 'enum':
            continue
        for v in d['variants']:
            if v['payload'] != 'newtype' or not v['type']:
                continue
            ids = [t for t, _ in type_idents(ctx.lang, v['type'])]
            if not ids:
                continue
            base = ids[0]
            if base in inner and re.match(r'^`?' + re.escape(base) + r'`?(\s*[<\[].*[>\]])?$', v['type'].strip()) and inner[base] is not d:
                v['payload'] = 'struct'
                v['inner'] = base


# ------------------------------------------------------------------------------------------------
# entry point
# ------------------------------------------------------------------------------------------------
EXTRACTORS = {'typescript': ex_typescript, 'kotlin': ex_kotlin, 'swift': ex_swift, 'scala': ex_scala, 'go': ex_go, 'python': ex_python}


def extract(lang, text):
    """observation of what `text` (output of typeshare's `lang` back end) declares; never raises"""
    if lang not in EXTRACTORS:
        raise ValueError(f'unknown language {lang!r}')
    if not isinstance(text, str):
        text = '' if text is None else str(text)
    try:
        lines, anomalies = lex_py(text) if lang == 'python' else lex_c(lang, text)
    except Exception as e:      # pragma: no cover - defensive
        lines, anomalies = [Line(k, r) for k, r in enumerate(text.split('\n'), 1)], [f'lexer error: {e!r}']
        for ln in lines:
            ln.code = ln.mask = ln.raw
    ctx = Ctx(lang, lines, anomalies)
    try:
        EXTRACTORS[lang](ctx)
    except Exception as e:      # the structure pass failed: everything not yet attributed is reported
        import traceback
        tb = traceback.extract_tb(e.__traceback__)
        ctx.unparsed.append(f'0: extractor error: {e!r} at line {tb[-1].lineno if tb else "?"} of extract.py')
    try:
        return ctx.result()
    except Exception as e:      # pragma: no cover - defensive
        return {'lang': lang, 'definitions': ctx.defs, 'references': ctx.refs, 'imports': ctx.imports, 'helper_uses': ctx.helper_uses,
                'helper_defs': ctx.helper_defs, 'header': '', 'unparsed': [f'0: extractor error: {e!r}'] + [f'{ln.no}: {ln.raw}' for ln in lines],
                'anomalies': ctx.anomalies}


if __name__ == '__main__':
    import sys
    import json
    print(json.dumps(extract(sys.argv[1], open(sys.argv[2], encoding='utf-8').read()), indent=1))
