"""Shared machinery of the checks: building, auditing the Coq development, running the extracted
model and the Rust harness in parallel, S-expression (de)serialisation, known findings, verdicts,
evidence files.  Everything a check reports is measured here on the run itself."""
import atexit, concurrent.futures, hashlib, json, os, pathlib, random, re, select, shutil, subprocess, sys, tempfile, threading, time

ROOT = pathlib.Path(__file__).resolve().parent.parent
COQ = ROOT / 'coq'
BUILD = ROOT / 'build'
# The registered checks always run against /repo. VERIF_REPO=<scratch copy of /repo> is a developer
# aid for trying a seeded change without touching /repo (separate harness copy and target dirs).
REPO = pathlib.Path(os.environ.get('VERIF_REPO', '/repo'))
ALT = REPO != pathlib.Path('/repo')
ALT_TAG = os.environ.get('VERIF_ALT_TAG', '')      # developer aid: several scratch copies tried in parallel, one build slot each
TARGET = BUILD / ('target-alt' + ALT_TAG if ALT else 'target')
DRIVER = BUILD / 'ocaml' / 'driver'
LIBDRIVE = TARGET / 'debug' / 'libdrive'
CLI_TARGET = BUILD / ('cli-target-alt' + ALT_TAG if ALT else 'cli-target')
TYPESHARE = CLI_TARGET / 'debug' / 'typeshare'
EVIDENCE = ROOT / 'evidence'
REPLAY = EVIDENCE / 'replay'
NPROC = os.cpu_count() or 4
GUARD = 'typeshare_verif'
IMPL_STALL = int(os.environ.get('VERIF_IMPL_STALL', '90'))     # seconds without an answer from libdrive = the request hangs

ENV = dict(os.environ, CARGO_NET_OFFLINE='true', CARGO_TERM_COLOR='never')

AXIOM_ALLOW = {
    # the standard library's real-number / classical axioms, reached only through Flocq (C18)
    'ClassicalDedekindReals.sig_not_dec', 'ClassicalDedekindReals.sig_forall_dec',
    'FunctionalExtensionality.functional_extensionality_dep', 'Classical_Prop.classic',
}

_tmpdirs = []


def core_version():
    """CARGO_PKG_VERSION of typeshare-core (printed in the generated headers)"""
    m = re.search(r'^version\s*=\s*"([^"]+)"', (REPO / 'core' / 'Cargo.toml').read_text(), re.M)
    return m.group(1) if m else ''


def tmpdir(prefix='verif-'):
    d = tempfile.mkdtemp(prefix=prefix)
    _tmpdirs.append(d)
    return pathlib.Path(d)


@atexit.register
def _cleanup():
    for d in _tmpdirs:
        shutil.rmtree(d, ignore_errors=True)


def log(*a):
    print(*a, file=sys.stderr, flush=True)


def run(cmd, cwd=None, timeout=1800, env=None, input=None):
    p = subprocess.run(cmd, cwd=cwd, env=env or ENV, input=input, capture_output=True, text=True, timeout=timeout)
    return p.returncode, p.stdout, p.stderr


# ------------------------------------------------------------------ S-expressions
def S(s):
    return 's' + '.'.join(str(ord(c)) for c in s)


def unS(a):
    assert isinstance(a, str) and a.startswith('s'), a
    return '' if a == 's' else ''.join(chr(int(t)) for t in a[1:].split('.'))


def O(x, f=S):
    return 'none' if x is None else f'(some {f(x)})'


def Lst(xs, f=lambda x: x):
    return '(' + ' '.join(f(x) for x in xs) + ')'


def B(b):
    return 'true' if b else 'false'


def parse_sx(line):
    toks = re.findall(r'\(|\)|[^\s()]+', line)
    pos = 0

    def item():
        nonlocal pos
        t = toks[pos]
        pos += 1
        if t == '(':
            out = []
            while toks[pos] != ')':
                out.append(item())
            pos += 1
            return out
        return t
    return item()


def dump_sx(x):
    return x if isinstance(x, str) else '(' + ' '.join(dump_sx(y) for y in x) + ')'


def sx_get(x, key):
    """x is a list of [key, value] pairs."""
    for kv in x:
        if isinstance(kv, list) and kv and kv[0] == key:
            return kv[1] if len(kv) == 2 else kv[1:]
    raise KeyError(key)


def sx_opt(x, f=lambda v: v):
    return None if x == 'none' else f(x[1])


# ------------------------------------------------------------------ building
def file_hash(paths):
    h = hashlib.sha256()
    for p in sorted(paths):
        h.update(str(p).encode())
        h.update(pathlib.Path(p).read_bytes())
    return h.hexdigest()


def build_coq():
    """Full .vo build through coq_makefile (no -vos). Returns (ok, message)."""
    t0 = time.time()
    if not (COQ / 'Makefile').exists() or (COQ / 'Makefile').stat().st_mtime < (COQ / '_CoqProject').stat().st_mtime:
        rc, out, err = run(['coq_makefile', '-f', '_CoqProject', '-o', 'Makefile'], cwd=COQ)
        if rc != 0:
            return False, err
    rc, out, err = run(['timeout', '3000', 'make', '-k', f'-j{NPROC}'], cwd=COQ, timeout=3100)     # -k: one broken proof file must not hide the others
    if rc != 0:
        return False, (out + err)[-4000:]
    log(f'[build] coq ok in {time.time()-t0:.1f}s')
    return True, ''


def build_driver():
    """Extraction (ExtrOcamlBasic only) + ocamlopt of the hand-written driver."""
    od = BUILD / 'ocaml'
    od.mkdir(parents=True, exist_ok=True)
    parts = sorted((COQ / 'Extract' / 'parts').glob('*.ext'))
    srcs = sorted((ROOT / 'ocaml').glob('*.ml')) + parts + sorted(COQ.rglob('Model/**/*.v')) + sorted(COQ.glob('Model/*.v')) + sorted(COQ.glob('Spec/*.v'))
    stamp = od / 'stamp'
    h = file_hash(srcs)
    if DRIVER.exists() and stamp.exists() and stamp.read_text() == h:
        return True, ''
    t0 = time.time()
    imports, idents = [], []
    for f in parts:
        for line in f.read_text().splitlines():
            line = line.strip()
            if not line or line.startswith('#'):
                continue
            if line.startswith('import '):
                imports += [m for m in line.split()[1:] if m not in imports]
            else:
                idents += [i for i in line.split() if i not in idents]
    bad = [x for x in imports + idents if not re.fullmatch(r"[A-Za-z_][\w.']*", x)]
    if bad:
        return False, 'Extract parts: not an identifier: ' + ' '.join(bad)
    (od / 'Extract.v').write_text(
        '(* generated by lib/vf.py from coq/Extract/parts/*.ext - ExtrOcamlBasic only, no Extract Constant *)\n'
        'From Coq Require Import Extraction ExtrOcamlBasic.\n'
        'From TS Require Import ' + ' '.join(imports) + '.\n'
        'Extraction Language OCaml.\nSet Extraction AccessOpaque.\n'
        'Extraction "model.ml"\n  ' + '\n  '.join(idents) + '.\n')
    rc, out, err = run(['timeout', '900', 'coqc', '-Q', str(COQ), 'TS', '-w', '-all', 'Extract.v'], cwd=od, timeout=1000)
    if rc != 0:
        return False, (out + err)[-4000:]
    for f in (ROOT / 'ocaml').glob('*.ml'):
        shutil.copy(f, od / f.name)
    order = ['model.mli', 'model.ml', 'drv_base.ml', 'drv_ast.ml', 'drv_ir.ml', 'drv_front.ml', 'drv_gen.ml'] + sorted(f.name for f in (ROOT / 'ocaml').glob('drv_lang_*.ml')) + sorted(f.name for f in (ROOT / 'ocaml').glob('drv_c*.ml')) + ['driver.ml']
    rc, out, err = run(['ocamlfind', 'ocamlopt', '-w', '-a'] + order + ['-o', 'driver'], cwd=od, timeout=1000)
    if rc != 0:
        return False, (out + err)[-4000:]
    stamp.write_text(h)
    log(f'[build] driver ok in {time.time()-t0:.1f}s')
    return True, ''


def build_harness():
    """cargo build of libdrive against /repo's current working tree, hooks enabled."""
    t0 = time.time()
    hd = ROOT / 'harness' / 'libdrive'
    if ALT:
        alt = BUILD / ('harness-alt' + ALT_TAG)
        shutil.rmtree(alt, ignore_errors=True)
        shutil.copytree(hd, alt, ignore=shutil.ignore_patterns('target'))
        for f in (alt / 'Cargo.toml', alt / 'build.rs'):
            f.write_text(f.read_text().replace('/repo/', str(REPO) + '/'))
        hd = alt
    shutil.copy(REPO / 'Cargo.lock', hd / 'Cargo.lock')
    env = dict(ENV, CARGO_TARGET_DIR=str(TARGET), RUSTFLAGS=f'--cfg {GUARD}')
    rc, out, err = run(['cargo', 'build', '--offline', '-q'], cwd=hd, env=env, timeout=1800)
    if rc != 0:
        return False, (out + err)[-6000:]
    log(f'[build] libdrive ok in {time.time()-t0:.1f}s')
    return True, ''


def build_cli():
    """cargo build of the real typeshare binary (features go,python) from /repo's working tree."""
    t0 = time.time()
    env = dict(ENV, CARGO_TARGET_DIR=str(CLI_TARGET), RUSTFLAGS=f'--cfg {GUARD}')
    rc, out, err = run(['cargo', 'build', '--offline', '-q', '-p', 'typeshare-cli', '--features', 'go,python'], cwd=REPO, env=env, timeout=1800)
    if rc != 0:
        return False, (out + err)[-6000:]
    log(f'[build] typeshare cli ok in {time.time()-t0:.1f}s')
    return True, ''


# ------------------------------------------------------------------ proof audit
HYGIENE = re.compile(r'\b(Admitted|admit|Axiom|Axioms|Parameter|Parameters|Conjecture|Conjectures|Abort All)\b|Unset Guard|bypass_check|type-in-type|impredicative-set|Admit Obligations|Unset Positivity|Unset Universe')


def strip_comments(text):
    out, depth, i = [], 0, 0
    while i < len(text):
        if text.startswith('(*', i):
            depth += 1
            i += 2
        elif text.startswith('*)', i) and depth > 0:
            depth -= 1
            i += 2
        else:
            if depth == 0:
                out.append(text[i])
            i += 1
    return ''.join(out)


def hygiene():
    bad = []
    for f in sorted(COQ.rglob('*.v')):
        txt = strip_comments(f.read_text())
        for n, line in enumerate(txt.splitlines(), 1):
            if HYGIENE.search(line):
                bad.append(f'{f.relative_to(ROOT)}:{n}: {line.strip()}')
        # Variable / Hypothesis only inside sections
        depth = 0
        for n, line in enumerate(txt.splitlines(), 1):
            s = line.strip()
            if re.match(r'Section\s+\w+', s):
                depth += 1
            elif re.match(r'End\s+\w+', s) and depth > 0:
                depth -= 1
            elif re.match(r'(Variable|Variables|Hypothesis|Hypotheses|Context)\b', s) and depth == 0:
                bad.append(f'{f.relative_to(ROOT)}:{n}: {s} (outside a Section)')
    return bad


def audit(prop):
    """Compile Audit/<prop>.v (pinned statements + Print Assumptions). Returns dict."""
    res = {'obligations': 0, 'discharged': 0, 'axioms': [], 'failures': [], 'theorems': []}
    src = (COQ / 'Audit' / f'{prop}.v').read_text()
    names = re.findall(r'^Print Assumptions (Props\.\w+\.\w+)\.', src, re.M)
    res['obligations'] = len(names)
    res['theorems'] = names
    bad = hygiene()
    if bad:
        res['failures'] += ['hygiene: ' + b for b in bad]
    if len(re.findall(r'^Goal ', src, re.M)) != len(names):
        res['failures'].append('audit file: number of pinned statements differs from number of Print Assumptions')
    rc, out, err = run(['timeout', '600', 'coqc', '-Q', '.', 'TS', '-w', '-all', '-o', str(tmpdir() / f'{prop}.vo'), f'Audit/{prop}.v'], cwd=COQ, timeout=700)
    if rc != 0:
        res['failures'].append('audit file does not compile: ' + (out + err)[-1500:])
        return res
    # the audit file prints nothing but Print Assumptions reports
    closed = out.count('Closed under the global context')
    axioms = set()
    nax = 0
    for line in out.splitlines():
        if line.startswith('Axioms:'):
            nax += 1
            continue
        m = re.match(r"^([A-Za-z_][\w.']*)\s*(:.*)?$", line)
        if m and not line.startswith('Closed under'):
            axioms.add(m.group(1))
    nblocks = closed + nax
    res['axioms'] = sorted(axioms)
    notallowed = [a for a in axioms if a not in AXIOM_ALLOW]
    if notallowed:
        res['failures'].append('axioms outside the allow-list: ' + ', '.join(notallowed))
    if nblocks < len(names):
        res['failures'].append(f'only {nblocks} Print Assumptions reports for {len(names)} pinned theorems')
    res['discharged'] = len(names) if not res['failures'] else 0
    return res


def coqchk(prop):
    """thorough tier: re-check the property's compiled closure with the independent checker and list
    the axioms it finds. Returns (ok, axioms, message)."""
    rc, out, err = run(['timeout', '1500', 'coqchk', '-o', '-silent', '-Q', '.', 'TS', f'TS.Props.{prop}'], cwd=COQ, timeout=1600)
    text = out + err
    axioms = []
    if 'Axioms: <none>' not in text:
        m = re.search(r'Axioms:(.*?)(?:\n\s*\n|\Z)', text, re.S)
        if m:
            axioms = [l.strip() for l in m.group(1).splitlines() if l.strip() and l.strip() != '<none>']
    return rc == 0, axioms, text[-800:]


def coq_lit_str(s):
    return '[' + '; '.join(str(ord(c)) for c in s) + ']%N'


def coq_check_equalities(imports, equalities, shard=200):
    """thorough tier: cross-check extraction. Each equality is a Coq proposition `lhs = rhs` whose rhs is
    what the EXTRACTED model answered; it must hold by vm_compute inside Coq. Returns list of failures."""
    if not equalities:
        return []
    d = tmpdir()
    jobs = []
    for k in range(0, len(equalities), shard):
        f = d / f'xc{k}.v'
        body = [imports] + [f'Goal {e}.\nProof. vm_compute. reflexivity. Qed.' for e in equalities[k:k + shard]]
        f.write_text('\n'.join(body) + '\n')
        jobs.append(f)

    def one(f):
        rc, out, err = run(['timeout', '900', 'coqc', '-Q', str(COQ), 'TS', '-w', '-all', str(f)], cwd=d, timeout=1000)
        return (f.name, rc, (out + err)[-600:])
    with concurrent.futures.ThreadPoolExecutor(max_workers=NPROC) as ex:
        res = list(ex.map(one, jobs))
    return [r for r in res if r[1] != 0]


# ------------------------------------------------------------------ parallel runners
def _chunks(lines, n):
    k = max(1, (len(lines) + n - 1) // n)
    return [lines[i:i + k] for i in range(0, len(lines), k)]


def _run_chunk(cmd, chunk, timeout, env=None, abort_answer=None):
    def once(lines):
        p = subprocess.run(cmd, input='\n'.join(lines) + '\n', capture_output=True, text=True, timeout=timeout, env=env or ENV)
        out = p.stdout.split('\n')
        if out and out[-1] == '':
            out.pop()
        return p, out
    p, out = once(chunk)
    if len(out) == len(chunk):
        return out
    if abort_answer is None:
        raise RuntimeError(f'{cmd[0]}: {len(out)} answers for {len(chunk)} requests (rc={p.returncode}) stderr={p.stderr[-500:]}')
    # the process died (abort / stack overflow / kill) part-way: answers so far are good, the next
    # request is the one that killed it; continue after it
    res = []
    rest = chunk
    while rest:
        p, out = once(rest)
        if len(out) >= len(rest):
            res += out[:len(rest)]
            break
        res += out
        res.append(abort_answer(p.returncode))
        rest = rest[len(out) + 1:]
    return res


def _run_chunk_stall(cmd, chunk, stall, abort_answer, hang_answer, env=None):
    """like _run_chunk, but answers are read as they come: when NO answer arrives for `stall` seconds the request being
    served does not return (the code under test spins): the process is killed, that request gets hang_answer(), and the
    rest of the chunk goes to a fresh process.  A process that dies part-way gets abort_answer(rc) for the request that
    killed it, as in _run_chunk."""
    res, rest = [], list(chunk)
    while rest:
        p = subprocess.Popen(cmd, stdin=subprocess.PIPE, stdout=subprocess.PIPE, stderr=subprocess.DEVNULL, env=env or ENV)

        def feed(proc=p, data=('\n'.join(rest) + '\n').encode()):
            try:
                proc.stdin.write(data)
                proc.stdin.close()
            except (BrokenPipeError, OSError):
                pass
        threading.Thread(target=feed, daemon=True).start()
        fd, buf, got, hung = p.stdout.fileno(), b'', [], False
        while len(got) < len(rest):
            r, _, _ = select.select([fd], [], [], stall)
            if not r:
                hung = True
                break
            data = os.read(fd, 1 << 16)
            if not data:
                break
            buf += data
            *lines, buf = buf.split(b'\n')
            got += [l.decode('utf-8', 'replace') for l in lines]
        if hung:
            p.kill()
            p.wait()
            res += got[:len(rest)]
            res.append(hang_answer(stall))
            rest = rest[len(got) + 1:]
            continue
        try:
            rc = p.wait(timeout=30)
        except subprocess.TimeoutExpired:
            p.kill()
            rc = p.wait()
        if len(got) >= len(rest):
            res += got[:len(rest)]
            break
        if abort_answer is None:
            raise RuntimeError(f'{cmd[0]}: {len(got)} answers for {len(rest)} requests (rc={rc})')
        res += got
        res.append(abort_answer(rc))
        rest = rest[len(got) + 1:]
    return res


def run_lines(cmd, lines, timeout=1200, jobs=NPROC, abort_answer=None, hang_answer=None, stall=None):
    if not lines:
        return []
    chunks = _chunks(lines, jobs)
    with concurrent.futures.ThreadPoolExecutor(max_workers=jobs) as ex:
        if hang_answer is not None:
            outs = list(ex.map(lambda c: _run_chunk_stall(cmd, c, stall or 120, abort_answer, hang_answer), chunks))
        else:
            outs = list(ex.map(lambda c: _run_chunk(cmd, c, timeout, abort_answer=abort_answer), chunks))
    return [l for o in outs for l in o]


def model(lines, timeout=1200):
    """lines: S-expression commands for the extracted model; returns parsed answers."""
    outs = run_lines(['bash', '-c', f'ulimit -s unlimited 2>/dev/null; exec {DRIVER}'], lines, timeout)
    res = []
    for l, o in zip(lines, outs):
        if o.startswith('(bad'):
            raise RuntimeError(f'model driver rejected {l!r}: {o}')
        res.append(parse_sx(o))
    return res


def impl(objs, timeout=1200):
    """objs: JSON commands for libdrive (the real library built from /repo)."""
    # a request that gets no answer for IMPL_STALL seconds is answered {"hang": seconds}: the code under test does not return
    outs = run_lines([str(LIBDRIVE)], [json.dumps(o) for o in objs], timeout,
                     abort_answer=lambda rc: json.dumps({'abort': rc}), hang_answer=lambda st: json.dumps({'hang': st}), stall=IMPL_STALL)
    return [json.loads(o) for o in outs]


# ------------------------------------------------------------------ known findings
def known_findings(prop):
    out = []
    p = ROOT / 'KNOWN_FINDINGS.jsonl'
    if p.exists():
        for line in p.read_text().splitlines():
            line = line.strip()
            if line and not line.startswith('#'):
                r = json.loads(line)
                if r['property'] == prop:
                    out.append(r)
    return out


# ------------------------------------------------------------------ the check skeleton
class Check:
    """Collects what one run of one property's check did and produces verdict + evidence."""

    def __init__(self, prop, tier, seed):
        self.prop, self.tier, self.seed = prop, tier, seed
        self.t0 = time.time()
        self.rng = random.Random(f'{prop}-{seed}')
        self.violations = []          # (description, replay path, no_failing_input)
        self.known_hit = {}           # finding id -> count of reproductions
        self.known_nohit = set()
        self.evaluations = 0
        self.nontrivial = set()
        self.samples = []
        self.counters = {}
        self.notes = []
        self.audit = None
        self.build_failures = []
        self.unreadable_cases = []    # real outputs the text extractor could not read (layout changed, or ill-formed: C10's subject)
        self.assumptions = []
        self.trusted = [
            'Coq 8.16.1 kernel (coqc); vm_compute in witness/finite-table lemmas; no native_compute',
            'extraction with ExtrOcamlBasic only (no Extract Constant), OCaml 4.13.1, ocaml/drv_*.ml driver',
            'hand-written Gallina model tied to /repo only by this correspondence check (differential testing)',
            'Python generators/extractors in /verif/checks and /verif/lib; Rust harness harness/libdrive',
        ]
        REPLAY.mkdir(parents=True, exist_ok=True)
        self.findings = {f['id']: f for f in known_findings(prop)}

    def unreadable(self, lang, payload, unparsed):
        """The extractor cannot read the REAL output (lines outside the layout it knows): the case cannot be judged by an
        observation-level property. It is remembered; if the run finds no failing input, finish() reports ONE violation without
        a failing input naming the extractor/correspondence (a layout change is harmless for the property, an ill-formed file is
        C10's subject). Returns True so callers can `if unparsed and chk.unreadable(..): continue`."""
        self.count(f'unreadable_real_output_{lang}')
        if len(self.unreadable_cases) < 5:
            self.unreadable_cases.append(dict(payload, lang=lang, unparsed=list(unparsed)[:6]))
        return True

    def clear_replays(self):
        """called by ./check before a run (not before a replay): replay files of earlier runs would only confuse"""
        for old in REPLAY.glob(f'{self.prop}-*.json'):
            old.unlink()

    def count(self, key, n=1):
        self.counters[key] = self.counters.get(key, 0) + n

    def sample(self, x, cap=6):
        if len(self.samples) < cap:
            self.samples.append(x)

    def write_replay(self, name, payload):
        p = REPLAY / (f'{self.prop}-' + re.sub(r'[^A-Za-z0-9._+-]+', '_', str(name))[:120] + '.json')     # no blanks in a path that is printed on a VIOLATION line
        p.write_text(json.dumps(payload, indent=1, ensure_ascii=False))
        return p

    def violation(self, name, payload, what, no_input=False):
        if len(self.violations) >= 20:
            return
        p = self.write_replay(name, dict(payload, what=what))
        self.violations.append((what, p, no_input))

    def known(self, fid, case_desc):
        """A failing case classified in finding class fid. Returns True if fid is an open finding."""
        f = self.findings.get(fid)
        if f is None or not str(f.get('status', 'open')).startswith('open'):
            return False
        self.known_hit[fid] = self.known_hit.get(fid, 0) + 1
        return True

    def prepare(self, need_cli=False, need_harness=True):
        ok, msg = build_coq()
        if not ok:
            # the development is built with make -k: this property is affected only if ITS theorem file (and so something
            # it depends on) failed to compile; a proof of another property that no longer checks is that property's alarm
            rc, _, _ = run(['make', '-q', f'Props/{self.prop}.vo'], cwd=COQ, timeout=300)
            if rc == 0:
                self.notes.append('another part of the Coq development does not compile (not a dependency of this property): ' + msg[-300:])
            else:
                self.build_failures.append(('coq build (a proof obligation no longer checks)', msg))
        ok, msg = build_driver()
        if not ok:
            self.build_failures.append(('model extraction/driver build', msg))
            raise SystemExit(self.finish())
        self.audit = audit(self.prop) if not self.build_failures else {'obligations': 1, 'discharged': 0, 'axioms': [], 'failures': ['coq build failed'], 'theorems': []}
        if self.tier == 'thorough' and not self.build_failures:
            ok, axioms, msg = coqchk(self.prop)
            self.counters['coqchk_ok'] = int(ok)
            self.notes.append('coqchk -o axioms: ' + (', '.join(axioms) if axioms else '<none>'))
            bad = [a for a in axioms if not any(a.endswith(x.split('.')[-1]) or x in a for x in AXIOM_ALLOW)]
            if not ok:
                self.audit['failures'].append('coqchk rejected the compiled development: ' + msg)
                self.audit['discharged'] = 0
            elif bad:
                self.audit['failures'].append('coqchk reports axioms outside the allow-list: ' + ', '.join(bad))
                self.audit['discharged'] = 0
        self.harness_ok = self.cli_ok = True
        if need_harness:
            ok, msg = build_harness()
            if not ok:
                self.harness_ok = False
                self.build_failures.append(('libdrive harness build against /repo (correspondence cannot be evaluated through the library)', msg))
        if need_cli:
            ok, msg = build_cli()
            if not ok:
                self.cli_ok = False
                self.build_failures.append(('typeshare CLI build from /repo', msg))

    def fidelity(self, langs, n_ir=200, decisive=False):
        """Byte-level tie of the back-end models to the real generators, re-checked on this run: every snapshot
        input of /repo/core/data/tests through parse -> reconcile -> generate_types on both sides, plus n_ir seeded
        IR item sets per language. A byte difference is counted as render_drift (evidence); when `decisive`
        (text-level properties) it is a broken correspondence (violation without a failing input unless the
        property's own judgement finds one)."""
        import glob, back, irgen
        files = sorted(glob.glob(str(REPO / 'core/data/tests/*/input.rs')))
        CFG = {'kotlin': {'package': 'com.agilebits.onepassword'}, 'scala': {'package': 'com.agilebits.onepassword'}, 'go': {'package': 'proto'}}
        drift = []
        for lang in langs:
            cfg = CFG.get(lang, {})
            res = back.run_src([(lang, cfg, open(f).read(), []) for f in files])
            g = irgen.Gen(random.Random(f'fidelity-{self.prop}-{self.seed}-{lang}'))
            res += back.run_ir([(lang, cfg, g.items(), k % 2 == 0) for k in range(n_ir)])
            for r in res:
                self.count('fidelity_cases_' + lang)
                if not back.same(r['impl'], r['model']):
                    drift.append({'lang': lang, 'case': r['case'][2] if isinstance(r['case'][2], str) else r['case'][2], 'impl': r['impl'], 'model': r['model']})
        self.count('render_drift', len(drift))
        if drift and decisive:
            self.violation('fidelity', {'correspondence': 'Model.Lang.*_generate vs the real generate_types, byte for byte', 'cases': drift[:3]},
                           f'model and real generator differ in bytes on {len(drift)} snapshot / IR case(s)', no_input=True)
        elif drift:
            self.notes.append(f'render_drift: {len(drift)} byte-level differences between model and real generator (observations are what decides this property); first: {json.dumps(drift[0])[:600]}')
        return drift

    def finish(self):
        wall = time.time() - self.t0
        au = self.audit or {'obligations': 1, 'discharged': 0, 'axioms': [], 'failures': ['not run'], 'theorems': []}
        lines = []
        # proof-side or build-side breakage with no failing input
        real = [v for v in self.violations if not v[2]]
        if not real and self.unreadable_cases:
            n = sum(v for k, v in self.counters.items() if k.startswith('unreadable_real_output_'))
            p = self.write_replay('unreadable-output', {'correspondence': 'lib/extract.py text extractor vs the real generated text', 'cases': self.unreadable_cases,
                                                        'what': f'{n} real output file(s) contain lines outside the layout the extractor knows; their observations could not be judged'})
            self.violations.append((f'the extractor cannot read {n} real output file(s)', p, True))
        if not real:
            for what, msg in self.build_failures:
                p = self.write_replay('build-failure', {'broken': what, 'detail': msg})
                self.violations.append((what, p, True))
            for f in au['failures']:
                if not self.build_failures or 'coq build failed' not in f:
                    p = self.write_replay('proof-failure', {'broken_theorem_or_audit': f, 'theorems': au['theorems']})
                    self.violations.append((f, p, True))
        for fid, n in sorted(self.known_hit.items()):
            f = self.findings[fid]
            lines.append(f"KNOWN-FINDING: property={self.prop} {fid} {f['what_fails']} (reproduced on {n} case(s) this run)")
        for fid, f in self.findings.items():
            if str(f.get('status', 'open')).startswith('open') and fid not in self.known_hit:
                self.notes.append(f'open finding {fid} was not reproduced by this run')
        seen = set()
        for what, p, no_input in self.violations:
            if p in seen:
                continue
            seen.add(p)
            lines.append(f'VIOLATION property={self.prop} replay={p}' + (' no-failing-input-found' if no_input else ''))
        ev = {
            'property_id': self.prop, 'tier': self.tier, 'seed': self.seed, 'level': 'proof',
            'coverage': {
                'obligations': max(1, au['obligations']), 'discharged': au['discharged'],
                'checker_cmd': f'make -C coq (coq_makefile, full .vo) && coqc -Q coq TS coq/Audit/{self.prop}.v  [pinned statements + Print Assumptions]',
                'trusted_base': self.trusted,
                'axioms_reported': au['axioms'],
                'theorems': au['theorems'],
                'evaluations': self.evaluations,
                'distinct_nontrivial': len(self.nontrivial),
                'rule': getattr(self, 'rule', ''),
                'samples': self.samples,
                'counters': self.counters,
                'known_findings_reproduced': self.known_hit,
                'notes': self.notes,
            },
            'assumptions': self.assumptions,
            'wall_s': round(wall, 2),
            'violations': len(seen),
        }
        EVIDENCE.mkdir(exist_ok=True)
        (EVIDENCE / f'{self.prop}.json').write_text(json.dumps(ev, indent=1, ensure_ascii=False))
        for l in lines:
            print(l)
        print(f'[{self.prop}] tier={self.tier} seed={self.seed} evaluations={self.evaluations} nontrivial={len(self.nontrivial)} '
              f'obligations={au["discharged"]}/{au["obligations"]} violations={len(seen)} wall={wall:.1f}s')
        sys.stdout.flush()
        return 1 if seen else 0
